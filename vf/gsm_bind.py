"""Binding between Regex.tla pattern trees and the real gsm engine (projection functions shared by
the spec->code replays and the code->spec traces of C13 / C14)."""
from __future__ import annotations

import random

from codelimit.common.gsm.operator.OneOrMore import OneOrMore
from codelimit.common.gsm.operator.Optional import Optional
from codelimit.common.gsm.operator.Union import Union
from codelimit.common.gsm.operator.ZeroOrMore import ZeroOrMore


def to_items(t) -> list:
    """Pattern tree -> the code's list-shaped Expression (atoms are plain items -> Identity)."""
    k = t[0]
    if k == "atom":
        return [t[1]]
    if k == "seq":
        return to_items(t[1]) + to_items(t[2])
    if k == "alt":
        return [Union(to_items(t[1]), to_items(t[2]))]
    if k == "opt":
        return [Optional(to_items(t[1]))]
    if k == "star":
        return [ZeroOrMore(to_items(t[1]))]
    if k == "plus":
        return [OneOrMore(to_items(t[1]))]
    raise ValueError(k)


def to_items_pred(t) -> list:
    """Like to_items, but every atom is a FRESH predicate object (Identity(letter)): equal predicates, distinct objects -
    what a caller writes who builds his pattern from predicates instead of plain items."""
    from codelimit.common.gsm.predicate.Identity import Identity

    k = t[0]
    if k == "atom":
        return [Identity(t[1])]
    if k == "seq":
        return to_items_pred(t[1]) + to_items_pred(t[2])
    if k == "alt":
        return [Union(to_items_pred(t[1]), to_items_pred(t[2]))]
    if k == "opt":
        return [Optional(to_items_pred(t[1]))]
    if k == "star":
        return [ZeroOrMore(to_items_pred(t[1]))]
    if k == "plus":
        return [OneOrMore(to_items_pred(t[1]))]
    raise ValueError(k)


_SHARED: dict = {}


def to_items_shared(t) -> list:
    """Like to_items, but a sub-tree is built ONCE per process: patterns that contain the same sub-pattern contain the same
    operator OBJECT (a pattern is a value; the language modules reuse their sub-patterns the same way).  The object then
    turns up in other surroundings from one case to the next and twice inside one tree."""
    if t in _SHARED:
        return _SHARED[t]
    k = t[0]
    if k == "atom":
        r = [t[1]]
    elif k == "seq":
        r = to_items_shared(t[1]) + to_items_shared(t[2])
    elif k == "alt":
        r = [Union(to_items_shared(t[1]), to_items_shared(t[2]))]
    elif k == "opt":
        r = [Optional(to_items_shared(t[1]))]
    elif k == "star":
        r = [ZeroOrMore(to_items_shared(t[1]))]
    elif k == "plus":
        r = [OneOrMore(to_items_shared(t[1]))]
    else:
        raise ValueError(k)
    _SHARED[t] = r
    return r


def show(t) -> str:
    k = t[0]
    if k == "atom":
        return t[1]
    if k == "seq":
        return show(t[1]) + " " + show(t[2])
    if k == "alt":
        return "(" + show(t[1]) + " | " + show(t[2]) + ")"
    return "(" + show(t[1]) + ")" + {"opt": "?", "star": "*", "plus": "+"}[k]


def to_json(t):
    return list(to_json(x) if isinstance(x, (tuple, list)) else x for x in t)


def from_json(t):
    return tuple(from_json(x) if isinstance(x, list) else x for x in t)


def nullable(t) -> bool:
    k = t[0]
    if k == "atom":
        return False
    if k == "seq":
        return nullable(t[1]) and nullable(t[2])
    if k == "alt":
        return nullable(t[1]) or nullable(t[2])
    if k in ("opt", "star"):
        return True
    return nullable(t[1])


def canon(t):
    """Right-nest sequences (left child of a seq is never a seq), as Regex.tla's AST does."""
    k = t[0]
    if k == "atom":
        return t
    if k == "seq":
        l, r = canon(t[1]), canon(t[2])
        if l[0] == "seq":
            return canon(("seq", l[1], ("seq", l[2], r)))
        return ("seq", l, r)
    if k == "alt":
        return ("alt", canon(t[1]), canon(t[2]))
    return (k, canon(t[1]))


def random_tree(rng: random.Random, size: int, sigma: str):
    if size <= 1:
        return ("atom", rng.choice(sigma))
    c = rng.random()
    if c < 0.35:
        return (rng.choice(["opt", "star", "plus"]), random_tree(rng, size - 1, sigma))
    if c < 0.55 and size >= 3:
        k = rng.randint(1, size - 2)
        return ("alt", random_tree(rng, k, sigma), random_tree(rng, size - 1 - k, sigma))
    k = rng.randint(1, size - 1)
    return ("seq", random_tree(rng, k, sigma), random_tree(rng, size - k, sigma))
