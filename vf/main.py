"""./check <ID> --tier quick|thorough [--replay FILE]   |   ./check --setup   |   ./check --selftest"""
from __future__ import annotations

import argparse
import importlib
import json
import os
import subprocess
import sys
import traceback
import warnings

# the repository's own sources raise a SyntaxWarning when compiled (an invalid escape in format_markdown.py); it says nothing
# about a property and would be repeated by every worker process
warnings.filterwarnings("ignore", category=SyntaxWarning)
os.environ.setdefault("PYTHONWARNINGS", "ignore::SyntaxWarning")

from . import tlc
from .common import SPEC, VERIF, MachineryError, assert_repo_binding, cleanup_work, log

PROPS = [f"C{n:02d}" for n in range(1, 20)]


def setup() -> int:
    ok = True
    p = subprocess.run(["java", "-version"], capture_output=True, text=True)
    log((p.stderr or p.stdout).splitlines()[0] if (p.stderr or p.stdout) else "java: ?")
    assert_repo_binding()
    mods = sorted(SPEC.glob("*.tla"))
    from concurrent.futures import ThreadPoolExecutor

    with ThreadPoolExecutor(8) as ex:
        for f, (good, out) in zip(mods, ex.map(tlc.sany, mods)):
            if not good:
                ok = False
                log(f"SANY FAILED {f.name}\n{out[-1500:]}")
    log(f"SANY: {len(mods)} modules parsed" + ("" if ok else " (with failures)"))
    mf = VERIF / "MANIFEST.json"
    doc = json.loads(mf.read_text())
    schema = "/root/.vp/MANIFEST.schema.json"
    if os.path.exists(schema):
        code = "import json,sys,jsonschema; jsonschema.Draft202012Validator(json.load(open(sys.argv[1]))).validate(json.load(open(sys.argv[2])))"
        try:
            q = subprocess.run(["python3-vt", "-c", code, schema, str(mf)], capture_output=True, text=True)
            if q.returncode != 0:
                ok = False
                log("MANIFEST.json does not validate:\n" + q.stderr[-800:])
        except FileNotFoundError:
            log("python3-vt not found; MANIFEST schema validation skipped")
    claimed = {c["property_id"] for c in doc["checks"]}
    na = {c["property_id"] for c in doc.get("not_applicable", [])}
    for pid in PROPS:
        if pid not in claimed and pid not in na:
            ok = False
            log(f"{pid} neither claimed nor listed as not_applicable")
    (VERIF / "evidence").mkdir(exist_ok=True)
    log("setup " + ("ok" if ok else "FAILED"))
    return 0 if ok else 2


def main(argv=None) -> int:
    ap = argparse.ArgumentParser(prog="check")
    ap.add_argument("prop", nargs="?")
    ap.add_argument("--tier", default=os.environ.get("VERIF_TIER", "quick"), choices=["quick", "thorough"])
    ap.add_argument("--replay")
    ap.add_argument("--setup", action="store_true")
    ap.add_argument("--selftest", action="store_true")
    ap.add_argument("--keep-work", action="store_true")
    a = ap.parse_args(argv)
    # every scratch directory of this run (harness, pool workers, TLC's unpacked modules) lives under one root
    # outside /repo and /verif that is removed when the run ends, whatever happened in between
    import shutil
    import tempfile

    own_root = None
    if not os.environ.get("VERIF_SCRATCH"):
        own_root = tempfile.mkdtemp(prefix="vf-run-")
        os.environ["VERIF_SCRATCH"] = own_root
    try:
        return _main(a, ap)
    finally:
        if own_root:
            os.chdir("/")
            shutil.rmtree(own_root, ignore_errors=True)


def _main(a, ap) -> int:
    try:
        if a.setup:
            return setup()
        if a.selftest:
            from . import selftest

            return selftest.main()
        if not a.prop or a.prop not in PROPS:
            ap.error("property id C01..C19 required")
        assert_repo_binding()
        mod = importlib.import_module(f"vf.props.{a.prop.lower()}")
        try:
            if a.replay:
                return int(mod.replay(a.replay))
            import shutil
            from .common import REPLAYS

            shutil.rmtree(REPLAYS / a.prop, ignore_errors=True)  # replay files of earlier runs are stale
            return int(mod.run(a.tier))
        finally:
            if not a.keep_work:
                cleanup_work(a.prop)
    except MachineryError as e:
        log(f"MACHINERY FAILURE: {e}")
        return 2
    except SystemExit:
        raise
    except Exception:  # noqa: BLE001
        log("MACHINERY FAILURE (unexpected exception in the harness):")
        traceback.print_exc()
        return 2


if __name__ == "__main__":
    sys.exit(main())
