"""PySuite.tla <-> languages/Python.py:extract_blocks (phase P of C01).

M  PySuite.tla: the reverse scan as coded against the reference suite, for every sequence of logical lines
   (indentation x kind) up to N lines; CodedIsRef, SuiteBelowHeader, SuiteIsInterval, SuitesNest.
G  every well-formed state is replayed into the real Python().extract_headers / extract_blocks on synthetic
   tokens (and, for the line structures that are valid Python, through the whole scan of the rendered text with
   CPython's own parser as a second opinion on the reference).
Verdict: a disagreement on a line structure that is valid Python with conventionally indented continuation
lines is a C01 disagreement (span / length of a canonical function); on any other structure it is model drift.
"""
from __future__ import annotations

import ast

from . import tlc
from .common import MachineryError, log, pmap
from .tlaval import read_dump

BOUNDS = {"quick": dict(N=5, I=2), "thorough": dict(N=6, I=3)}
INVS = ["CodedIsRef", "SuiteBelowHeader", "SuiteIsInterval", "SuitesNest"]


def tokens_of(ls):
    from pygments.token import Keyword, Name, Punctuation

    from codelimit.common.Location import Location
    from codelimit.common.Token import Token

    out = []
    for n, (ind, kind) in enumerate(ls, 1):
        col = 1 + 4 * ind

        def tk(tt, v):
            nonlocal col
            out.append(Token(Location(n, col), tt, v))
            col += len(v) + 1

        if kind == "def":
            for tt, v in ((Keyword, "def"), (Name.Function, f"f{n}"), (Punctuation, "("), (Punctuation, ")"), (Punctuation, ":")):
                tk(tt, v)
        elif kind == "defopen":
            for tt, v in ((Keyword, "def"), (Name.Function, f"f{n}"), (Punctuation, "("), (Name, "a"), (Punctuation, ",")):
                tk(tt, v)
        elif kind == "cont":
            last = n == len(ls) or ls[n][1] != "cont"
            for tt, v in (((Name, "c"), (Punctuation, ")"), (Punctuation, ":")) if last else ((Name, "b"), (Punctuation, ","))):
                tk(tt, v)
        else:
            tk(Name, f"x{n}")
    return out


def text_of(ls):
    lines = []
    for n, (ind, kind) in enumerate(ls, 1):
        pad = "    " * ind
        if kind == "def":
            lines.append(f"{pad}def f{n}():")
        elif kind == "defopen":
            lines.append(f"{pad}def f{n}(a,")
        elif kind == "cont":
            last = n == len(ls) or ls[n][1] != "cont"
            lines.append(pad + ("c):" if last else "b,"))
        else:
            lines.append(f"{pad}x{n}")
    return "\n".join(lines) + "\n"


def observe(ls):
    from codelimit.languages.Python import Python

    toks = tokens_of(ls)
    lang = Python()
    headers = lang.extract_headers(toks)
    blocks = lang.extract_blocks(toks, headers)
    got = sorted((toks[b.start].location.line, toks[b.end - 1].location.line) for b in blocks)
    hl = sorted(toks[h.token_range.start].location.line for h in headers)
    res = {"blocks": [list(x) for x in got], "headers": hl, "valid": None, "ast": None, "scan": None}
    text = text_of(ls)
    try:
        tree = ast.parse(text)
    except SyntaxError:
        return res
    res["valid"] = True
    res["ast"] = sorted([n.name, n.lineno, n.end_lineno] for n in ast.walk(tree) if isinstance(n, ast.FunctionDef))
    from .langs import analyse

    res["scan"] = sorted([m[0], m[1], m[3]] for m in analyse("Python", text))
    return res


def conventional(ls):
    hdr = None
    for ind, kind in ls:
        if kind in ("def", "defopen"):
            hdr = ind
        elif kind == "cont":
            if ind <= hdr:
                return False
        else:
            pass
    return True


def run(wd, rep, tier, t):
    b = BOUNDS[tier]
    m = tlc.run("PySuite", tlc.cfg({"MaxLines": b["N"], "MaxInd": b["I"]}, spec="Spec", invariants=INVS), wd, dump=True, cfgname="PySuite_run.cfg")
    if m.violated:
        raise MachineryError(f"PySuite.tla invariant violated: {m.violated} (the model of the repaired code must satisfy them)")
    cases, exp = [], []
    for st in read_dump(m.dump):
        e = st["exp"]
        if not e:
            continue  # not well-formed (a header still open) or no header
        cases.append([list(x) for x in st["ls"]])
        exp.append([list(x) for x in e])
    res = pmap(observe, cases, timeout=30, chunk=256)
    n_valid = n_bad = n_drift = 0
    for ls, e, r in zip(cases, exp, res):
        if r[0] != "ok":
            rep.fail({"clause": "PySuite:NormalReturn", "lines": str(ls)}, {"kind": "pysuite", "ls": ls, "observed": list(r)})
            n_bad += 1
            continue
        o = r[1]
        want_blocks = sorted([x[1], x[2]] for x in e if x[1] != 0)
        want_headers = sorted(x[0] for x in e)
        valid = bool(o["valid"])
        n_valid += valid
        if valid and conventional(ls):
            # second opinion on the reference: CPython's parser must see the same suites
            ast_blocks = sorted([ln + (1 if ls[ln - 1][1] == "def" else 0), end] for _nm, ln, end in o["ast"])
            ast_blocks = []
            for _nm, ln, end in o["ast"]:
                he = ln
                while he < len(ls) and ls[he][1] == "cont":
                    he += 1
                ast_blocks.append([he + 1, end])
            if sorted(ast_blocks) != want_blocks:
                raise MachineryError(f"PySuite.tla's reference disagrees with CPython on a valid conventional program {ls}: {want_blocks} vs {sorted(ast_blocks)}")
        if o["blocks"] == want_blocks and o["headers"] == want_headers:
            if valid and conventional(ls):
                want_scan = sorted([f"f{x[0]}", x[0], x[2]] for x in e if x[1] != 0)
                if o["scan"] != want_scan:
                    n_bad += 1
                    rep.fail({"clause": "PySuite:ScanOfValidProgram", "lines": str(ls)}, {"kind": "pysuite", "ls": ls, "text": text_of(ls), "expected": want_scan, "observed": o["scan"]})
            continue
        if valid and conventional(ls):
            n_bad += 1
            rep.fail({"clause": "PySuite:SuiteOfValidProgram", "lines": str(ls)}, {"kind": "pysuite", "ls": ls, "text": text_of(ls), "expected": {"blocks": want_blocks, "headers": want_headers}, "observed": o})
        else:
            n_drift += 1
            rep.model_drift(f"extract_blocks on line structure {ls} gives {o['blocks']} (headers {o['headers']}), PySuite.tla {want_blocks} ({want_headers})")
    log(f"[C01] P Python suites: {m.distinct} states, {len(cases)} well-formed line structures replayed into extract_headers / extract_blocks ({n_valid} valid Python, also scanned as text and compared with CPython's parser), "
        f"{n_bad} disagreements, {n_drift} drift, {t.s()}s")
    return {"states": m.distinct, "transitions": m.transitions, "replayed": len(cases),
            "detail": {"module": "PySuite.tla", "invariants": INVS, "max_lines": b["N"], "indentation_levels": b["I"] + 1, "line_structures": len(cases), "valid_python": n_valid, "disagreements": n_bad, "drift": n_drift,
                       "recorded_deviation": "SuitesNestAnyLayout fails in the model: a continuation line left of its own header ends the enclosing suite"}}


def replay_case(case):
    r = observe(case["ls"])
    print(text_of(case["ls"]))
    print("observed:", r)
    print("expected:", case.get("expected"))
    exp = case.get("expected")
    if isinstance(exp, dict):
        return not (r["blocks"] == exp["blocks"] and r["headers"] == exp["headers"])
    return r["scan"] != exp
