"""Replay of Workspace.tla behaviours on a real directory and the abstraction function back
(shared by C09 and C10)."""
from __future__ import annotations

import contextlib
import hashlib
import io
import json
import os
import shutil
import time
from pathlib import Path

from .common import scratch_dir

# p1 and p3 share their file name on purpose: an entry is keyed by its whole relative path (C09: "path ... unchanged"); p2 has a blank in its name
# p4 is a file of another language: what an entry holds is the analysis of its content AS the language of its path
PATHS = {"p1": "a.py", "p2": "pkg/b c.py", "p3": "pkg/sub/a.py", "p4": "pkg/b.js"}
LANG = {"p4": "JavaScript"}


def lang_of(p):
    return LANG.get(p, "Python")


def _body(n, start=0):
    return "".join(f"    v{start + i} = {i}\n" for i in range(n))


CONTENTS = {
    "c1": "def alpha(a):\n" + _body(2) + "\n",
    "c2": "def beta():\n" + _body(1) + "\n\ndef gamma(x, y):\n" + _body(3, 10) + "\n",
    "c3": "import os\n\n\ndef delta(q):\n" + _body(34, 100) + "\nX = 1\n",
}
# a near twin of c1: the same text behind a byte order mark - other bytes (another checksum), another analysis (the first
# column moves), and nothing else; "content unchanged" is a statement about the bytes of the file
CONTENTS["c4"] = "\ufeff" + CONTENTS["c1"]
# a text with a function in JavaScript and none in Python
CONTENTS["c5"] = "function epsilon(a) {\n  let v = a;\n  return v;\n}\n"
TAINT_NAME = "TAINTED"


def md5(text: str) -> str:
    return hashlib.md5(text.encode()).hexdigest()


SUMS = {c: md5(t) for c, t in CONTENTS.items()}
_FRESH = None


def fresh_results():
    """Result of analysing each content from scratch (the oracle `fresh scan`), keyed by (content id, language)."""
    global _FRESH
    if _FRESH is None:
        from .langs import analyse

        _FRESH = {(c, lang): [list(m) for m in analyse(lang, t)] for c, t in CONTENTS.items() for lang in sorted({"Python"} | set(LANG.values()))}
        assert len({json.dumps(v) for (c, lang), v in _FRESH.items() if lang == "Python"}) == len(CONTENTS)
    return _FRESH


def tool_version():
    from codelimit.common.report.Report import Report

    return Report.VERSION


class World:
    """A scratch workspace driven step by step."""

    def __init__(self):
        self.top = scratch_dir("ws")
        self.root = self.top / "root"
        self.root.mkdir()
        self.outcome = ""

    def close(self):
        os.chdir("/")
        shutil.rmtree(self.top, ignore_errors=True)

    # ---- paths ----
    def f(self, p):
        return self.root / PATHS[p]

    @property
    def cache_file(self):
        return self.root / ".codelimit_cache" / "codelimit.json"

    # ---- abstraction function ----
    def excluded(self):
        y = self.root / ".codelimit.yml"
        if not y.exists():
            return []
        pats = [ln.strip()[2:].strip().strip('"') for ln in y.read_text().splitlines() if ln.strip().startswith("- ")]
        return sorted(p for p, rel in PATHS.items() if "/" + rel in pats)

    def abstract_cache(self):
        cf = self.cache_file
        none_ent = {p: {"sum": "absent", "res": "absent"} for p in PATHS}
        if not cf.exists():
            return {"kind": "none", "ver": "", "honest": True, "ent": none_ent}
        try:
            d = json.loads(cf.read_text())
            files = d["codebase"]["files"]
            ent = {}
            rel2p = {v: k for k, v in PATHS.items()}
            for p in PATHS:
                ent[p] = {"sum": "absent", "res": "absent"}
            fresh = fresh_results()
            for rel, v in files.items():
                # a value of the wrong JSON type anywhere (true for a number, a number for a string, ...) makes the
                # document "JSON of the wrong shape" (C10): it is not a readable report
                if type(v["checksum"]) is not str or type(v["language"]) is not str or type(v["loc"]) is not int or type(v["measurements"]) is not list:
                    raise TypeError("ill-typed entry")  # measurements: {} or "" is not an empty LIST of measurements
                for m in v["measurements"]:
                    if type(m["unit_name"]) is not str or type(m["value"]) is not int or any(type(m[a][b]) is not int for a in ("start", "end") for b in ("line", "column")):
                        raise TypeError("ill-typed measurement")
                p = rel2p.get(rel)
                if p is None:
                    continue
                s = next((c for c, x in SUMS.items() if x == v["checksum"]), "unknown")
                ms = [[m["unit_name"], m["start"]["line"], m["start"]["column"], m["end"]["line"], m["end"]["column"], m["value"]] for m in v["measurements"]]
                if any(m[0] == TAINT_NAME for m in ms):
                    r = "tainted"
                else:
                    # whose analysis is this? the content the checksum names if it fits (several contents may have the same
                    # analysis in a language in which they hold no function), else any other content that fits
                    lang = lang_of(p)
                    fits = [c for c in CONTENTS if fresh[(c, lang)] == ms]
                    r = s if s in fits else (fits[0] if fits else "other")
                    # the payload of an entry is everything but its key and checksum: language and line total too
                    if r != "other" and (v.get("language") != lang or v.get("loc") != sum(m[5] for m in ms)):
                        r = "other"
                ent[p] = {"sum": s, "res": r}
            ver = "tool" if d.get("version") == tool_version() else "foreign"
            honest = all(e["res"] == e["sum"] for e in ent.values())
            return {"kind": "ok", "ver": ver, "honest": honest, "ent": ent}
        except Exception:  # noqa: BLE001 - any unreadable / wrongly shaped file is "damaged"
            return {"kind": "damaged", "ver": "", "honest": True, "ent": none_ent}

    def abstract(self, after_scan=False):
        fs = {}
        for p in PATHS:
            f = self.f(p)
            if f.exists():
                b = f.read_text()
                fs[p] = next((c for c, t in CONTENTS.items() if t == b), "other")
            else:
                fs[p] = "absent"
        cache = self.abstract_cache()
        st = {"fs": fs, "excl": self.excluded(), "cache": cache, "outcome": self.outcome,
              "report": {p: "absent" for p in PATHS}, "reused": []}
        st["complete"] = True
        if after_scan and cache["kind"] == "ok":
            st["report"] = {p: cache["ent"][p]["res"] for p in PATHS}
            st["reused"] = sorted(p for p in PATHS if cache["ent"][p]["res"] == "tainted")
            st["complete"] = self.cache_is_complete_report()
        return st

    def cache_is_complete_report(self):
        """Is the cache file on disk the complete document a from-scratch scan of the tree would write (up to
        identifier and timestamp)?  Every section counts: totals, tree, profiles, timestamp, not only `files`."""
        from codelimit.common.Configuration import Configuration
        from codelimit.common.report.Report import Report
        from codelimit.common.report.ReportWriter import ReportWriter
        from codelimit.common.Scanner import scan_path

        try:
            got = json.loads(self.cache_file.read_text())
        except Exception:  # noqa: BLE001
            return False
        os.chdir(self.root)
        Configuration.exclude = []
        Configuration.load(self.root)
        cb = scan_path(self.root)
        cb.aggregate()
        want = json.loads(ReportWriter(Report(cb, Configuration.repository)).to_json())
        for d in (got, want):
            if not isinstance(d, dict) or not isinstance(d.get("timestamp"), str) or not isinstance(d.get("uuid"), str):
                return False
            d.pop("timestamp")
            d.pop("uuid")
        # measurements may legitimately carry a probe's taint; compare structure and everything else
        return got == want or self._same_but_measurements(got, want)

    @staticmethod
    def _same_but_measurements(a, b):
        try:
            fa, fb = a["codebase"]["files"], b["codebase"]["files"]
            if list(fa) != list(fb):
                return False
            for k in fa:
                if {x: y for x, y in fa[k].items() if x not in ("measurements", "profile", "loc")} != {x: y for x, y in fb[k].items() if x not in ("measurements", "profile", "loc")}:
                    return False
                if not isinstance(fa[k].get("measurements"), list) or not isinstance(fa[k].get("profile"), list):
                    return False
            ka = {k: v for k, v in a.items() if k != "codebase"}
            kb = {k: v for k, v in b.items() if k != "codebase"}
            return ka == kb and set(a["codebase"]) == set(b["codebase"]) and set(a["codebase"]["tree"]) == set(b["codebase"]["tree"]) and set(a["codebase"]["totals"]) == set(b["codebase"]["totals"])
        except Exception:  # noqa: BLE001
            return False

    @staticmethod
    def age(f):
        """Content changes do not have to show in the modification time (cp -p, a checkout that preserves times, an
        archive unpacked over the tree): every file the history writes looks older than any report; only Touch makes
        one look new."""
        t = time.time() - 1000
        os.utime(f, (t, t))

    # ---- steps ----
    def step(self, op):
        """Execute one operation of a Workspace.tla behaviour. Returns exception class name or ''."""
        k = op[0]
        self.outcome = ""
        try:
            if k == "Write":
                f = self.f(op[1])
                f.parent.mkdir(parents=True, exist_ok=True)
                f.write_text(CONTENTS[op[2]])
                self.age(f)
            elif k == "Delete":
                self.f(op[1]).unlink()
            elif k == "Rename":
                dst = self.f(op[2])
                dst.parent.mkdir(parents=True, exist_ok=True)
                os.replace(self.f(op[1]), dst)
            elif k == "Touch":
                t = time.time() + 100
                os.utime(self.f(op[1]), (t, t))
            elif k == "Swap":
                a, b = self.f(op[1]), self.f(op[2])
                ta, tb = a.read_text(), b.read_text()
                a.write_text(tb)
                b.write_text(ta)
                self.age(a)
                self.age(b)
            elif k == "SetExcl":
                y = self.root / ".codelimit.yml"
                ex = list(op[1])
                if ex:
                    y.write_text("exclude:\n" + "".join(f'  - "/{PATHS[p]}"\n' for p in ex))
                elif y.exists():
                    y.unlink()
            elif k == "ForeignVersion":
                d = json.loads(self.cache_file.read_text())
                flavour = op[1] if len(op) > 1 else 0     # another version: a different number, no version field
                if flavour == 0:                           # at all (a release that did not write one), or null
                    d["version"] = "0.0.1"
                elif flavour == 1:
                    d.pop("version", None)
                elif flavour == 2:
                    d["version"] = None
                elif flavour == 3:      # a different release whose number merely EXTENDS this one (0.18.1 -> 0.18.10)
                    d["version"] = tool_version() + "0"
                else:
                    d["version"] = tool_version() + ".dev1"
                self.cache_file.write_text(json.dumps(d, indent=2))
            elif k == "AlterChecksum":
                d = json.loads(self.cache_file.read_text())
                d["codebase"]["files"][PATHS[op[1]]]["checksum"] = SUMS[op[2]]
                self.cache_file.write_text(json.dumps(d, indent=2))
            elif k == "AlterKey":
                d = json.loads(self.cache_file.read_text())
                files = d["codebase"]["files"]
                files[PATHS[op[2]]] = files.pop(PATHS[op[1]])
                self.cache_file.write_text(json.dumps(d, indent=2))
            elif k == "Taint":
                d = json.loads(self.cache_file.read_text())
                for v in d["codebase"]["files"].values():
                    if not v["measurements"]:
                        v["measurements"] = [{"unit_name": TAINT_NAME, "start": {"line": 1, "column": 1}, "end": {"line": 1, "column": 2}, "value": 1}]
                    for m in v["measurements"]:
                        m["unit_name"] = TAINT_NAME
                self.cache_file.write_text(json.dumps(d, indent=2))
            elif k == "Damage":
                self.damage(op[1], op[2] if len(op) > 2 else None)
            elif k == "Scan":
                self.scan()
            elif k in ("Report", "Findings"):
                self.show(k)
            else:
                raise ValueError(k)
            return ""
        except Exception as e:  # noqa: BLE001
            if k in ("ForeignVersion", "AlterChecksum", "AlterKey", "Taint", "Delete", "Rename", "Touch", "Swap", "Damage"):
                return "precondition"   # an environment move that is not enabled here (e.g. no such cache entry)
            self.outcome = "exception"
            return type(e).__name__

    def scan(self):
        from codelimit.commands.scan import scan_command
        from codelimit.common.Configuration import Configuration

        os.chdir(self.root)
        Configuration.exclude = []
        Configuration.verbose = False
        Configuration.repository = None
        # the root is given the way a user gives it: "." (the default of `codelimit scan`) and the absolute path alternate
        self.nscan = getattr(self, "nscan", 0) + 1
        arg = Path(".") if self.nscan % 2 else self.root
        Configuration.load(arg)
        with contextlib.redirect_stdout(io.StringIO()):
            scan_command(arg)
        self.outcome = "ok"

    def show(self, which):
        import typer

        from codelimit.commands.findings import findings_command
        from codelimit.commands.report import report_command
        from codelimit.common.report.ReportFormat import ReportFormat

        os.chdir(self.root)
        try:
            with contextlib.redirect_stdout(io.StringIO()):
                if which == "Report":
                    report_command(self.root, ReportFormat.text)
                else:
                    findings_command(self.root, False, ReportFormat.text)
            self.outcome = "ok"
        except typer.Exit as e:
            self.outcome = "refused" if e.exit_code == 1 else f"exit{e.exit_code}"

    # ---- faults (C10) ----
    def damage(self, how, detail=None):
        cf = self.cache_file
        cdir = cf.parent
        if how == "truncated":
            data = cf.read_bytes()
            k = detail if detail is not None else len(data) // 2
            cf.write_bytes(data[:k])
        elif how == "empty":
            cdir.mkdir(exist_ok=True)
            cf.write_bytes(b"")
        elif how == "whitespace":
            cdir.mkdir(exist_ok=True)
            cf.write_text(" \n\t\n")
        elif how == "not_json":
            cdir.mkdir(exist_ok=True)
            # detail selects the flavour: text that is not JSON, bytes that are not even text, a document cut in
            # the middle of a multi-byte character
            cf.write_bytes(NOT_JSON[(detail or 0) % len(NOT_JSON)])
        elif how == "shape":
            cdir.mkdir(exist_ok=True)
            cf.write_text(detail if detail is not None else "[]")
        elif how == "illtyped":  # an entry keeps path and checksum, one field carries a value of the wrong JSON type
            d = json.loads(cf.read_text())
            files = d["codebase"]["files"]
            key = sorted(files)[0]
            ent = files[key]
            flavour = (detail or 0) % 7
            if flavour == 5:      # not a list, but something a loop accepts without a murmur
                ent["measurements"] = {}
            elif flavour == 6:
                ent["measurements"] = ""
            elif flavour == 0 or not ent["measurements"]:
                ent["loc"] = True
            elif flavour == 1:
                ent["measurements"][0]["value"] = True
            elif flavour == 2:
                ent["measurements"][0]["start"]["line"] = "1"
            elif flavour == 3:
                ent["measurements"][0]["end"]["column"] = False
            else:
                ent["language"] = 7
            cf.write_text(json.dumps(d, indent=2))
        elif how == "dir_without_file":
            cdir.mkdir(exist_ok=True)
            if cf.exists():
                cf.unlink()
        elif how == "file_is_dir":
            cdir.mkdir(exist_ok=True)
            if cf.exists():
                cf.unlink()
            cf.mkdir()
        elif how == "no_markers":
            cdir.mkdir(exist_ok=True)
            for n in ("CACHEDIR.TAG", ".gitignore"):
                if (cdir / n).exists():
                    (cdir / n).unlink()
            if cf.exists():
                cf.write_bytes(cf.read_bytes()[: max(0, cf.stat().st_size - 7)])
        else:
            raise ValueError(how)


NOT_JSON = [b"this is not { json", b"\xff\xfe\x00\x01 not even text \x80\x81", b'{"version": "x", "root": "caf\xc3', b"\x00" * 64, b"\xef\xbb\xbf{}trailing"]


def replay_history(hist, expand_damage=None):
    """Replay a behaviour; returns the list of step events (op, pre, post, exc)."""
    w = World()
    try:
        events = []
        for op in hist:
            op = list(op)
            if op[0] == "SetExcl":
                op[1] = sorted(op[1])
            if op[0] == "Damage" and expand_damage is not None and len(op) == 2:
                op = op + [expand_damage]
            pre = w.abstract()
            if op[0] in ("ForeignVersion", "AlterChecksum", "AlterKey", "Taint") and pre["cache"]["kind"] != "ok":
                events.append({"op": op, "pre": pre, "post": pre, "exc": "precondition"})
                break
            exc = w.step(op)
            if exc == "precondition":
                events.append({"op": op, "pre": pre, "post": pre, "exc": "precondition"})
                break
            post = w.abstract(after_scan=(op[0] == "Scan"))
            if op[0] == "Damage" and w.cache_file.is_dir():
                post["cache"]["kind"] = "damaged"
            events.append({"op": [str(x) if not isinstance(x, list) else x for x in op], "pre": pre, "post": post, "exc": exc})
        return events
    finally:
        w.close()
