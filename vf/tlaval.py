"""TLC-printed values (dump files, PrintT payloads, counterexample states) -> Python values.

Translation, then eval by the Python compiler (fast):  <<..>> tuple, {..} list (sets, order as
printed), [a |-> v] dict, (k :> v @@ ..) dict, TRUE/FALSE bool. Strings must not contain brackets.
"""
from __future__ import annotations

import re

_FIELD = re.compile(r"([A-Za-z_][A-Za-z0-9_]*) \|->")
_SAFE = re.compile(r'^[\s\w"(),:\[\]{}.\-+\\/=<>|#*!?;\'@$%^&~`]*$')


def translate(s: str) -> str:
    s = _FIELD.sub(r'"\1":', s)
    s = s.replace("{", "\x01").replace("}", "\x02")
    s = s.replace("[", "{").replace("]", "}")
    s = s.replace("(", "{").replace(")", "}").replace(":>", ":").replace("@@", ",")
    s = s.replace("<<>>", "()").replace("<<", "(").replace(">>", ",)")
    s = s.replace("\x01", "[").replace("\x02", "]")
    s = s.replace("TRUE", "True").replace("FALSE", "False")
    return s


def parse(s: str):
    return eval(translate(s), {"__builtins__": {}}, {})  # noqa: S307 - input is TLC's own output


_STATE_SPLIT = re.compile(r"^State \d+:.*$", re.M)
_VAR_SPLIT = re.compile(r"^/\\ ", re.M)


def parse_state(txt: str) -> dict:
    st = {}
    for part in _VAR_SPLIT.split(txt):
        part = part.strip()
        if not part:
            continue
        name, val = part.split(" = ", 1)
        st[name.strip()] = parse(val)
    return st


def read_dump(path, only=None):
    """Yield one dict (variable -> value) per state of a TLC -dump file.

    only: optional predicate on the raw text of a state, evaluated before parsing (cheap filter)."""
    with open(path) as f:
        data = f.read()
    for chunk in _STATE_SPLIT.split(data):
        if not chunk.strip():
            continue
        if only is not None and not only(chunk):
            continue
        yield parse_state(chunk)


def dump_chunks(path):
    """Raw text of every state of a TLC -dump file (parse later, e.g. inside pool workers)."""
    with open(path) as f:
        data = f.read()
    return [c for c in _STATE_SPLIT.split(data) if c.strip()]


def parse_trace_state(txt: str) -> dict:
    """A counterexample state as printed in TLC's output (first line 'State n: <action>')."""
    body = "\n".join(txt.splitlines()[1:])
    return parse_state(body)


def to_tla(v) -> str:
    """Python value -> TLA+ expression text (inverse of parse for the shapes we use)."""
    if isinstance(v, bool):
        return "TRUE" if v else "FALSE"
    if isinstance(v, int):
        return str(v)
    if isinstance(v, str):
        return '"' + v.replace("\\", "\\\\").replace('"', '\\"') + '"'
    if isinstance(v, (tuple,)):
        return "<<" + ", ".join(to_tla(x) for x in v) + ">>"
    if isinstance(v, (list, set, frozenset)):
        return "{" + ", ".join(to_tla(x) for x in v) + "}"
    if isinstance(v, dict):
        if all(isinstance(k, str) and k.isidentifier() for k in v):
            return "[" + ", ".join(f"{k} |-> {to_tla(x)}" for k, x in v.items()) + "]"
        return "(" + " @@ ".join(f"{to_tla(k)} :> {to_tla(x)}" for k, x in v.items()) + ")"
    raise TypeError(type(v))
