"""Header automata and predicate acceptance tables extracted from the running code (no hand
transcription): the CONSTANT data of TokenAutomaton.tla (generated module AutomatonData).

For every language, every expression that extract_headers hands to find_all / starts_with is
captured, turned into a DFA with the code's own nfa_to_dfa(expression_to_nfa(e)), and every
predicate object on its transitions is probed with deepcopy(p).accept(token) for every token
class (kind x distinguished value) and every nesting depth -1..MAXD.
"""
from __future__ import annotations

import copy
import sys

from pygments.lexers import get_lexer_for_filename
from pygments.token import Keyword, Literal, Name, Operator, Punctuation

from .common import MachineryError

MAXD = 8
# every concrete Pygments token type a lexer of the seven languages gives to code tokens is a kind of its own: a
# predicate (or Token.is_name / is_keyword underneath it) may single out any of them; kinds that nothing
# distinguishes are merged again by the quotient. The part before the dot is the base kind.
KINDS = {"Name": Name, "Name.Function": Name.Function, "Name.Other": Name.Other, "Name.Class": Name.Class, "Name.Builtin": Name.Builtin,
         "Keyword": Keyword, "Keyword.Declaration": Keyword.Declaration, "Keyword.Reserved": Keyword.Reserved, "Keyword.Type": Keyword.Type, "Keyword.Constant": Keyword.Constant,
         "Punct": Punctuation, "Op": Operator, "Op.Word": Operator.Word, "Other": Literal.String, "Other.Number": Literal.Number.Integer}
SUBKINDS = {k: [t] for k, t in KINDS.items()}


def base_kind(k: str) -> str:
    return k.split(".")[0]
OTHER_VALUE = "zz9"

SEEDS = {
    "f.c": "int f(int a) { return g(a); }\nint h(void)\n{\n}\n",
    "f.cpp": "int f(int a) { return g(a); }\nint K::h() { }\n",
    "f.cs": "class K { public int F(int a) { return 1; } }\n",
    "f.java": "class K { void f(int a) throws E, F { g(); } int h() { return 1; } }\n",
    "f.js": "function f(a) { }\nconst g = (a) => { };\nconst h = async (a) => { };\nk = (a) => { };\n",
    "f.ts": "function f(a: number): number { return 1; }\nfunction f2(a) { }\nconst g = (a: number) => { };\nconst h = async (a) => { };\n",
    "f.py": "def f(a):\n    pass\n\nasync def g(a, b=(1, 2)):\n    pass\n",
}


def describe(x) -> str:
    """Structural description of an expression / operator / predicate (dedupe key, evidence)."""
    if isinstance(x, list):
        return "[" + ", ".join(describe(i) for i in x) + "]"
    if isinstance(x, str):
        return repr(x)
    parts = []
    for k, v in sorted(vars(x).items()):
        if k in ("satisfied", "depth"):
            continue
        if isinstance(v, (list, str)) or hasattr(v, "__dict__"):
            parts.append(describe(v))
    return type(x).__name__ + "(" + ", ".join(parts) + ")"


def _patch_all(orig, repl):
    """Replace every module-level reference to function `orig` (however it was imported)."""
    hits = []
    for mod in list(sys.modules.values()):
        d = getattr(mod, "__dict__", None)
        if not d or not getattr(mod, "__name__", "").startswith("codelimit"):
            continue
        for k, v in list(d.items()):
            if v is orig:
                d[k] = repl
                hits.append((d, k))
    return hits


def capture_language(language, filename: str, text: str):
    import codelimit.common.gsm.matcher as matcher
    from codelimit.common.lexer_utils import lex
    from codelimit.common.source_utils import filter_tokens

    captured = []
    ofa, osw = matcher.find_all, matcher.starts_with

    def fa(expr, toks):
        captured.append(("find_all", expr))
        return ofa(expr, toks)

    def sw(expr, toks):
        captured.append(("starts_with", expr))
        return osw(expr, toks)

    hits = _patch_all(ofa, fa) + _patch_all(osw, sw)
    try:
        tokens = filter_tokens(lex(get_lexer_for_filename(filename), text, False))
        # the expressions of a language are what it uses on its N-th file, not only on its first: a few calls before the
        # one that is recorded (their expressions are recorded too - a pattern that grows from call to call shows up)
        for _warm in range(3):
            try:
                language.extract_headers(tokens)
            except Exception:  # noqa: BLE001
                pass
        try:
            language.extract_headers(tokens)
        except Exception:  # noqa: BLE001 - extraction only needs the calls made before the failure
            pass
    finally:
        for d, k in hits:
            d[k] = ofa if d[k] is fa else osw
    out, seen = [], set()
    for kind, expr in captured:
        key = (kind, describe(expr))
        if key not in seen:
            seen.add(key)
            out.append((kind, expr))
    return out


def capture_header_pairs(language, filename: str, text: str):
    """[(expression, followed_by or None)] handed to scope_utils.get_headers by language.extract_headers."""
    import codelimit.common.scope.scope_utils as SU
    from codelimit.common.lexer_utils import lex
    from codelimit.common.source_utils import filter_tokens

    captured = []
    orig = SU.get_headers

    def gh(tokens, expression, followed_by=None):
        captured.append((expression, followed_by))
        return orig(tokens, expression, followed_by)

    hits = _patch_all(orig, gh)
    try:
        tokens = filter_tokens(lex(get_lexer_for_filename(filename), text, False))
        # the expressions of a language are what it uses on its N-th file, not only on its first: a few calls before the
        # one that is recorded (their expressions are recorded too - a pattern that grows from call to call shows up)
        for _warm in range(3):
            try:
                language.extract_headers(tokens)
            except Exception:  # noqa: BLE001
                pass
        try:
            language.extract_headers(tokens)
        except Exception:  # noqa: BLE001
            pass
    finally:
        for d, k in hits:
            d[k] = orig
    return captured


def normalise_expr(e):
    return e if isinstance(e, list) else [e]


def extract_pairs():
    """[(header Automaton, follow-up Automaton or None)] over a JOINT class alphabet per pair, all languages;
    identical pairs of different languages are kept once."""
    from codelimit.languages import Languages

    by_ext = {"C": "f.c", "C++": "f.cpp", "C#": "f.cs", "Java": "f.java", "JavaScript": "f.js", "TypeScript": "f.ts", "Python": "f.py"}
    pairs, index = [], {}
    for lname in sorted(Languages.by_name):
        fn = by_ext.get(lname)
        texts = [(fn, SEEDS[fn])] if fn else list(SEEDS.items())
        for f, t in texts:
            for expr, fb in capture_header_pairs(Languages.by_name[lname], f, t):
                key = (describe(expr), describe(fb) if fb is not None else "")
                if key in index:
                    a = pairs[index[key]][0]
                    if lname not in a.language.split(","):
                        a.language += "," + lname
                    continue
                vals = set()
                for p in normalise_expr(expr) + (normalise_expr(fb) if fb is not None else []):
                    values_in(p, vals)
                # every predicate object reachable from the expressions contributes its distinguished values
                ha = Automaton(lname, "find_all", expr, extra_values=vals)
                fa = Automaton(lname, "starts_with", fb, extra_values=ha.values) if fb is not None else None
                if fa is not None:
                    if fa.values != ha.values:
                        ha = Automaton(lname, "find_all", expr, extra_values=fa.values)
                    sigs = {}
                    for ci in range(len(ha.full_classes)):
                        sigs.setdefault((ha.signature(ci), fa.signature(ci)), []).append(ci)
                    members = sorted(sigs.values())
                    ha.requotient(members)
                    fa.requotient(members)
                index[key] = len(pairs)
                pairs.append((ha, fa))
    return pairs


def stateful_part(pred):
    """The (single) nested object carrying a nesting counter, or None."""
    found = []

    def rec(p, seen):
        if id(p) in seen or not hasattr(p, "__dict__"):
            return
        seen.add(id(p))
        if hasattr(p, "depth"):
            found.append(p)
        for v in vars(p).values():
            rec(v, seen)

    rec(pred, set())
    if len(found) > 1:
        raise MachineryError(f"predicate {describe(pred)} has {len(found)} nesting counters; the table abstraction supports one")
    return found[0] if found else None


def values_in(pred, acc, seen=None):
    seen = seen if seen is not None else set()
    if id(pred) in seen:
        return
    seen.add(id(pred))
    if isinstance(pred, str):
        acc.add(pred)
        return
    for v in getattr(pred, "__dict__", {}).values():
        if isinstance(v, str):
            acc.add(v)
        elif hasattr(v, "__dict__"):
            values_in(v, acc, seen)
    # values a predicate compares with may also be written into its code instead of being stored on the object
    # (`token.value in (">", ">>")`): the short string constants of the class's methods and of the module-level
    # helpers they call are distinguished values too
    for cls in type(pred).__mro__:
        if cls.__module__.startswith("codelimit"):
            for fn in vars(cls).values():
                _code_strings(getattr(fn, "__func__", fn), acc, set())


def _code_strings(fn, acc, seen):
    code = getattr(fn, "__code__", None)
    if code is None or id(code) in seen:
        return
    seen.add(id(code))

    def consts(c):
        for k in c.co_consts:
            if isinstance(k, str):
                if 0 < len(k) <= 4 and not any(ch.isspace() for ch in k):
                    acc.add(k)
            elif isinstance(k, (tuple, frozenset)):
                for x in k:
                    if isinstance(x, str) and 0 < len(x) <= 4 and not any(ch.isspace() for ch in x):
                        acc.add(x)
            elif hasattr(k, "co_consts"):
                consts(k)

    consts(code)
    g = getattr(fn, "__globals__", {})
    for name in code.co_names:
        h = g.get(name)
        if callable(h) and getattr(h, "__module__", "").startswith("codelimit") and hasattr(h, "__code__"):
            _code_strings(h, acc, seen)


def walk(dfa):
    states, stack = [], [dfa.start]
    while stack:
        s = stack.pop()
        if any(s is x for x in states):
            continue
        states.append(s)
        for _, t in reversed(s.transition):
            stack.append(t)
    return states


class Automaton:
    """One extracted automaton with its probed acceptance table."""

    def __init__(self, language: str, kind: str, expr, extra_values=()):
        from codelimit.common.gsm.Expression import expression_to_nfa, nfa_to_dfa

        self.language, self.kind, self.expr = language, kind, expr
        self.desc = describe(expr)
        self.dfa = nfa_to_dfa(expression_to_nfa(expr))
        self.states = walk(self.dfa)
        self.preds = []
        self.trans = []
        for s in self.states:
            for p, t in s.transition:
                self.trans.append((self.sidx(s), self.pidx(p), self.sidx(t)))
        self.accepting = sorted(self.sidx(s) for s in self.states if self.dfa.is_accepting(s))
        self.stateful = [i + 1 for i, p in enumerate(self.preds) if stateful_part(p) is not None]
        vals = set()
        for p in self.preds:
            values_in(p, vals)
        self.values = sorted(vals | set(extra_values))
        self.full_classes = [(k, v) for k in KINDS for v in self.values + ["OTHER"]]
        self._probe()

    def sidx(self, s):
        return next(i for i, x in enumerate(self.states) if x is s) + 1

    def pidx(self, p):
        for i, q in enumerate(self.preds):
            if q is p:
                return i + 1
        self.preds.append(p)
        return len(self.preds)

    @staticmethod
    def token(kind, value, sub=0):
        from codelimit.common.Location import Location
        from codelimit.common.Token import Token

        types = SUBKINDS[kind]
        return Token(Location(1, 1), types[sub % len(types)], OTHER_VALUE if value == "OTHER" else value)

    def _probe(self):
        """Acceptance table. The state of a stateful predicate is (nesting depth, satisfied flag): both are set
        before the probe and read after it; any OTHER attribute that changes is an unknown kind of state."""
        full = {}
        self.open = {}
        for pi, p in enumerate(self.preds):
            for d in range(-1, MAXD + 1):
                for sat in (False, True):
                    q = copy.deepcopy(p)
                    sp = stateful_part(q)
                    if sp is not None:
                        sp.depth = d
                        if hasattr(sp, "satisfied"):
                            sp.satisfied = sat
                    fn = getattr(q, "is_open", None)
                    self.open[(pi + 1, d, sat)] = bool(fn()) if callable(fn) else False
                    for ci, (k, v) in enumerate(self.full_classes):
                        q = copy.deepcopy(p)
                        sp = stateful_part(q)
                        if sp is not None:
                            sp.depth = d
                            if hasattr(sp, "satisfied"):
                                sp.satisfied = sat
                        before = {a: b for a, b in vars(sp).items() if a not in ("depth", "satisfied")} if sp is not None else None
                        acc = bool(q.accept(self.token(k, v)))
                        nd = sp.depth if sp is not None else 0
                        ns = bool(getattr(sp, "satisfied", False)) if sp is not None else False
                        if sp is not None and {a: b for a, b in vars(sp).items() if a not in ("depth", "satisfied")} != before:
                            raise MachineryError(f"predicate {describe(p)} carries state other than a nesting counter and a satisfied flag")
                        full[(pi, d, sat, ci)] = (acc, nd, ns)
        self._full = full
        self.requotient(None)

    def signature(self, ci):
        return tuple(self._full[(pi, d, sat, ci)] for pi in range(len(self.preds)) for d in range(-1, MAXD + 1) for sat in (False, True))

    def requotient(self, class_members):
        """Quotient alphabet: classes that no predicate at no depth distinguishes are merged. A partition may be
        imposed from outside (the common refinement for a pair of automata reading the same token stream)."""
        full = self._full
        if class_members is None:
            sigs = {}
            for ci in range(len(self.full_classes)):
                sigs.setdefault(self.signature(ci), []).append(ci)
            class_members = sorted(sigs.values())
        self.class_members = class_members
        # prefer a realistic representative (kind matching the usual kind of the value)
        self.classes = [self.full_classes[self._pick(m)] for m in self.class_members]
        self.acc = {}
        for pi in range(len(self.preds)):
            for d in range(-1, MAXD + 1):
                for sat in (False, True):
                    for qi, m in enumerate(self.class_members):
                        self.acc[(pi + 1, d, sat, qi + 1)] = full[(pi, d, sat, m[0])]
        # realistic classes: some member pairs a value with the kind a lexer would give it (or any kind for OTHER)
        natural = {"(": "Punct", ")": "Punct", "{": "Punct", "}": "Punct", ";": "Punct", "=>": "Punct", "=": "Op", ":": "Op"}
        self.realistic = []
        for qi, m in enumerate(self.class_members):
            for ci in m:
                k, v = self.full_classes[ci]
                want = natural.get(v, "Keyword")
                if (v == "OTHER" and base_kind(k) in ("Name", "Other")) or (v != "OTHER" and (k == want or (want == "Keyword" and base_kind(k) == "Keyword"))):
                    self.realistic.append(qi + 1)
                    break
        # uniformity beyond depth 2 (justifies saturation at MAXD)
        self.uniform = True
        for pi in range(len(self.preds)):
            for d in range(2, MAXD):
                for sat in (False, True):
                    for qi in range(len(self.classes)):
                        a1, n1, s1 = self.acc[(pi + 1, d, sat, qi + 1)]
                        a2, n2, s2 = self.acc[(pi + 1, d + 1, sat, qi + 1)]
                        if a1 != a2 or s1 != s2 or (pi + 1 in self.stateful and n1 - d != n2 - (d + 1)):
                            self.uniform = False

    def _pick(self, members):
        pref = {"(": "Punct", ")": "Punct", "{": "Punct", ";": "Punct", "=>": "Punct", "=": "Op", ":": "Op", "OTHER": None}
        best = members[0]
        for ci in members:
            k, v = self.full_classes[ci]
            want = pref.get(v, "Keyword")
            if want == k or (want is None and k == "Other"):  # exact base kinds are preferred as representatives
                return ci
        return best

    def tokens_for(self, class_seq, sub=0):
        """Concrete tokens (distinct locations) for a sequence of 1-based class indices."""
        from codelimit.common.Location import Location
        from codelimit.common.Token import Token

        out = []
        for i, c in enumerate(class_seq):
            k, v = self.classes[c - 1]
            types = SUBKINDS[k]
            out.append(Token(Location(1, 1 + 3 * i), types[sub % len(types)], OTHER_VALUE if v == "OTHER" else v))
        return out

    def info(self):
        return {"language": self.language, "kind": self.kind, "expression": self.desc, "dfa_states": len(self.states), "predicates": [describe(p) for p in self.preds],
                "stateful": self.stateful, "classes": [list(c) for c in self.classes], "realistic_classes": [list(self.classes[i - 1]) for i in self.realistic], "full_classes": len(self.full_classes), "uniform_beyond_depth_2": self.uniform}


def extract_all():
    """[(Automaton)] for all languages, in a stable order; identical expressions of different
    languages are kept once (languages joined)."""
    from codelimit.languages import Languages

    by_ext = {"C": "f.c", "C++": "f.cpp", "C#": "f.cs", "Java": "f.java", "JavaScript": "f.js", "TypeScript": "f.ts", "Python": "f.py"}
    autos, index = [], {}
    for lname in sorted(Languages.by_name):
        lang = Languages.by_name[lname]
        fn = by_ext.get(lname)
        if fn is None:
            # a language added after this table was written: seed it with every sample
            texts = [(f, t) for f, t in SEEDS.items()]
        else:
            texts = [(fn, SEEDS[fn])]
        got = []
        for f, t in texts:
            try:
                got += capture_language(lang, f, t)
            except Exception as e:  # noqa: BLE001
                raise MachineryError(f"header extraction failed for {lname}: {e!r}") from e
        if not got:
            raise MachineryError(f"no header expression captured for {lname}")
        for kind, expr in got:
            key = (kind, describe(expr))
            if key in index:
                a = autos[index[key]]
                if lname not in a.language.split(","):
                    a.language += "," + lname
                continue
            index[key] = len(autos)
            autos.append(Automaton(lname, kind, expr))
    return autos


def shape_classes(a):
    """1-based joint class indices of the structural tokens of a header shape: a name, ( ) the body opener, other."""
    def cls(kind, value):
        ci = a.full_classes.index((kind, value)) if (kind, value) in a.full_classes else None
        if ci is None:
            return 0
        return next(i + 1 for i, m in enumerate(a.class_members) if ci in m)

    return {"n": cls("Name", "OTHER"), "o": cls("Punct", "("), "c": cls("Punct", ")"), "b": cls("Punct", "{"), "x": cls("Other", "OTHER")}


def tla_module(autos, name="AutomatonData", pairs=None, shapes=None) -> str:
    def tup(xs):
        return "<<" + ", ".join(xs) + ">>"

    def b(x):
        return "TRUE" if x else "FALSE"

    out = [f"---- MODULE {name} ----", "\\* GENERATED by vf/extract.py from the running code - do not edit", "EXTENDS Integers", f"NAuto == {len(autos)}", f"MaxD == {MAXD}"]
    out.append("APairs == " + tup("<<%d, %d>>" % p for p in (pairs or [])))  # <<header automaton, follow-up automaton or 0>>
    out.append("AShape == " + tup("[n |-> %d, o |-> %d, c |-> %d, b |-> %d, x |-> %d]" % (sh["n"], sh["o"], sh["c"], sh["b"], sh["x"]) for sh in (shapes or [])))
    out.append("AKind == " + tup('"%s"' % a.kind for a in autos))
    out.append("ANStates == " + tup(str(len(a.states)) for a in autos))
    out.append("AStart == " + tup(str(a.sidx(a.dfa.start)) for a in autos))
    out.append("AAccepting == " + tup("{" + ", ".join(map(str, a.accepting)) + "}" for a in autos))
    out.append("ANPreds == " + tup(str(len(a.preds)) for a in autos))
    out.append("AStateful == " + tup("{" + ", ".join(map(str, a.stateful)) + "}" for a in autos))
    out.append("ATrans == " + tup("{" + ", ".join("<<%d, %d, %d>>" % t for t in a.trans) + "}" for a in autos))
    out.append("ANClasses == " + tup(str(len(a.classes)) for a in autos))
    out.append("ARealistic == " + tup("{" + ", ".join(map(str, a.realistic)) + "}" for a in autos))
    rows = []
    for a in autos:
        prow = []
        for pi in range(1, len(a.preds) + 1):
            drow = []
            for d in range(-1, MAXD + 1):
                srow = []
                for sat in (False, True):
                    srow.append(tup("<<%s, %d, %s>>" % (b(a.acc[(pi, d, sat, ci)][0]), a.acc[(pi, d, sat, ci)][1], b(a.acc[(pi, d, sat, ci)][2])) for ci in range(1, len(a.classes) + 1)))
                drow.append(tup(srow))
            prow.append(tup(drow))
        rows.append(tup(prow))
    out.append("AOpen == " + tup(tup(tup(tup(b(a.open[(pi, d, sat)]) for sat in (False, True)) for d in range(-1, MAXD + 1)) for pi in range(1, len(a.preds) + 1)) for a in autos))
    out.append("AAcc == " + tup(rows))
    out.append("====")
    return "\n".join(out) + "\n"
