"""NestedHeaderCases.tla <-> scope_utils.get_headers on the REAL header shapes (phase NH of C14).

G  for every <<header expression, follow-up expression>> pair a language hands to get_headers, TLC enumerates
   every token-class sequence up to K over the pair's joint class alphabet (automata and predicate tables
   extracted from the running code, vf/extract.py:extract_pairs) with the recursively defined headers as ghost;
   each is replayed with concrete tokens into the real get_headers.
A  NestedHeaderTrace.tla judges the results that differ, declaratively, with the extracted automata.
"""
from __future__ import annotations

import json

from . import extract, tlc
from .common import MachineryError, log, pmap, per_process
from .tlaval import parse, read_dump

BOUNDS = {"quick": dict(K=5, nest=5, cut=6), "thorough": dict(K=6, nest=6, cut=10)}


def pairs():
    return per_process("nested-header-pairs", extract.extract_pairs)


def flat(P):
    autos, table = [], []
    for h, f in P:
        autos.append(h)
        hi = len(autos)
        fi = 0
        if f is not None:
            autos.append(f)
            fi = len(autos)
        table.append((hi, fi))
    return autos, table


def observe(arg):
    from codelimit.common.scope.scope_utils import get_headers

    pi, w = arg
    h, f = pairs()[pi]
    toks = h.tokens_for(list(w))
    hs = get_headers(toks, h.expr, f.expr if f is not None else None)
    out = [[x.token_range.start, x.token_range.end] for x in hs]
    names_ok = all(any(x.name_token is t for t in toks[x.token_range.start:x.token_range.end]) and x.name_token.is_name() for x in hs)
    return {"hs": out, "names_ok": names_ok}


def run(wd, rep, tier, t):
    b = BOUNDS[tier]
    P = pairs()
    autos, table = flat(P)
    data = extract.tla_module(autos, pairs=table, shapes=[extract.shape_classes(h) for h, _f in P])
    consts = {"MaxLen": b["K"], "MaxNest": b["nest"], "MaxCut": b["cut"]}
    invs = ["VInBounds", "VDisjoint", "VFollowed"]
    m = tlc.run("NestedHeaderCases", tlc.cfg(consts, spec="NSpecAll", invariants=invs), wd, extra={"AutomatonData.tla": data}, dump=True, cfgname="NestedHeaderCases_run.cfg", timeout=2400, coverage=False)  # -coverage runs out of memory on the recursive operators
    md = tlc.run("NestedHeaderCases", tlc.cfg(consts, spec="DSpec", invariants=invs), wd, extra={"AutomatonData.tla": data}, dump=True, cfgname="NestedHeaderCases_directed.cfg", timeout=2400, coverage=False)
    if m.violated or md.violated:
        raise MachineryError(f"oracle sanity invariant violated in NestedHeaderCases: {m.violated} {md.violated}")
    jobs, exp, skipped, deep, seen = [], [], 0, {}, set()
    for st in list(read_dump(m.dump)) + [x for x in read_dump(md.dump) if x["phase"] == "done"]:
        key = (st["pr"], tuple(st["w"]))
        if key in seen:
            continue
        seen.add(key)
        if st["amb"]:
            skipped += 1
            continue
        jobs.append((st["pr"] - 1, tuple(st["w"])))
        exp.append([list(x) for x in st["v"]])
        deep[st["deep"]] = deep.get(st["deep"], 0) + 1
    if not any(d >= 2 for d in deep):
        raise MachineryError(f"NestedHeaderCases: no sequence with a header two searches deep ({deep}) - bounds too small to exercise the nested search")
    res = pmap(observe, jobs, timeout=20)
    differ = [i for i, (e, r) in enumerate(zip(exp, res)) if not (r[0] == "ok" and r[1]["hs"] == e and r[1]["names_ok"])]
    rejected = {}
    if differ:
        trace = wd / "nested_header_trace.ndjson"
        with open(trace, "w") as f:
            for n, i in enumerate(differ):
                pi, w = jobs[i]
                r = res[i]
                ev = {"id": n, "pr": pi + 1, "w": list(w)}
                if r[0] == "ok":
                    ev.update(exc="", hs=r[1]["hs"], names_ok=r[1]["names_ok"])
                else:
                    ev.update(exc=r[1] if r[0] == "exc" else "timeout", hs=[], names_ok=True)
                f.write(json.dumps(ev) + "\n")
        a = tlc.run("NestedHeaderTrace", tlc.cfg({"MaxLen": 0, "MaxNest": 0, "MaxCut": 0}, spec="TSpec", postcondition="AllConsumed"), wd, workers=1, env={"TRACE_FILE": str(trace)}, coverage=False,
                    extra={"AutomatonData.tla": data}, timeout=2400)
        if a.violated or a.rc != 0:
            raise MachineryError("NestedHeaderTrace did not consume the whole trace:\n" + a.out[-1500:])
        for p in a.prints:
            if p.startswith('<<"REJECT"'):
                v = parse(p)
                rejected[int(v[1])] = v[2]
        for n, i in enumerate(differ):
            pi, w = jobs[i]
            h, f = P[pi]
            r = res[i]
            if n not in rejected:
                rep.model_drift(f"get_headers on {h.desc} / {w} = {r[1]['hs']} differs from the recursive definition {exp[i]} but satisfies every clause")
                continue
            clause = rejected[n] + (":" + r[1] if r[0] == "exc" else "")
            rep.fail({"clause": clause, "site": "nested-header", "languages": h.language, "expression": h.desc, "classes": [list(h.classes[c - 1]) for c in w]},
                     {"kind": "nested-header", "pair_index": pi, "w": list(w), "expected": exp[i], "observed": r[1] if r[0] == "ok" else list(r),
                      "header": h.info(), "followed_by": f.info() if f is not None else None})
    log(f"[C14] NH nested header search on the real header shapes: {len(P)} (header, follow-up) pairs, {m.distinct} + {md.distinct} states, {len(jobs)} sequences replayed into get_headers "
        f"(search depth reached: {dict(sorted(deep.items()))}; {skipped} ambiguous skipped), {len(differ)} differ, {len(rejected)} rejected, {t.s()}s")
    k = next((i for i, e in enumerate(exp) if len(e) >= 1 and len(jobs[i][1]) >= 5), 0)
    return {
        "states": m.distinct + md.distinct, "transitions": m.transitions + md.transitions, "replayed": len(jobs),
        "detail": {"module": "NestedHeaderCases.tla + NestedHeaderTrace.tla + generated AutomatonData.tla (pairs)", "exhaustive_max_len": b["K"], "directed_nesting": b["nest"], "directed_cut": b["cut"], "pairs": [{"languages": h.language, "header": h.desc, "followed_by": f.desc if f else None,
                                                                                                                                               "joint_classes": [list(c) for c in h.classes]} for h, f in P],
                   "sequences": len(jobs), "skipped_ambiguous": skipped, "by_search_depth": {str(k_): v for k_, v in sorted(deep.items())}, "differ_from_model": len(differ), "rejected": len(rejected)},
        "samples": [{"header_pair": P[jobs[k][0]][0].desc, "token_classes": [list(P[jobs[k][0]][0].classes[c - 1]) for c in jobs[k][1]], "headers_model": exp[k],
                     "get_headers": res[k][1]["hs"] if res[k][0] == "ok" else list(res[k])}],
    }


def replay_case(wd, case):
    from .common import guarded

    P = pairs()
    autos, table = flat(P)
    data = extract.tla_module(autos, pairs=table, shapes=[extract.shape_classes(h) for h, _f in P])
    r = guarded(observe, (case["pair_index"], tuple(case["w"])), 20)
    print("header pair:", P[case["pair_index"]][0].desc, "| classes:", [P[case["pair_index"]][0].classes[c - 1] for c in case["w"]])
    print("expected (recursive definition):", case["expected"], "observed:", r)
    trace = wd / "replay_nh.ndjson"
    ev = {"id": 0, "pr": case["pair_index"] + 1, "w": list(case["w"])}
    if r[0] == "ok":
        ev.update(exc="", hs=r[1]["hs"], names_ok=r[1]["names_ok"])
    else:
        ev.update(exc=r[1] if r[0] == "exc" else "timeout", hs=[], names_ok=True)
    trace.write_text(json.dumps(ev) + "\n")
    a = tlc.run("NestedHeaderTrace", tlc.cfg({"MaxLen": 0, "MaxNest": 0, "MaxCut": 0}, spec="TSpec", postcondition="AllConsumed"), wd, workers=1, env={"TRACE_FILE": str(trace)}, coverage=False, extra={"AutomatonData.tla": data})
    if a.violated or a.rc != 0:
        raise MachineryError("NestedHeaderTrace did not consume the trace:\n" + a.out[-1500:])
    return [parse(p)[2] for p in a.prints if p.startswith('<<"REJECT"')]
