"""TLAPS: unbounded lemmas about small arithmetic parts of the specification (a bonus on top of the bounded
model checking; a lemma that is not discharged is recorded, it never turns a check red)."""
from __future__ import annotations

import re
import shutil
import subprocess
from pathlib import Path

from .common import SPEC


def prove(module: str, wd: Path, timeout=300):
    """Run tlapm on spec/proofs/<module>.tla in a scratch copy. Returns dict(obligations, discharged, ok, note)."""
    d = wd / "proofs"
    d.mkdir(parents=True, exist_ok=True)
    for f in list(SPEC.glob("*.tla")) + list((SPEC / "proofs").glob("*.tla")):
        shutil.copy(f, d / f.name)
    if shutil.which("tlapm") is None:
        return {"module": module, "obligations": 0, "discharged": 0, "ok": False, "note": "tlapm not installed"}
    try:
        p = subprocess.run(["tlapm", "--toolbox", "0", "0", "--stretch", "4", module + ".tla"], cwd=d, capture_output=True, text=True, timeout=timeout)
    except subprocess.TimeoutExpired:
        return {"module": module, "obligations": 0, "discharged": 0, "ok": False, "note": "tlapm timed out"}
    out = p.stdout + p.stderr
    m = re.search(r"All (\d+) obligations? proved", out)
    if m:
        n = int(m.group(1))
        return {"module": module, "obligations": n, "discharged": n, "ok": True, "note": "all obligations proved (SMT / Zenon / Isabelle back ends of tlapm)"}
    m = re.search(r"(\d+)/(\d+) obligations? failed", out)
    if m:
        return {"module": module, "obligations": int(m.group(2)), "discharged": int(m.group(2)) - int(m.group(1)), "ok": False, "note": "some obligations failed"}
    return {"module": module, "obligations": 0, "discharged": 0, "ok": False, "note": "tlapm output not understood: " + out[-200:]}
