"""Abstract canonical programs (Program.tla: sequences of items) -> concrete source text of the seven
languages, together with the renderer's construction knowledge (where it put each header's first
token and each body's last token)."""
from __future__ import annotations

# language traits: layout family of Program.tla, what the canonical fragment of the language contains
TRAITS = {
    "Python": dict(fam="indent", nests=True, cls=True, anon=False, wrap=False, cls_in_func=True),
    "JavaScript": dict(fam="brace", nests=True, cls=True, anon=True, wrap=False, cls_in_func=True),
    "TypeScript": dict(fam="brace", nests=True, cls=True, anon=True, wrap=False, cls_in_func=True),
    "C": dict(fam="bracep", nests=False, cls=False, anon=False, wrap=False, cls_in_func=False),
    "C++": dict(fam="bracep", nests=False, cls=True, anon=True, wrap=False, cls_in_func=False),
    "Java": dict(fam="bracep", nests=False, cls=True, anon=True, wrap=True, cls_in_func=False),
    "C#": dict(fam="bracep", nests=True, cls=True, anon=True, wrap=True, cls_in_func=False),
}

LAYOUTS = {
    0: dict(width=4, names=("fn", "x", "y", "s"), comment=0),
    1: dict(width=2, names=("handleRequest", "value", "table", "text"), comment=1),
    2: dict(width=8, names=("f", "v", "w", "t"), comment=0),
}


def applicable(prog, lang) -> bool:
    tr = TRAITS[lang]
    st = []
    for it in prog:
        k = it["k"]
        if k == "K":
            if not tr["cls"]:
                return False
            if it["v"] == "wrapped" and lang not in ("Java", "JavaScript", "TypeScript"):
                return False  # anonymous classes with methods as call arguments
            if st and not tr["cls_in_func"]:
                return False
        if k == "A" and not tr["anon"]:
            return False
        if k == "G":
            if lang == "Python":
                return False  # no block statements
            if lang in ("C", "C++", "C#") and "F" not in st:
                return False  # a bare block outside a function is not legal there (Java: instance initialiser)
        if k == "F":
            if "F" in st and not tr["nests"]:
                return False
            if lang == "C" and st:
                return False
            if it["v"] == "nextbrace" and tr["fam"] == "indent":
                return False  # no such layout in Python (would duplicate "plain")
            if it["v"] == "arrow" and lang not in ("JavaScript", "TypeScript"):
                return False
            if it["v"] == "throws" and lang != "Java":
                return False
            pass
        if k == "S" and it["v"] == "mlstr" and lang != "Python":
            return False  # ONE string token over several lines: a triple-quoted string (Pygments splits template literals of JS / TS at line ends)
        if k == "F":
            if it["v"] == "tailwrap" and lang not in ("Java", "TypeScript", "Python"):
                return False  # only these header patterns know tokens between `)` and the body
            if it["v"] == "lineabove" and lang in ("JavaScript", "TypeScript"):
                return False
        if k == "C" and it["v"] == "try" and lang == "C":
            return False
        if k in "FKCAG":
            st.append(k)
        elif k == "X":
            st.pop()
    return True


def render(prog, lang, layout=0):
    """Returns (text, funcs) with funcs = [dict(item, name, start_line, start_col, end_line, end_col, alt_start_col)]
    in the order of the F items. Lines are 1-based."""
    tr = TRAITS[lang]
    lay = LAYOUTS[layout]
    W = lay["width"]
    fnm, xnm, ynm, snm = lay["names"]
    out = []
    ind = 0
    stack = []  # (kind, func record or None)
    funcs = []
    fcount = scount = 0
    py = lang == "Python"
    ts = lang == "TypeScript"
    jsl = lang in ("JavaScript", "TypeScript")
    line_comment = "#" if py else "//"

    def L(s):
        out.append(" " * (W * ind) + s)

    def mark_end(code_len=None):
        # the line just written is (so far) the last code line of every open function; code_len = length of the
        # line without a trailing comment
        for k, rec in stack:
            if rec is not None:
                rec["end_line"] = len(out)
                rec["end_col"] = (code_len if code_len is not None else len(out[-1])) + 1

    if tr["wrap"]:
        out.append("class Outer {")
        ind = 1
    for idx, it in enumerate(prog, 1):
        k, v = it["k"], it["v"]
        if k == "F":
            fcount += 1
            name = f"{fnm}{fcount}"
            incls = bool(stack) and stack[-1][0] in ("K", "Kw")
            base = W * ind
            rec = dict(item=idx, name=name, start_line=len(out) + 1, alt_start_col=None)
            if v == "lineabove":
                L({"Python": "@deco", "Java": "@Override", "C#": "[Obsolete]", "C++": "template <typename T>", "C": "static int"}[lang])
                rec["start_line"] = len(out) + 1
            if py:
                pre = "async " if v == "prefix" else ""
                rec["start_col"] = base + len(pre) + 1
                if pre:
                    rec["alt_start_col"] = base + 1
                if v == "multi":
                    L(f"def {name}(a,")
                    L("        b):")
                elif v == "tailwrap":
                    # what stands between the brackets of the annotation rotates: names, a keyword constant, a nested group with constants
                    L(f"def {name}(a, b) -> Dict[")
                    L("        " + ("str, int", "str, None", "Tuple[str, int], None, True")[len(out) % 3])
                    L("]:")
                elif v == "bracegroup":
                    L(f'def {name}(a, b={{"k": 1}}):')
                else:
                    L(f"{pre}def {name}(a, b):")
            elif jsl:
                ty = (lambda x: x + ": number") if ts else (lambda x: x)
                rt = ": number" if ts else ""
                kw = "" if incls else "function "
                pre = ("static " if incls else "async ") if v == "prefix" else ""
                rec["start_col"] = base + len(pre) + 1
                if pre and not incls:
                    rec["alt_start_col"] = base + 1
                if v == "arrow":
                    rec["start_col"] = base + 1
                    rec["alt_start_col"] = None
                    L(f"const {name} = ({ty('a')}, {ty('b')}) => {{")
                elif v == "multi":
                    L(f"{pre}{kw}{name}({ty('a')},")
                    L(f"    {ty('b')}){rt} {{")
                elif v == "nextbrace":
                    L(f"{pre}{kw}{name}({ty('a')}, {ty('b')}){rt}")
                    L("{")
                elif v == "tailwrap":
                    L(f"{pre}{kw}{name}({ty('a')}, {ty('b')})")
                    L("    : number")
                    L("{")
                elif v == "bracegroup":
                    L(f"{pre}{kw}{name}({{a, b}}, c = {{k: 1}}){rt} {{")
                else:
                    L(f"{pre}{kw}{name}({ty('a')}, {ty('b')}){rt} {{")
            else:
                pre = "static " if v == "prefix" else ""
                if lang in ("Java", "C#"):
                    pre = ("public static " if v == "prefix" else "public ") if (incls or not stack) else pre
                rtype = "" if (v == "lineabove" and lang == "C") else "int "
                rec["start_col"] = base + len(pre) + len(rtype) + 1
                if v == "throws":
                    # more than a handful of tokens between `)` and `{`: qualified names count a token per dot
                    L(f"{pre}int {name}(int a, int b) throws java.io.IOException, java.sql.SQLException, java.text.ParseException, A, B, C, D, E, F {{")
                elif v == "lineabove":
                    L(f"{pre}{rtype}{name}(int a, int b) {{")
                elif v == "tailwrap":
                    L(f"{pre}int {name}(int a, int b)")
                    L("        throws Exception,")
                    L("               Error {")
                elif v == "multi":
                    L(f"{pre}int {name}(int a,")
                    L("        int b) {")
                elif v == "nextbrace":
                    L(f"{pre}int {name}(int a, int b)")
                    L("{")
                elif v == "bracegroup":
                    L(f"{pre}int {name}(int a, S b = {{1, 2}}) {{")
                else:
                    L(f"{pre}int {name}(int a, int b) {{")
            rec["variant"] = v
            funcs.append(rec)
            stack.append(("F", rec))
            mark_end()
            ind += 1
        elif k == "K" and v == "wrapped":
            wcount = sum(1 for x in out if "wrap(" in x) + 1
            L(f"Object h{wcount} = wrap(new Object() {{" if lang == "Java" else f"wrap(class {{")
            stack.append(("Kw", None))
            mark_end()
            ind += 1
        elif k == "K":
            L({"Python": "class K:", "C++": "struct K {"}.get(lang, "class K {"))
            stack.append(("K", None))
            mark_end()
            ind += 1
        elif k == "C":
            if v == "loop":
                L("while a:" if py else "while (a) {")
            elif v == "try":
                L("try:" if py else "try {")
            else:
                L("if a:" if py else "if (a) {")
            stack.append(("C", None))
            mark_end()
            ind += 1
        elif k == "E":
            ind -= 1
            if v == "try":
                L("except Exception:" if py else {"C++": "} catch (...) {", "C#": "} catch (Exception e) {", "Java": "} catch (Exception e) {"}.get(lang, "} catch (e) {"))
            else:
                L("else:" if py else "} else {")
            mark_end()
            ind += 1
        elif k == "A":
            L({"JavaScript": "run(function () {", "TypeScript": "run(function () {", "C++": "auto l = [](int q) {", "Java": "run(q -> {", "C#": "Run(q => {"}[lang])
            stack.append(("A", None))
            mark_end()
            ind += 1
        elif k == "G":
            L("{")
            stack.append(("G", None))
            mark_end()
            ind += 1
        elif k == "X":
            t, rec = stack[-1]
            ind -= 1
            if not py:
                if t == "F" and rec.get("variant") == "arrow":
                    L("};")
                elif t == "A" or t == "Kw":
                    L("};" if lang == "C++" else "});")
                elif t == "K" and lang == "C++":
                    L("};")
                else:
                    L("}")
                if t == "F":
                    # the brace is the function's last token; anything after it on the line is not
                    rec["end_line"] = len(out)
                    rec["end_col"] = W * ind + 2
                    stack.pop()
                    mark_end()
                    continue
                mark_end()
            stack.pop()
        elif k == "S":
            for _ in range(it["n"]):
                scount += 1
                infn = any(s[0] == "F" for s in stack)
                if v == "mlstr":
                    if py:
                        L(f'"""text {scount}')
                        out.append("more { ( text")
                        out.append('end of text"""')
                    else:
                        L(f"{snm}{scount} = `text")
                        out.append("more {{ ( text")
                        out.append("end of text`;")
                    mark_end()
                    continue
                if v == "strdelim":
                    # now and then a form feed / vertical tab inside the literal: characters some line splitters take for line breaks
                    lit = ('"{ ( # // } )"', '"{ ( \x0c # // } )"', '"{ (\x0b # // } )"')[len(out) % 3]
                    if py:
                        L(f"{snm}{scount} = {lit}")
                    elif jsl:
                        L(f"{snm}{scount} = {lit};")
                    else:
                        decl = "" if infn else ("string " if lang == "C#" else "String " if lang == "Java" else "char *")
                        L(f"{decl}{snm}{scount} = {lit}; c{scount} = '{{';" if infn else f"{decl}{snm}{scount} = {lit};")
                else:
                    tail = ""
                    mid = ""
                    if v == "trailing":
                        tail = "  # note { (" if py else "  // note { ("
                    elif v == "inline":
                        if py:
                            tail = "  # inline ) }"
                        else:
                            mid = "/* note ( { */ "
                    if py:
                        L(f"{xnm}{scount} = call({scount}){tail}")
                        mark_end(len(out[-1]) - len(tail))
                        continue
                    elif jsl:
                        L(f"{xnm}{scount} = {mid}call({scount});{tail}")
                    else:
                        L((f"int {xnm}{scount} = {mid}call({scount});" if not infn else f"{xnm}{scount} = {mid}call({scount});") + tail)
                mark_end()
        elif k == "M":
            scount += 1
            if py:
                L(f"{ynm}{scount} = {{")
                L('    "k": [1, 2],')
                L("}")
            elif jsl:
                L(f"{ynm}{scount} = {{")
                L("    k: [1, 2],")
                L("};")
            elif lang == "C#":
                L(f"var {ynm}{scount} = new[] {{")
                L("    1, 2,")
                L("};")
            else:
                L(f"int {ynm}{scount}[] = {{")
                L("    1, 2,")
                L("};")
            mark_end()
        elif k == "B":
            out.append("")
        elif k == "R":
            if lay["comment"] == 1 and not py:
                L("/* note { ( */")
            else:
                L(f"{line_comment} note {{ (")
    if tr["wrap"]:
        out.append("}")
    return "\n".join(out) + "\n", funcs
