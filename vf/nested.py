"""NestedSearch.tla <-> scope_utils.get_headers (the header search above find_all, anchored in C14).

M  NestedSearch.tla: the stack-of-ranges loop as coded, TLC-checked against the recursive definition and the
   declarative clauses (HSound, HSorted, HDisjoint, HIsRef, HComplete, HLongestOuter, Shrinks, Terminates).
G  every final state (pattern, followed_by, word, expected headers) is replayed into the real get_headers on
   token objects (a str subclass that answers is_name(), so atoms stay plain Identity predicates).
A  NestedSearchTrace.tla judges the results that differ, plus random larger patterns / words, clause by clause.
"""
from __future__ import annotations

import json
import random

from . import tlc
from .common import MachineryError, log, pmap, seed
from .gsm_bind import canon, nullable, random_tree, show, to_items, to_json
from .tlaval import parse, read_dump

BOUNDS = {
    "quick": dict(sigma="ab", N=4, K=4, gK=5, F=1, rnd=600),
    "thorough": dict(sigma="ab", N=4, K=5, gK=6, F=1, rnd=8000),
}
NOFB = ("none",)


class Tok(str):
    """A token that equals its letter (Identity predicates compare with ==) and is a name."""

    def is_name(self):
        return True


def observe(case):
    from codelimit.common.scope.scope_utils import get_headers

    re_, fb, w = case
    toks = [Tok(c) for c in w]
    hs = get_headers(toks, to_items(re_), None if tuple(fb) == NOFB else to_items(fb))
    return {"hs": [[h.token_range.start, h.token_range.end] for h in hs], "names": [str(h.name_token) for h in hs]}


def event(k, case, res):
    ev = {"id": k, "re": to_json(case[0]), "fb": to_json(case[1]), "w": list(case[2])}
    if res[0] == "ok":
        ev.update(exc="", hs=res[1]["hs"], names=res[1]["names"])
    else:
        ev.update(exc=res[1] if res[0] == "exc" else "timeout", hs=[], names=[])
    return ev


def accept(wd, events, name="nested_trace"):
    trace = wd / f"{name}.ndjson"
    with open(trace, "w") as f:
        for ev in events:
            f.write(json.dumps(ev) + "\n")
    a = tlc.run("NestedSearchTrace", tlc.cfg(spec="Spec", postcondition="AllConsumed"), wd, workers=1, env={"TRACE_FILE": str(trace)}, coverage=False, cfgname=name + ".cfg")
    if a.violated or a.rc != 0:
        raise MachineryError("NestedSearchTrace did not consume the whole trace:\n" + a.out[-1500:])
    out = {}
    for p in a.prints:
        if p.startswith('<<"REJECT"'):
            v = parse(p)
            out[int(v[1])] = v[2]
    return out


INVS = ["HSound", "HSorted", "HDisjoint", "HIsRef", "HComplete", "HCompleteDeclarative", "HLongestOuter", "NoLostRange"]
PROPS = ["Shrinks", "Terminates"]


def run(wd, rep, tier, t):
    b = BOUNDS[tier]
    sig = tlc.tla_set(tlc.tla_str(c) for c in b["sigma"])
    consts = {"Sigma": sig, "MaxSize": b["N"], "MaxLen": b["K"], "FbSize": b["F"]}
    m = tlc.run("NestedSearch", tlc.cfg(consts, spec="Spec", invariants=INVS, properties=PROPS), wd)
    g = tlc.run("NestedCases", tlc.cfg(dict(consts, MaxLen=b["gK"]), spec="Spec", invariants=["RefIsSound"]), wd, dump=True, coverage=False)
    if g.violated:
        raise MachineryError(f"oracle sanity invariant violated in NestedCases: {g.violated}")
    cases, refs, nested = [], [], 0
    for st in read_dump(g.dump):
        cases.append((st["re"], tuple(st["fb"]), tuple(st["w"])))
        refs.append([list(x) for x in st["v"]])
        nested += bool(st["n"])
    if not cases or not nested:
        raise MachineryError("NestedSearch.tla: no final state with a header found inside a rejected candidate - the model was not exercised")
    results = pmap(observe, cases, timeout=20)
    differ = [i for i, (r, res) in enumerate(zip(refs, results)) if res[0] != "ok" or res[1]["hs"] != r]
    rng = random.Random(seed() * 7919 + 141)
    rcases = []
    while len(rcases) < b["rnd"]:
        sg = "abcd"[: rng.randint(2, 4)]
        re_ = canon(random_tree(rng, rng.randint(2, 6), sg))
        if nullable(re_):
            continue
        fb = NOFB if rng.random() < 0.15 else canon(random_tree(rng, rng.randint(1, 3), sg))
        for _ in range(4):
            rcases.append((re_, fb, tuple(rng.choice(sg) for _ in range(rng.randint(0, 9)))))
    rres = pmap(observe, rcases, timeout=20)
    events = [event(k, cases[i], results[i]) for k, i in enumerate(differ)]
    off = len(events)
    events += [event(off + k, c, r) for k, (c, r) in enumerate(zip(rcases, rres))]
    rejected = accept(wd, events)
    for k, clause in sorted(rejected.items()):
        case, res = (cases[differ[k]], results[differ[k]]) if k < off else (rcases[k - off], rres[k - off])
        rep.fail({"clause": clause, "pattern": show(case[0]), "followed_by": "none" if tuple(case[1]) == NOFB else show(case[1]), "word": " ".join(case[2])},
                 {"kind": "headers", "re": to_json(case[0]), "fb": to_json(case[1]), "w": list(case[2]), "observed": res[1] if res[0] == "ok" else list(res),
                  "expected_reference": refs[differ[k]] if k < off else None})
    for k in range(off):
        if k not in rejected:
            c = cases[differ[k]]
            rep.model_drift(f"get_headers({show(c[0])} / {c[1]}, {' '.join(c[2])}) = {results[differ[k]][1]['hs']} differs from NestedSearch.tla's {refs[differ[k]]} but satisfies every clause")
    if m.violated and not rejected:
        raise MachineryError(f"NestedSearch.tla {m.violated} violated but the code satisfies every clause on the replayed space: model is wrong")
    log(f"[C14] N nested header search: {m.distinct} states in the loop model, {len(cases)} generated cases replayed into get_headers ({nested} with a header inside a rejected candidate), "
        f"{len(differ)} differ; {len(rcases)} random calls judged, {len(rejected)} rejected, {t.s()}s")
    k = next(i for i, (r, c) in enumerate(zip(refs, cases)) if len(r) >= 1 and any(True for _ in r) and len(c[2]) >= 4)
    return {
        "states": m.distinct + g.distinct, "transitions": m.transitions + g.transitions, "replayed": len(cases) + len(rcases),
        "detail": {"module": "NestedSearch.tla", "invariants": INVS + PROPS, "violated": [list(x) for x in m.violated], "actions": m.coverage,
                   "generator": {"module": "NestedCases.tla", "states": g.distinct}, "bounds": {"alphabet": b["sigma"], "max_items": b["N"], "max_word_model": b["K"], "max_word_replay": b["gK"], "followed_by_items": b["F"], "random_calls": len(rcases)},
                   "final_states_replayed": len(cases), "with_header_inside_rejected_candidate": nested, "differ_from_model": len(differ),
                   "acceptor": {"module": "NestedSearchTrace.tla", "events": len(events), "rejected": len(rejected)}},
        "samples": [{"pattern": show(cases[k][0]), "followed_by": str(cases[k][1]), "word": list(cases[k][2]), "headers_model": refs[k],
                     "get_headers": results[k][1]["hs"] if results[k][0] == "ok" else list(results[k])}],
    }


def replay_case(wd, case):
    c = (tuple_tree(case["re"]), tuple_tree(case["fb"]), tuple(case["w"]))
    from .common import guarded

    r = guarded(observe, c, 20)
    print("pattern:", show(c[0]), "| followed_by:", c[1], "| word:", " ".join(c[2]), "| get_headers:", r)
    return accept(wd, [event(0, c, r)], name="replay_nested")


def tuple_tree(t):
    return tuple(tuple_tree(x) if isinstance(x, list) else x for x in t)
