"""C04 - comments, blank lines and whitespace never change what is measured.

M/G Edits.tla: the reference Shift (what must be reported for the edited text, given what was reported
    for the base text) with sanity invariants; the state machine enumerates edit scripts (<= E simultaneous
    edits over abstract points x kinds x comment styles); vf/edits.py binds the points to token-safe
    positions of concrete texts (decided from the raw Pygments stream, not by codelimit).
A   EditTrace.tla accepts every (base scan, script, edited scan) triple: names, order, lengths unchanged,
    each line number shifted by the number of lines inserted above it.
Texts: canonical programs rendered from Program.tla in all 7 languages and the vendored corpus.
"""
from __future__ import annotations

import json
import random

from .. import evidence, tlc
from ..common import MachineryError, Timer, guarded, log, pmap, seed, workdir
from ..edits import Doc, payload_for
from ..findings import Reporter
from ..langs import analyse, corpus_files, harvested_texts
from ..render import TRAITS, applicable, render
from ..tlaval import dump_chunks, parse, parse_state, read_dump

PROP = "C04"
KINDS = '{"blank", "spaces", "comment", "trail_comment", "trail_ws"}'
BOUNDS = {
    "quick": dict(points=4, styles=2, edits=2, programs=20, scripts_per_program=60, scripts_per_corpus=30, every_boundary=False),
    "thorough": dict(points=5, styles=3, edits=3, programs=60, scripts_per_program=120, scripts_per_corpus=120, every_boundary=True),
}


def meas_json(ms):
    return [{"name": m[0], "sl": m[1], "sc": m[2], "el": m[3], "ec": m[4], "len": m[5]} for m in ms]


def choose_points(doc, base, n, rng, which):
    """n concrete lines for the abstract points, stratified: inside bodies, on header lines, on last lines, outside."""
    pool = doc.safe_insert if which == "insert" else doc.can_trail
    if not pool:
        return []
    inside, header, last, outside = [], [], [], []
    for L in pool:
        owners = [m for m in base if m[1] <= L <= m[3]]
        if any(m[1] == L for m in base):
            header.append(L)
        elif any(m[3] == L for m in base):
            last.append(L)
        elif owners:
            inside.append(L)
        else:
            outside.append(L)
    out = []
    groups = [g for g in (inside, header, last, outside) if g]
    k = 0
    while len(out) < n and groups:
        g = groups[k % len(groups)]
        c = rng.choice(g)
        if c not in out:
            out.append(c)
        k += 1
        if k > 20 * n:
            break
    return sorted(out)


def run_text(arg):
    """Base scan + a list of scripts on one text. Returns events (without ids)."""
    lang, text, scripts, npoints, origin, sd = arg
    rng = random.Random(sd)
    fname = origin.split("/")[-1] if origin.startswith("special/") and origin.endswith((".h", ".hh")) else None
    try:
        base = analyse(lang, text, fname=fname)
    except Exception as e:  # noqa: BLE001 - totality is C03's subject
        return {"skipped": "base analysis raised " + type(e).__name__, "events": [], "origin": origin}
    doc = Doc(lang, text)
    ins_pts = choose_points(doc, base, npoints, rng, "insert")
    tr_pts = choose_points(doc, base, npoints, rng, "trail")
    events, unstable, unbound = [], 0, 0
    for scr in scripts:
        concrete, tl = [], []
        ok = True
        for e in scr:
            pts = ins_pts if e["k"] in ("blank", "spaces", "comment") else tr_pts
            if e["at"] > len(pts):
                ok = False
                break
            L = pts[e["at"] - 1]
            indent = ""
            if e["k"] == "comment" and L <= len(doc.lines):
                ln = doc.lines[L - 1]
                indent = ln[: len(ln) - len(ln.lstrip())]
            concrete.append((e["k"], L, payload_for(lang, e["k"], e["style"], indent, salt=L)))
            tl.append({"k": e["k"], "at": L, "style": e["style"]})
        if not ok:
            unbound += 1
            continue
        new = doc.apply(concrete)
        if not doc.stable(new):
            unstable += 1
            continue
        try:
            got = analyse(lang, new, fname=fname)
            exc = ""
        except Exception as e:  # noqa: BLE001
            got, exc = [], type(e).__name__
        events.append({"prop": "C04", "lang": lang, "origin": origin, "base": meas_json(base), "script": tl, "marked": [], "got": meas_json(got), "exc": exc,
                       "_text": text if len(text) < 3000 else None, "_new": new if len(new) < 3000 else None, "_concrete": concrete})
    return {"events": events, "unstable": unstable, "unbound": unbound, "origin": origin, "functions": len(base)}


def accept(wd, events, name="c04_trace"):
    trace = wd / f"{name}.ndjson"
    with open(trace, "w") as f:
        for k, ev in enumerate(events):
            f.write(json.dumps({"id": k, **{a: b for a, b in ev.items() if not a.startswith("_") and a not in ("lang", "origin")}}) + "\n")
    a = tlc.run("EditTrace", tlc.cfg({"NPoints": 1, "Kinds": KINDS, "NStyles": 1, "MaxEdits": 0}, spec="TSpec", postcondition="AllConsumed"), wd, workers=1,
                env={"TRACE_FILE": str(trace)}, coverage=False, cfgname=name + ".cfg", timeout=1500)
    if a.violated or a.rc != 0:
        raise MachineryError("EditTrace did not consume the whole trace:\n" + a.out[-1500:])
    out = {}
    for pr in a.prints:
        if pr.startswith('<<"REJECT"'):
            v = parse(pr)
            out[int(v[1])] = v[2]
    return out


def canonical_texts(wd, n_programs, rng):
    """Rendered canonical programs (with comments, classes, nesting) from a Program.tla run."""
    consts = dict(MaxItems=7, MaxDepth=3, Reps="{2}", FVariants='{"plain", "multi"}', SVariants='{"plain", "strdelim", "trailing"}', CVariants='{"if", "try"}', Allowed='{"F","K","C","E","X","S","M","R"}')
    m = tlc.run("Program", tlc.cfg(consts, spec="Spec", invariants=["Sane"]), wd, dump=True, cfgname="Program_c04.cfg", coverage=False)
    chunks = [c for c in dump_chunks(m.dump) if "done = TRUE" in c]
    rng.shuffle(chunks)
    out = []
    per_lang = {l: 0 for l in TRAITS}
    for ch in chunks:
        prog = parse_state(ch)["prog"]
        if sum(1 for it in prog if it["k"] == "F") < 2:
            continue
        for lang in TRAITS:
            if per_lang[lang] < n_programs and applicable(prog, lang):
                text, _ = render(prog, lang, per_lang[lang] % 3)
                out.append((lang, text))
                per_lang[lang] += 1
        if all(v >= n_programs for v in per_lang.values()):
            break
    return out, m


def run(tier: str) -> int:
    b = BOUNDS[tier]
    t = Timer()
    rep = Reporter(PROP)
    wd = workdir(PROP)
    rng = random.Random(seed() * 53 + 4)
    m = tlc.run("Edits", tlc.cfg({"NPoints": b["points"], "Kinds": KINDS, "NStyles": b["styles"], "MaxEdits": b["edits"]}, spec="Spec",
                                 invariants=["ShiftPreservesOrderAndNesting", "ShiftGrowsSpansOnlyByInsertedLines"]), wd, dump=True)
    if m.violated:
        raise MachineryError(f"reference sanity invariant violated in Edits.tla: {m.violated}")
    scripts = [[dict(e) for e in st["script"]] for st in read_dump(m.dump) if st["script"]]
    log(f"[C04] M/G Edits: {m.distinct} scripts enumerated, {m.wall_s}s")
    canon, pm = canonical_texts(wd, b["programs"], rng)
    jobs = []
    for k, (lang, text) in enumerate(canon):
        sel = rng.sample(scripts, min(b["scripts_per_program"], len(scripts)))
        jobs.append((lang, text, sel, b["points"], f"canonical#{k}", rng.randrange(1 << 30)))
    corpus = corpus_files()
    for lang, path, text in corpus:
        sel = rng.sample(scripts, min(b["scripts_per_corpus"], len(scripts)))
        jobs.append((lang, text, sel, b["points"], f"corpus/{path.parent.name}/{path.name}", rng.randrange(1 << 30)))
        if b["every_boundary"]:
            single = [[{"k": k, "at": 1, "style": 1}] for k in ("blank", "comment")]
            # every safe boundary once: bind point 1 to each boundary in turn (handled in worker through npoints=all)
    harvested = harvested_texts()
    for lang, origin, text in harvested:
        sel = rng.sample(scripts, min(b["scripts_per_corpus"], len(scripts)))
        jobs.append((lang, text, sel, b["points"], origin, rng.randrange(1 << 30)))
    # regions a lexer hands out as comment tokens of an unusual kind: code disabled by the preprocessor
    IF0 = ("int compute(int a) {\n  int r = a;\n#if 0\n  r = old_way(a);\n  if (r) {\n    r = r + 1;\n  }\n  log(r);\n#endif\n  return r;\n}\n\n"
           "int other(int b) {\n#if 0\n  legacy(b);\n  more(b);\n#else\n  b = b + 1;\n#endif\n  return b;\n}\n")
    WIDE = ("const table = [" + ", ".join(str(i) for i in range(260)) + "]; function lookup(k) {\n  if (k) {\n    return table[k];\n  }\n  return 0;\n}\nfunction other(a) {\n  return a;\n}\n")
    special = [("C", "special/if0.c", IF0), ("C++", "special/if0.cpp", IF0), ("JavaScript", "special/wide.js", WIDE), ("TypeScript", "special/wide.ts", WIDE)]
    # a suppression marker that ends the line above a function's name line, or sits alone on it: the marker belongs to ITS line
    # whatever stands on the next one, so a blank or comment line put between the two changes nothing
    MARK = {"brace": "int one(int a) { return a; } // nocl\nint two(int b) {\n  return b;\n}\n// nocl\nint three(int c) {\n  return c;\n}\n/* nocl */\nint four(int d) {\n  return d;\n}\n",
            "js": "function one(a) { return a; } // nocl\nfunction two(b) {\n  return b;\n}\n// nocl\nfunction three(c) {\n  return c;\n}\n/* nocl\n */\nfunction four(d) {\n  return d;\n}\n",
            "py": "def one(a): return a  # nocl\ndef two(b):\n    return b\n# nocl\ndef three(c):\n    return c\n"}
    special += [("C", "special/mark.c", MARK["brace"]), ("C++", "special/mark.cpp", MARK["brace"]), ("C#", "special/mark.cs", "class K {\n" + MARK["brace"] + "}\n"),
                ("Java", "special/Mark.java", "class K {\n" + MARK["brace"] + "}\n"), ("JavaScript", "special/mark.js", MARK["js"]), ("TypeScript", "special/mark.ts", MARK["js"]),
                ("Python", "special/mark.py", MARK["py"])]
    # headers: a file name two languages claim (x.h: C and Objective-C, x.hh: C++ and Objective-C++) - what a comment says must
    # not decide which of them the file is
    HDR = "#ifndef H\n#define H\nstatic int clamp(int v, int lo, int hi) {\n  if (v < lo) {\n    return lo;\n  }\n  if (v > hi) {\n    return hi;\n  }\n  return v;\n}\n\nstatic int sum(const int *xs, int n) {\n  int s = 0;\n  for (int i = 0; i < n; i++) {\n    s += xs[i];\n  }\n  return s;\n}\n#endif\n"
    special += [("C", "special/hdr.h", HDR), ("C++", "special/hdr.hh", HDR)]
    # return type on a line of its own above the name (GNU / BSD style): the two lines are neighbours, not one unit
    GNU = "static int\nadd(int a, int b)\n{\n  return a + b;\n}\n\nconst char *\nname_of(int k)\n{\n  if (k) {\n    return \"k\";\n  }\n  return \"\";\n}\n"
    special += [("C", "special/hdr_gnu.c", GNU), ("C++", "special/hdr_gnu.cpp", GNU)]
    for lang, origin, text in special:
        for _rep in range(6 if ("mark" in origin or "hdr" in origin) else 3):  # three independent choices of points
            sel = rng.sample(scripts, min(b["scripts_per_corpus"], len(scripts)))
            jobs.append((lang, text, sel, b["points"], origin, rng.randrange(1 << 30)))
    res = pmap(run_text, jobs, timeout=900, chunk=1)
    events, skipped_unstable, skipped_base, unbound = [], 0, [], 0
    for job, r in zip(jobs, res):
        if r[0] != "ok":
            raise MachineryError(f"edit worker failed on {job[4]}: {r}")
        o = r[1]
        if "skipped" in o:
            skipped_base.append(f"{o['origin']}: {o['skipped']}")
            continue
        skipped_unstable += o["unstable"]
        unbound += o["unbound"]
        events.extend(o["events"])
    if b["every_boundary"]:
        events.extend(every_boundary(corpus))
    rejected = accept(wd, events)
    for k, clause in sorted(rejected.items()):
        ev = events[k]
        rep.fail({"clause": clause, "language": ev["lang"], "origin": ev["origin"], "script": [[e["k"], e["at"]] for e in ev["script"]]},
                 {"language": ev["lang"], "origin": ev["origin"], "script": ev["_concrete"], "base": ev["base"], "got": ev["got"], "text": ev["_text"], "edited": ev["_new"]})
    log(f"[C04] A accepted {len(events) - len(rejected)}/{len(events)} edited scans ({len(canon)} canonical texts, {len(corpus)} corpus files, {len(harvested)} texts of the repository's own tests; skipped: {skipped_unstable} lexer-unstable, {unbound} unbound, {len(skipped_base)} base failures), {t.s()}s")
    rc = rep.finish()
    evidence.write(
        PROP, tier, level="model_checking", wall_s=t.s(), violations=rep.n_violations,
        coverage={
            "states": m.distinct + pm.distinct, "transitions": m.transitions + pm.transitions, "traces_validated_against_impl": len(events), "exhaustive": False,
            "samples": [{"language": e["lang"], "origin": e["origin"], "script": e["script"], "functions": len(e["base"])} for e in events[:: max(1, len(events) // 3)][:3]] or [{"note": "no event"}],
            "bounds": {"points": b["points"], "styles": b["styles"], "max_simultaneous_edits": b["edits"], "scripts_enumerated": len(scripts), "canonical_texts": len(canon), "corpus_files": len(corpus), "texts_harvested_from_repository_tests": len(harvested),
                       "scripts_per_canonical_text": b["scripts_per_program"], "scripts_per_corpus_file": b["scripts_per_corpus"], "every_safe_boundary_once": b["every_boundary"]},
            "skipped": {"lexer_unstable_edits": skipped_unstable, "unbound_points": unbound, "base_analysis_failed": skipped_base},
            "model": {"module": "Edits.tla", "invariants": ["ShiftPreservesOrderAndNesting", "ShiftGrowsSpansOnlyByInsertedLines"], "actions": m.coverage},
            "acceptor": {"module": "EditTrace.tla", "events": len(events), "rejected": len(rejected)},
            "model_drift": rep.drift, "known_findings_hit": sorted(rep.known),
        },
        assumptions=["token-safe positions are decided from the raw Pygments stream; an edit that changes the sequence of non-empty, non-comment, non-whitespace tokens is skipped and counted",
                     "metamorphic: the base list is what the code reports for the base text (exactness of the base list is C01's subject)", "removal of a line is the same relation read backwards"],
    )
    return rc


def every_boundary_file(arg):
    lang, text, origin = arg
    try:
        base = analyse(lang, text)
    except Exception:  # noqa: BLE001
        return []
    doc = Doc(lang, text)
    out = []
    for n, L in enumerate(doc.safe_insert):
        kind = ("blank", "comment", "spaces")[n % 3]
        indent = ""
        payload = payload_for(lang, kind, 1 + n % 3, indent, salt=n)
        new = doc.apply([(kind, L, payload)])
        if not doc.stable(new):
            continue
        try:
            got, exc = analyse(lang, new), ""
        except Exception as e:  # noqa: BLE001
            got, exc = [], type(e).__name__
        out.append({"prop": "C04", "lang": lang, "origin": origin, "base": meas_json(base), "script": [{"k": kind, "at": L, "style": 1}], "marked": [], "got": meas_json(got), "exc": exc,
                    "_text": None, "_new": None, "_concrete": [(kind, L, payload)]})
    return out


def every_boundary(corpus):
    res = pmap(every_boundary_file, [(l, t, f"corpus/{p.parent.name}/{p.name}") for l, p, t in corpus], timeout=3000, chunk=1)
    out = []
    for r in res:
        if r[0] != "ok":
            raise MachineryError(f"every-boundary worker failed: {r}")
        out.extend(r[1])
    return out


def replay(path: str) -> int:
    case = json.loads(open(path).read())
    if not case.get("text"):
        print("case recorded without text (large file); origin:", case["origin"], "script:", case["script"])
        lang = case["language"]
        files = {f"corpus/{p.parent.name}/{p.name}": t for l, p, t in corpus_files()}
        text = files[case["origin"]]
    else:
        lang, text = case["language"], case["text"]
    doc = Doc(lang, text)
    new = doc.apply([tuple(x) for x in case["script"]])
    base = guarded(lambda _: analyse(lang, text), None, 120)
    got = guarded(lambda _: analyse(lang, new), None, 120)
    ev = {"prop": "C04", "lang": lang, "origin": case["origin"], "base": meas_json(base[1]) if base[0] == "ok" else [], "marked": [],
          "script": [{"k": k, "at": at, "style": 1} for k, at, _ in case["script"]], "got": meas_json(got[1]) if got[0] == "ok" else [], "exc": "" if got[0] == "ok" else "x"}
    wd = workdir(PROP, "replay")
    rej = accept(wd, [ev], name="replay")
    print("base:", base)
    print("edited:", got)
    if rej:
        print(f"VIOLATION property={PROP} replay={path}")
        print("rejected clause:", rej[0])
        return 1
    print("accepted by EditTrace.tla")
    return 0
