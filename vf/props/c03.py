"""C03 - analysis is total (and, through run_generic, C05 - every measurement is well-formed).

G  Mutations.tla: TLC enumerates the mutation graph (every prefix / suffix / character cut, single line and
   token deletions, duplications and swaps, chains, token soups over the language's lexical alphabet, deep
   nesting, non-UTF-8 bytes) over canonical base programs; vf/mutate.py binds it to concrete texts of the 7
   languages. CheckNaming.tla enumerates the ways of naming a file to `check`.
A  MeasureTrace.tla has actions only for normal returns: an exception, a time-out or an exit status other
   than 0/1 is a rejected event (C03); every returned list must satisfy Measure.tla (C05).
"""
from __future__ import annotations

import contextlib
import io
import json
import os
import random
import shutil
from pathlib import Path

from .. import evidence, tlc
from ..common import MachineryError, Timer, guarded, log, pmap, scratch_dir, seed, workdir
from ..findings import Reporter
from ..langs import LANGS, code_table, corpus_files, language, lexer_for
from ..mutate import BYTE_KINDS, EXTRA_BASES, alphabet, mutate
from ..render import TRAITS, applicable, render
from ..tlaval import dump_chunks, parse, parse_state, read_dump

BOUNDS = {
    "quick": dict(bases=5, maxpos=40, soup=3, chains=False, nest="{40, 150, 1200}", tables_every=3),
    "thorough": dict(bases=8, maxpos=80, soup=3, chains=True, nest="{40, 150, 400, 1200, 3000}", tables_every=2),
}
POSOPS = '{"Prefix", "Suffix", "CutChars", "DelLine", "DupLine", "SwapLines", "DelToken", "DupToken", "SwapTokens", "BreakLine", "JoinLines", "OddSpace", "Flatten"}'


def base_programs(wd, n, rng, harvest=2):
    consts = dict(MaxItems=7, MaxDepth=3, Reps="{2}", FVariants='{"plain", "multi", "bracegroup"}', SVariants='{"plain", "strdelim", "trailing"}', CVariants='{"if", "try"}', Allowed='{"F","K","C","E","A","X","S","M","R"}')
    m = tlc.run("Program", tlc.cfg(consts, spec="Spec", invariants=["Sane"]), wd, dump=True, cfgname="Program_bases.cfg", coverage=False)
    chunks = [c for c in dump_chunks(m.dump) if "done = TRUE" in c]
    rng.shuffle(chunks)
    out = {l: [] for l in TRAITS}
    for ch in chunks:
        prog = parse_state(ch)["prog"]
        if len(prog) < 6:
            continue
        for lang in TRAITS:
            if len(out[lang]) < n and applicable(prog, lang):
                out[lang].append(render(prog, lang, len(out[lang]) % 3)[0])
        if all(len(v) >= n for v in out.values()):
            break
    for lang in out:
        out[lang] += EXTRA_BASES.get(lang, [])
    # texts of the repository's own tests (the shapes its maintainers document), a few per language and run
    from ..langs import harvested_texts

    per = {}
    for lang, _origin, text in harvested_texts():
        per.setdefault(lang, []).append(text)
    for lang, xs in per.items():
        rng.shuffle(xs)
        out[lang] += xs[:harvest]
    return out, m


def reference_text(data: bytes) -> str:
    """The text of a file as a reader sees it (independent of the scanner's own reader): UTF-8 if the bytes are UTF-8, else
    Latin-1; universal newlines."""
    try:
        t = data.decode("utf-8")
    except UnicodeDecodeError:
        t = data.decode("latin-1")
    return t.replace("\r\n", "\n").replace("\r", "\n")


def decode_like_scanner(data: bytes, wd_file: Path):
    """Bytes -> text through the scanner's own reader (Latin-1 fallback)."""
    wd_file.write_bytes(data)
    try:
        from codelimit.common.Scanner import _read_file

        return _read_file(wd_file)
    except ImportError:
        try:
            return data.decode()
        except UnicodeDecodeError:
            return data.decode("latin-1")


_SCR = {}


def _scratch():
    """One scratch directory per PROCESS (pool workers are forked and would otherwise share the parent's)."""
    pid = os.getpid()
    if pid not in _SCR:
        _SCR.clear()
        _SCR[pid] = scratch_dir("c03")  # lives under the run's scratch root, removed with it
    return _SCR[pid]


def observe_input(arg):
    """scan_file on one input. arg = (lang, text | bytes, want_table). Returns the event body."""
    from codelimit.common.lexer_utils import lex
    from codelimit.common.Scanner import scan_file
    from codelimit.common.source_utils import filter_tokens

    lang, data, table = arg
    if isinstance(data, bytes):
        # bytes are a FILE: it is analysed the way the scanner analyses a file (its own reading and decoding), and what it
        # reports is judged against the text a reader sees - UTF-8, else Latin-1, line breaks \n, \r\n and \r
        from codelimit.common.Scanner import scan_path

        d = _scratch() / "bytes"
        shutil.rmtree(d, ignore_errors=True)
        d.mkdir()
        name = LANGS[lang]["file"]
        (d / name).write_bytes(data)
        cb = scan_path(d)
        ms = cb.files[name].measurements() if name in cb.files else []
        data = reference_text(data)
    else:
        tokens = lex(lexer_for(lang), data, False)
        ms = scan_file(tokens, language(lang))
    ev = {"meas": [{"name": m.unit_name, "sl": m.start.line, "sc": m.start.column, "el": m.end.line, "ec": m.end.column, "len": m.value} for m in ms]}
    if table and ms:
        lines = data.split("\n")
        ev["nlines"] = len(lines)
        ev["linelen"] = [len(x) for x in lines]
        ev["toks"] = code_table(lang, data)
    else:
        ev.update(nlines=1, linelen=[0], toks=[], meas=[] if not table else ev["meas"])
        if table and ms:
            pass
    return ev


def make_event(k, res, kind="scan_file"):
    ev = {"id": k, "kind": kind}
    if res[0] == "ok":
        ev.update(exc="", **res[1])
    else:
        ev.update(exc=res[1] if res[0] == "exc" else "timeout", nlines=1, linelen=[0], toks=[], meas=[])
    return ev


def accept(wd, events, name):
    trace = wd / f"{name}.ndjson"
    with open(trace, "w") as f:
        for ev in events:
            f.write(json.dumps(ev) + "\n")
    a = tlc.run("MeasureTrace", tlc.cfg(spec="Spec", postcondition="AllConsumed"), wd, workers=1, env={"TRACE_FILE": str(trace)}, coverage=False, cfgname=name + ".cfg", timeout=2400,
                java_opts=["-Xss64m"])
    if a.violated or a.rc != 0:
        raise MachineryError("MeasureTrace did not consume the whole trace:\n" + a.out[-1500:])
    out = {}
    for pr in a.prints:
        if pr.startswith('<<"REJECT"'):
            v = parse(pr)
            out[int(v[1])] = v[2]
    return out


# ---------------------------------------------------------------------------------------------
def observe_renamed(arg):
    """(langA, langB, text): scan a folder holding the text under A's file name; rename the file to B's file name;
    scan again with the first report as cache (as `codelimit scan` does). The event body is that of observe_input
    for language B, with the measurements the SECOND scan reports for the renamed file."""
    from codelimit.common.lexer_utils import lex
    from codelimit.common.report.Report import Report
    from codelimit.common.Scanner import scan_path
    from codelimit.common.source_utils import filter_tokens

    la, lb, text = arg
    d = _scratch() / "rename"
    shutil.rmtree(d, ignore_errors=True)
    d.mkdir()
    (d / LANGS[la]["file"]).write_text(text, newline="")
    first = Report(scan_path(d))
    (d / LANGS[la]["file"]).rename(d / LANGS[lb]["file"])
    cb = scan_path(d, first)
    ms = cb.files[LANGS[lb]["file"]].measurements() if LANGS[lb]["file"] in cb.files else []
    tokens = lex(lexer_for(lb), text, False)
    ev = {"meas": [{"name": m.unit_name, "sl": m.start.line, "sc": m.start.column, "el": m.end.line, "ec": m.end.column, "len": m.value} for m in ms]}
    if ms:
        lines = text.split("\n")
        ev["nlines"] = len(lines)
        ev["linelen"] = [len(x) for x in lines]
        ev["toks"] = code_table(lb, text)
    else:
        ev.update(nlines=1, linelen=[0], toks=[])
    return ev


# CLI scenarios (C03): scan of a tree containing the file; check naming x cwd x quiet


NASTY = {
    "Python": [("trunc.py", b"def f(a):\n    return a\n\ndef g("), ("latin.py", "# r\xe9sum\xe9\ndef f():\n    return 'caf\xe9'\n".encode("latin-1")), ("ok.py", b"def f():\n    pass\n"),
               # findings: only a file with a function above 30 lines reaches the path arithmetic of the report
               ("long.py", ("def long_one(a):\n" + "".join(f"    v{i} = {i}\n" for i in range(40)) + "\ndef huge(a):\n" + "".join(f"    w{i} = {i}\n" for i in range(70))).encode()),
               ("twice.py", ("def one(a):\n" + "".join(f"    v{i} = {i}\n" for i in range(40)) + "\ndef two(a):\n" + "".join(f"    w{i} = {i}\n" for i in range(40)) + "\ndef three(a):\n" + "".join(f"    u{i} = {i}\n" for i in range(40))).encode()),
               ("high.py", b"# " + bytes(range(0x80, 0x100)) + b"\ndef f():\n    return 1\n"),
               # several functions above 60 lines, one of them unfinished: the exit status says "some", not how many
               ("many.py", ("".join(f"def huge{k}(a):\n" + "".join(f"    v{i} = {i}\n" for i in range(70)) + "\n" for k in range(3)) + "def cut(a):\n" + "".join(f"    w{i} = (\n" for i in range(70))).encode())],
    "JavaScript": [("arrow.js", b"const f = (cb = () => 0) => {\n  return cb();\n};\n"), ("latin.js", "// r\xe9sum\xe9\nfunction f() {\n  return 1;\n}\n".encode("latin-1"))],
    "C": [("deep.c", ("int f(void) {\n" + "{" * 60 + "\n").encode()), ("latin.c", "/* \xe9 */\nint f(void) {\n  return 1;\n}\n".encode("latin-1"))],
    "Java": [("Un.java", b"class K { void f(int a) throws { new R() { void g() {"),
             ("Long.java", ("class K {\n  void longOne(int a) {\n" + "".join(f"    int v{i} = {i};\n" for i in range(45)) + "  }\n}\n").encode())],
    "TypeScript": [("gen.ts", b"function f<T>(a: T): T {\n  return a;\n}\nconst g = (x = (y) => y) => {\n};\n")],
}


def cli_scenario(arg):
    """One (file, naming) scenario in a fresh scratch tree. Returns event bodies."""
    import typer

    from codelimit.commands.check import check_command
    from codelimit.common.Configuration import Configuration

    fname, content, namings = arg
    top = scratch_dir("c03cli")
    try:
        root = top / "work" / "root"
        (root / "src").mkdir(parents=True)
        other = top / "elsewhere"
        other.mkdir()
        f = root / "src" / fname
        f.write_bytes(content)
        (root / "main.py").write_text("def main():\n    pass\n")
        cwds = {"root": root, "ancestor": top / "work", "unrelated": other, "subdir": root / "src"}
        out = []
        for (argform, cwdform, quiet) in namings:
            cwd = cwds[cwdform]
            os.chdir(cwd)
            target = {"relative_file": f, "absolute_file": f, "parent_dir_relative": root / "src", "parent_dir_absolute": root / "src", "root_dot": root, "root_absolute": root}[argform]
            if argform in ("relative_file", "parent_dir_relative", "root_dot"):
                p = Path(os.path.relpath(target, cwd))
            else:
                p = target
            Configuration.exclude = []
            buf = io.StringIO()
            ev = {"kind": "check", "exit": -1, "scenario": [fname, argform, cwdform, quiet]}
            try:
                with contextlib.redirect_stdout(buf):
                    try:
                        check_command([p], quiet)
                    except typer.Exit as e:
                        ev["exit"] = e.exit_code
                ev["exc"] = ""
            except Exception as e:  # noqa: BLE001
                ev["exc"] = type(e).__name__
            out.append(ev)
        # scan of the tree containing the file
        from codelimit.commands.scan import scan_command

        for rootform in (root, Path(os.path.relpath(root, top / "work")), "alone"):
            if rootform == "alone":  # the same once more when the file is the only one of the tree (nothing else measured)
                (root / "main.py").unlink()
                rootform = root
            os.chdir(top / "work")
            Configuration.exclude = []
            Configuration.repository = None
            shutil.rmtree(root / ".codelimit_cache", ignore_errors=True)
            ev = {"kind": "scan_path", "locs": [], "sums": [], "report_written": False, "scenario": [fname, "scan", str(rootform)]}
            try:
                with contextlib.redirect_stdout(io.StringIO()):
                    scan_command(Path(rootform))
                rp = root / ".codelimit_cache" / "codelimit.json"
                if rp.exists():
                    doc = json.loads(rp.read_text())
                    ev["report_written"] = True
                    for v in doc["codebase"]["files"].values():
                        ev["locs"].append(v["loc"])
                        ev["sums"].append(sum(m["value"] for m in v["measurements"]))
                ev["exc"] = ""
            except Exception as e:  # noqa: BLE001
                ev["exc"] = type(e).__name__
            out.append(ev)
        return out
    finally:
        os.chdir("/")
        shutil.rmtree(top, ignore_errors=True)


def tree_totals(items):
    """Write the given (language, content) inputs into a scratch tree, scan_path it, return file totals."""
    from codelimit.common.Configuration import Configuration
    from codelimit.common.Scanner import scan_path

    top = scratch_dir("c05tree")
    try:
        for n, (lang, data) in enumerate(items):
            d = top / f"d{n % 7}"
            d.mkdir(exist_ok=True)
            stem, ext = LANGS[lang]["file"].rsplit(".", 1)
            f = d / f"{stem}{n}.{ext}"
            f.write_bytes(data if isinstance(data, bytes) else data.encode("utf-8", "surrogatepass"))
        Configuration.exclude = []
        cb = scan_path(top)
        locs, sums = [], []
        for e in cb.files.values():
            locs.append(e.loc)
            sums.append(sum(m.value for m in e.measurements()))
        return {"locs": locs, "sums": sums, "report_written": True}
    finally:
        shutil.rmtree(top, ignore_errors=True)


def run_generic(prop: str, tier: str) -> int:
    b = BOUNDS[tier]
    t = Timer()
    rep = Reporter(prop)
    wd = workdir(prop)
    rng = random.Random(seed() * 71 + 3)
    bases, pm = base_programs(wd, b["bases"], rng, harvest=2 if tier == "quick" else 8)
    nb = max(len(v) for v in bases.values())
    consts = {"NBases": nb, "MaxPos": b["maxpos"], "MaxOps": 1, "OpKinds": POSOPS.replace("}", ', "Soup", "DeepNest", "Bytes"}'), "SoupAlphabet": 19, "MaxSoup": b["soup"], "NestDepths": b["nest"],
              "ByteKinds": "{" + ", ".join(str(i) for i in range(1, len(BYTE_KINDS) + 1)) + "}"}
    m = tlc.run("Mutations", tlc.cfg(consts, spec="Spec", invariants=["ChainBounded"]), wd, dump=True)
    muts = [(st["base"], [dict(o) for o in st["ops"]]) for st in read_dump(m.dump)]
    states, trans = m.distinct + pm.distinct, m.transitions + pm.transitions
    if b["chains"]:
        c2 = dict(consts, MaxPos=3, MaxOps=2, OpKinds=POSOPS.replace("}", ', "Bytes"}'), MaxSoup=1)
        m2 = tlc.run("Mutations", tlc.cfg(c2, spec="Spec", invariants=["ChainBounded"]), wd, dump=True, cfgname="Mutations_chains.cfg")
        muts += [(st["base"], [dict(o) for o in st["ops"]]) for st in read_dump(m2.dump) if len(st["ops"]) == 2]
        states += m2.distinct
        trans += m2.transitions
    # bind to the languages
    jobs, meta = [], []
    want_tables = prop == "C05"
    n = 0
    for lang in TRAITS:
        bl = bases[lang]
        for (bi, ops) in muts:
            if bi == 0:
                if ops and ops[0]["k"] in ("Prefix", "Suffix"):
                    continue
                texts = mutate(lang, "", ops) if ops else [""]
            else:
                if bi > len(bl):
                    continue
                texts = mutate(lang, bl[bi - 1], ops)
            for x in texts:
                n += 1
                table = want_tables and (n % b["tables_every"] == 0)
                jobs.append((lang, x, table))
                meta.append((lang, bi, ops))
    if want_tables:  # well-formed inputs must be well-formed too: bases and corpus
        for lang in TRAITS:
            for x in bases[lang]:
                jobs.append((lang, x, True))
                meta.append((lang, -1, []))
        for lang, path, text in corpus_files():
            jobs.append((lang, text, True))
            meta.append((lang, -2, [{"k": "corpus", "a": path.name}]))
        from ..langs import harvested_texts

        for lang, origin, text in harvested_texts():
            jobs.append((lang, text, True))
            meta.append((lang, -2, [{"k": "corpus", "a": origin}]))
    from ..langs import far_texts

    for lang, origin, text in far_texts():
        jobs.append((lang, text, want_tables))
        meta.append((lang, -2, [{"k": "corpus", "a": origin}]))
    res = pmap(observe_input, jobs, timeout=30, chunk=128)
    # a time-out is only reported if it reproduces with ten times the budget
    for k, r in enumerate(res):
        if r[0] == "timeout":
            res[k] = guarded(observe_input, jobs[k], 300)
    n_renamed = 0
    if want_tables:
        # the same bytes under another language's file name, scanned with the report of the first scan as cache:
        # what is reported for the renamed file must be well-formed for the language it has NOW
        from ..langs import file_safe, harvested_texts

        texts = [(lang, x) for lang in TRAITS for x in bases[lang]] + [(lang, tx) for lang, _o, tx in harvested_texts()]
        rj = [(la, lb, tx) for la, tx in texts if file_safe(tx) for lb in TRAITS if lb != la]
        rres = pmap(observe_renamed, rj, timeout=60, chunk=16)
        for j, r in zip(rj, rres):
            jobs.append((j[1], j[2], True))
            meta.append((j[1], -3, [{"k": "renamed_from", "a": j[0]}]))
            res.append(r)
        n_renamed = len(rj)
    events = [make_event(k, r) for k, r in enumerate(res)]
    log(f"[{prop}] G {len(muts)} mutation states x 7 languages -> {len(jobs)} inputs analysed ({n_renamed} of them renamed between two scans), {t.s()}s")
    cli_events, cli_meta = [], []
    if prop == "C03":
        nm = tlc.run("CheckNaming", tlc.cfg(spec="Spec"), wd, dump=True, coverage=False)
        namings = [tuple(st["nm"]) for st in read_dump(nm.dump)]
        states += nm.distinct
        trans += nm.transitions
        cjobs = [(fname, content, namings) for lang, files in NASTY.items() for fname, content in files]
        cres = pmap(cli_scenario, cjobs, timeout=600, chunk=1, workers=min(8, len(cjobs)))
        for job, r in zip(cjobs, cres):
            if r[0] != "ok":
                raise MachineryError(f"CLI scenario worker failed on {job[0]}: {r}")
            for ev in r[1]:
                scen = ev.pop("scenario")
                ev["id"] = len(events) + len(cli_events)
                if ev["kind"] == "check":
                    ev.setdefault("exit", -1)
                cli_events.append(ev)
                cli_meta.append(scen)
        log(f"[{prop}] CLI: {len(namings)} namings x {len(cjobs)} files -> {len(cli_events)} check / scan runs, {t.s()}s")
    if prop == "C05":
        # FileTotal: a tree of base / mutated files scanned through scan_path: loc = sum of the function lengths
        r = guarded(tree_totals, [(lang, jobs[k][1]) for k in range(0, len(jobs), max(1, len(jobs) // 400)) for lang in [jobs[k][0]]], 600)
        ev = {"id": len(events), "kind": "scan_path"}
        if r[0] == "ok":
            ev.update(exc="", **r[1])
        else:
            ev.update(exc=r[1] if r[0] == "exc" else "timeout", locs=[], sums=[], report_written=True)
        cli_events.append(ev)
        cli_meta.append(["<tree of %d sampled inputs>" % (len(r[1]["locs"]) if r[0] == "ok" else 0), "scan_path", "scratch"])
    rejected = accept(wd, events + cli_events, name=prop.lower() + "_trace")
    for k, clause in sorted(rejected.items()):
        if k < len(events):
            lang, bi, ops = meta[k]
            data = jobs[k][1]
            exc = events[k]["exc"]
            sig = {"clause": clause + (":" + exc if clause == "NormalReturn" else ""), "language": lang, "ops": [o["k"] for o in ops]}
            rep.fail(sig, {"kind": "input", "language": lang, "base": bi, "ops": ops, "data": data if isinstance(data, str) else None, "data_hex": data.hex() if isinstance(data, bytes) else None,
                           "observed": res[k][1] if res[k][0] == "ok" and len(json.dumps(res[k][1])) < 20000 else list(res[k])[:3]})
        else:
            ev, scen = cli_events[k - len(events)], cli_meta[k - len(events)]
            rep.fail({"clause": clause + (":" + ev["exc"] if clause == "NormalReturn" else ""), "scenario_file": scen[0], "how": scen[1], "cwd": scen[2] if scen[1] != "scan" else "work"},
                     {"kind": "cli", "scenario": scen, "event": ev})
    log(f"[{prop}] A accepted {len(events) + len(cli_events) - len(rejected)}/{len(events) + len(cli_events)} events, {t.s()}s")
    rc = rep.finish()
    with_tables = sum(1 for e in events if e.get("toks"))
    evidence.write(
        prop, tier, level="model_checking", wall_s=t.s(), violations=rep.n_violations,
        coverage={
            "states": states, "transitions": trans, "traces_validated_against_impl": len(events) + len(cli_events), "exhaustive": False,
            "samples": [{"language": meta[k][0], "base": meta[k][1], "ops": meta[k][2], "input_head": (jobs[k][1][:80] if isinstance(jobs[k][1], str) else jobs[k][1][:40].hex())} for k in (len(jobs) // 5, len(jobs) // 2, len(jobs) - 1)],
            "bounds": {"bases_per_language": {l: len(v) for l, v in bases.items()}, "abstract_positions": b["maxpos"], "soup_alphabet": 19, "max_soup": b["soup"], "nest_depths": b["nest"], "byte_kinds": BYTE_KINDS,
                       "chains_of_two": b["chains"], "mutation_states": len(muts), "inputs": len(jobs), "events_with_token_table": with_tables, "cli_events": len(cli_events)},
            "model": {"module": "Mutations.tla (+ CheckNaming.tla, Program.tla for the bases)", "actions": m.coverage},
            "acceptor": {"module": "MeasureTrace.tla / Measure.tla", "events": len(events) + len(cli_events), "rejected": len(rejected)},
            "model_drift": rep.drift, "known_findings_hit": sorted(rep.known),
        },
        assumptions=["abstract positions are folded onto each base by modulo, so every concrete token / line position of a base is hit when it has at most MaxPos+1 of them",
                     "a time-out (30 s) is reported only if it reproduces with ten times the budget", "bytes inputs are decoded through the scanner's own reader (Latin-1 fallback)"],
    )
    return rc


PROP = "C03"


def run(tier: str) -> int:
    return run_generic("C03", tier)


def replay_generic(prop, path):
    case = json.loads(open(path).read())
    wd = workdir(prop, "replay")
    if case["kind"] == "input":
        data = case["data"] if case.get("data") is not None else bytes.fromhex(case["data_hex"])
        r = guarded(observe_input, (case["language"], data, True), 300)
        print("input:", repr(data)[:400])
        print("observed:", str(r)[:600])
        rej = accept(wd, [make_event(0, r)], name="replay")
    else:
        fname, how, cwdform = case["scenario"][0], case["scenario"][1], case["scenario"][2]
        content = next(c for files in NASTY.values() for f, c in files if f == fname)
        namings = [(how, cwdform, case["scenario"][3])] if how != "scan" else []
        evs = guarded(cli_scenario, (fname, content, namings), 600)[1]
        for n, ev in enumerate(evs):
            ev.pop("scenario", None)
            ev["id"] = n
        print(evs)
        rej = accept(wd, [e for e in evs if (how == "scan") == (e["kind"] == "scan_path")], name="replay")
    if rej:
        print(f"VIOLATION property={prop} replay={path}")
        print("rejected:", rej)
        return 1
    print("accepted by MeasureTrace.tla")
    return 0


def replay(path: str) -> int:
    return replay_generic("C03", path)
