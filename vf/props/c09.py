"""C09 - cache-assisted scans equal fresh scans over any edit history.

M  Workspace.tla: files, exclusions, cache (none / ok(version, entries, honest) / damaged) and the commands, with
   Scan modelled as coded; TLC checks ScanEqualsFresh, ReuseOnlyIfUnchanged, ForeignNeverReused, RefuseForeign,
   ScanLeavesValidCache, DamagedCacheIsIgnored, CacheHonestUnlessTampered over every history up to L operations.
G  every history of length H (all operation kinds) is replayed on a real directory through scan_command /
   report_command / findings_command (vf/workspace.py); reuse is observed by tainting cache entries.
A  WorkspaceTrace.tla judges every replayed step (and random longer histories) on the projected abstract state
   before and after it, with the properties of Workspace.tla - not with the model's deterministic choice.
"""
from __future__ import annotations

import json
import random

from .. import evidence, tlc
from ..common import MachineryError, Timer, guarded, log, pmap, seed, workdir
from ..findings import Reporter
from ..tlaval import parse, read_dump
from ..workspace import CONTENTS, PATHS, replay_history

PROP = "C09"
ALL_OPS = '{"Write", "Delete", "Rename", "Touch", "Swap", "SetExcl", "ForeignVersion", "AlterChecksum", "AlterKey", "Taint", "Damage", "Scan", "Report", "Findings"}'
C09_OPS = '{"Write", "Delete", "Rename", "Touch", "Swap", "SetExcl", "ForeignVersion", "AlterChecksum", "AlterKey", "Taint", "Scan", "Report", "Findings"}'
PROPS = ["ScanEqualsFresh", "ReuseOnlyIfUnchanged", "ForeignNeverReused", "ScanLeavesValidCache", "DamagedCacheIsIgnored", "CacheHonestUnlessTampered"]
BOUNDS = {
    "quick": dict(model=dict(Paths='{"p1", "p2", "p3"}', Contents='{"c1", "c2"}', MaxOps=6), replay=dict(Paths='{"p1", "p2"}', Contents='{"c1", "c2"}', MaxOps=4), rnd=150, rnd_len=(8, 12)),
    "thorough": dict(model=dict(Paths='{"p1", "p2", "p3"}', Contents='{"c1", "c2", "c3"}', MaxOps=7), replay=dict(Paths='{"p1", "p2", "p3"}', Contents='{"c1", "c2"}', MaxOps=4), rnd=3000, rnd_len=(8, 16)),
}


def useful(hist):
    """A history is worth a real replay if it contains a command whose outcome is judged after some state was built."""
    ks = [h[0] for h in hist]
    return ks and ks[-1] in ("Scan", "Report", "Findings") and "Scan" in ks


def replay_job(hist):
    return replay_history([tuple(h) for h in hist])


def random_history(rng, n):
    """A random walk over operation kinds with cheap precondition tracking (no TLC involved)."""
    fs = {p: None for p in PATHS}
    cache = False
    hist = []
    while len(hist) < n:
        k = rng.choice(["Write", "Write", "Delete", "Rename", "Touch", "Swap", "SetExcl", "ForeignVersion", "AlterChecksum", "AlterKey", "Taint", "Scan", "Scan", "Scan", "Report", "Findings"])
        present = [p for p in fs if fs[p]]
        if k == "Write":
            p, c = rng.choice(list(PATHS)), rng.choice(list(CONTENTS))
            if fs[p] == c:
                continue
            fs[p] = c
            hist.append(("Write", p, c))
        elif k == "Delete" and present:
            p = rng.choice(present)
            fs[p] = None
            hist.append(("Delete", p))
        elif k == "Rename" and present:
            a = rng.choice(present)
            b = rng.choice([p for p in PATHS if p != a])
            fs[b], fs[a] = fs[a], None
            hist.append(("Rename", a, b))
        elif k == "Touch" and present:
            hist.append(("Touch", rng.choice(present)))
        elif k == "Swap" and len(present) >= 2:
            a, b = rng.sample(present, 2)
            if fs[a] == fs[b]:
                continue
            fs[a], fs[b] = fs[b], fs[a]
            hist.append(("Swap", a, b))
        elif k == "SetExcl":
            hist.append(("SetExcl", rng.choice([[], ["p1"], ["p2"], ["p3"], ["p1", "p3"]])))
        elif k == "Scan":
            cache = True
            hist.append(("Scan",))
        elif k in ("Report", "Findings") and cache:
            hist.append((k,))
        elif k in ("ForeignVersion", "Taint") and cache:
            hist.append((k,))
        elif k == "AlterChecksum" and cache and present:
            hist.append(("AlterChecksum", rng.choice(present), rng.choice(list(CONTENTS))))
        elif k == "AlterKey" and cache and present:
            a = rng.choice(present)
            hist.append(("AlterKey", a, rng.choice([p for p in PATHS if p != a])))
    return hist


def accept(wd, events, consts, name="c09_trace"):
    trace = wd / f"{name}.ndjson"
    with open(trace, "w") as f:
        for k, ev in enumerate(events):
            f.write(json.dumps({"id": k, **ev}) + "\n")
    cfg = tlc.cfg(dict(consts, Ops=ALL_OPS, FaultKinds='{"truncated"}', MaxOps=0), spec="TSpec", postcondition="AllConsumed")
    a = tlc.run("WorkspaceTrace", cfg, wd, workers=1, env={"TRACE_FILE": str(trace)}, coverage=False, cfgname=name + ".cfg", timeout=1800)
    if a.violated or a.rc != 0:
        raise MachineryError("WorkspaceTrace did not consume the whole trace:\n" + a.out[-1500:])
    out = {}
    for pr in a.prints:
        if pr.startswith('<<"REJECT"'):
            v = parse(pr)
            out[int(v[1])] = v[2]
    return out


def run(tier: str) -> int:
    b = BOUNDS[tier]
    t = Timer()
    rep = Reporter(PROP)
    wd = workdir(PROP)
    mc = dict(b["model"], Ops=ALL_OPS, FaultKinds='{"truncated", "shape"}')
    m = tlc.run("Workspace", tlc.cfg(mc, spec="Spec", invariants=["TypeOK", "RefuseForeign"], properties=PROPS, view="StateView"), wd)
    log(f"[C09] M Workspace: {m.distinct} states (histories <= {b['model']['MaxOps']}), {m.wall_s}s, violated={m.violated}")
    rc_ = dict(b["replay"], Ops=C09_OPS, FaultKinds='{"truncated"}')
    g = tlc.run("Workspace", tlc.cfg(rc_, spec="Spec", invariants=["TypeOK"]), wd, dump=True, cfgname="Workspace_replay.cfg", coverage=False)
    hists = []
    for st in read_dump(g.dump):
        h = [list(x) for x in st["hist"]]
        if len(h) == b["replay"]["MaxOps"] and useful(h):
            hists.append([tuple(x if not isinstance(x, list) else x for x in op) for op in h])
    # the version guard needs five steps to become observable (Write, Scan, ForeignVersion, Taint, Scan)
    vg = dict(Paths='{"p1"}', Contents='{"c1", "c2"}', MaxOps=5, Ops='{"Write", "Scan", "ForeignVersion", "Taint", "AlterChecksum", "Report", "Findings"}', FaultKinds='{"truncated"}')
    g2 = tlc.run("Workspace", tlc.cfg(vg, spec="Spec", invariants=["TypeOK"]), wd, dump=True, cfgname="Workspace_guard.cfg", coverage=False)
    n1 = len(hists)
    for st in read_dump(g2.dump):
        h = [list(x) for x in st["hist"]]
        if len(h) == 5 and useful(h):
            if any(op[0] == "ForeignVersion" for op in h):  # three ways of being another version
                for flavour in range(5):
                    hists.append([tuple(op) + ((flavour,) if op[0] == "ForeignVersion" else ()) for op in h])
            else:
                hists.append([tuple(op) for op in h])
    n2 = len(hists)
    # path identity: p1 and p3 have the same file name (a.py, pkg/sub/a.py); moving a file between them after a scan
    # must not let the scan reuse the entry of the other path (Write, Scan, Taint, Rename, Scan)
    pi = dict(Paths='{"p1", "p3"}', Contents='{"c1"}', MaxOps=5, Ops='{"Write", "Scan", "Taint", "Rename", "Delete"}', FaultKinds='{"truncated"}')
    g3 = tlc.run("Workspace", tlc.cfg(pi, spec="Spec", invariants=["TypeOK"]), wd, dump=True, cfgname="Workspace_path.cfg", coverage=False)
    for st in read_dump(g3.dump):
        h = [list(x) for x in st["hist"]]
        if len(h) == 5 and useful(h) and any(op[0] == "Taint" for op in h):
            hists.append([tuple(op) for op in h])
    n3 = len(hists)
    # altered entries: path and checksum kept, a field of the wrong JSON type (Write, Scan, Damage(illtyped), Scan)
    at = dict(Paths='{"p1", "p2"}', Contents='{"c1"}', MaxOps=4, Ops='{"Write", "Scan", "Damage"}', FaultKinds='{"illtyped"}')
    g4 = tlc.run("Workspace", tlc.cfg(at, spec="Spec", invariants=["TypeOK"]), wd, dump=True, cfgname="Workspace_types.cfg", coverage=False)
    for st in read_dump(g4.dump):
        h = [list(x) for x in st["hist"]]
        if len(h) == 4 and useful(h) and any(op[0] == "Damage" for op in h):
            for flavour in range(7):
                hists.append([tuple(op) + ((flavour,) if op[0] == "Damage" else ()) for op in h])
    # near twins: c4 is c1 behind a byte order mark (Write c1, Scan, Write c4, Scan and the other way round)
    n4 = len(hists)
    tw = dict(Paths='{"p1", "p2"}', Contents='{"c1", "c4"}', MaxOps=4, Ops='{"Write", "Scan"}', FaultKinds='{"truncated"}')
    g5 = tlc.run("Workspace", tlc.cfg(tw, spec="Spec", invariants=["TypeOK"]), wd, dump=True, cfgname="Workspace_twins.cfg", coverage=False)
    for st in read_dump(g5.dump):
        h = [list(x) for x in st["hist"]]
        if len(h) == 4 and useful(h) and len({op[2] for op in h if op[0] == "Write"}) == 2:
            hists.append([tuple(op) for op in h])
    # the same bytes under two languages (a.py, pkg/b.js): each entry is the analysis of the content as ITS language
    tl = dict(Paths='{"p1", "p4"}', Contents='{"c1", "c5"}', MaxOps=4, Ops='{"Write", "Scan", "Rename"}', FaultKinds='{"truncated"}')
    g6 = tlc.run("Workspace", tlc.cfg(tl, spec="Spec", invariants=["TypeOK"]), wd, dump=True, cfgname="Workspace_langs.cfg", coverage=False)
    for st in read_dump(g6.dump):
        h = [list(x) for x in st["hist"]]
        if len(h) in (3, 4) and useful(h) and any(op[0] in ("Write", "Rename") and "p4" in op for op in h):
            hists.append([tuple(op) for op in h])
    log(f"[C09] G near twins: {len(hists) - n4} histories that rewrite a file with the same text behind a byte order mark")
    log(f"[C09] G altered entries: {n4 - n3} histories with an ill-typed field in an entry whose path and checksum still match")
    log(f"[C09] G histories: {n1} of length {b['replay']['MaxOps']} over all operations, {n2 - n1} of length 5 for the version guard, {n3 - n2} of length 5 for path identity (same file name in two directories)")
    rng = random.Random(seed() * 13 + 9)
    rnd = [random_history(rng, rng.randint(*b["rnd_len"])) for _ in range(b["rnd"])]
    allh = hists + rnd
    res = pmap(replay_job, allh, timeout=300, chunk=8)
    events, owner = [], []
    for hi, (h, r) in enumerate(zip(allh, res)):
        if r[0] != "ok":
            raise MachineryError(f"workspace replay failed for {h}: {r}")
        for si, ev in enumerate(r[1]):
            if ev["exc"] == "precondition":
                continue
            events.append(ev)
            owner.append((hi, si))
    log(f"[C09] G replayed {len(hists)} exhaustive histories of length {b['replay']['MaxOps']} + {len(rnd)} random ones on real directories: {len(events)} steps, {t.s()}s")
    rejected = accept(wd, events, {"Paths": '{"p1", "p2", "p3", "p4"}', "Contents": '{"c1", "c2", "c3", "c4", "c5"}'})
    for k, clause in sorted(rejected.items()):
        hi, si = owner[k]
        h = allh[hi][: si + 1]
        rep.fail({"clause": clause, "ops": [op[0] for op in h][-4:]}, {"history": [list(op) for op in h], "step": events[k]})
    n_scans = sum(1 for e in events if e["op"][0] == "Scan")
    n_reuse = sum(1 for e in events if e["op"][0] == "Scan" and e["post"]["reused"])
    log(f"[C09] A accepted {len(events) - len(rejected)}/{len(events)} steps ({n_scans} scans, {n_reuse} with observed reuse), {t.s()}s")
    if m.violated and not rejected:
        raise MachineryError(f"Workspace.tla property {m.violated} violated but every replayed step satisfies the properties: the model is wrong")
    rc = rep.finish()
    evidence.write(
        PROP, tier, level="model_checking", wall_s=t.s(), violations=rep.n_violations,
        coverage={
            "states": m.distinct + g.distinct + g2.distinct, "transitions": m.transitions + g.transitions + g2.transitions, "traces_validated_against_impl": len(allh), "exhaustive": True,
            "samples": [{"history": [list(op) for op in allh[i]]} for i in (0, len(hists) // 2, len(allh) - 1)],
            "bounds": {"model": b["model"], "replayed_exhaustively": b["replay"], "histories_replayed": len(hists), "random_histories": len(rnd), "random_length": list(b["rnd_len"]),
                       "steps_judged": len(events), "scans": n_scans, "scans_with_observed_reuse": n_reuse},
            "model": {"module": "Workspace.tla", "properties": PROPS + ["RefuseForeign", "TypeOK"], "violated": [list(x) for x in m.violated], "actions": m.coverage},
            "acceptor": {"module": "WorkspaceTrace.tla", "events": len(events), "rejected": len(rejected)},
            "model_drift": rep.drift, "known_findings_hit": sorted(rep.known),
        },
        assumptions=["each command starts from an empty Configuration.exclude, as a fresh CLI process does", "contents are three Python texts with pairwise different analysis results; md5 is collision-free on them",
                     "tampering with a cached payload while keeping its checksum is outside the property (used only as the taint probe that makes reuse observable)"],
    )
    return rc


def replay(path: str) -> int:
    case = json.loads(open(path).read())
    h = [tuple(op) for op in case["history"]]
    r = guarded(replay_job, h, 300)
    if r[0] != "ok":
        print("replay failed:", r)
        return 2
    evs = [e for e in r[1] if e["exc"] != "precondition"]
    wd = workdir(PROP, "replay")
    rej = accept(wd, evs, {"Paths": '{"p1", "p2", "p3", "p4"}', "Contents": '{"c1", "c2", "c3", "c4", "c5"}'}, name="replay")
    for k, e in enumerate(evs):
        print(k, e["op"], "->", e["post"]["outcome"], e["exc"], "REJECTED " + rej[k] if k in rej else "")
    if rej:
        print(f"VIOLATION property={PROP} replay={path}")
        return 1
    print("accepted by WorkspaceTrace.tla")
    return 0
