"""C01 - exact function discovery, span and length on canonical programs.

G  Program.tla derives every canonical program within several bounded configurations (breadth: all header
   variants / statement kinds; depth: nesting up to 4; thresholds: body lengths across 15/30/60) and
   attaches the expected (first line, last line, own length) of every function per layout family.
   vf/render.py renders each program in each of the 7 languages (where the construct exists) and
   layouts; the real scan_file result is compared on (name, start line, start column, end line,
   end column, length), order and absence of extras.
M  TLC checks the oracle's sanity invariants (spans nested, 1 <= len <= span, ...) in every state.
"""
from __future__ import annotations

import json

from .. import evidence, tlc
from ..common import MachineryError, Timer, guarded, log, pmap, workdir
from ..findings import Reporter
from ..langs import analyse
from ..render import LAYOUTS, TRAITS, applicable, render
from ..tlaval import dump_chunks, parse_state

PROP = "C01"
ALLV = '{"plain", "prefix", "multi", "nextbrace", "bracegroup", "arrow", "throws", "lineabove", "tailwrap"}'
ALLS = '{"plain", "strdelim", "trailing", "inline", "mlstr"}'
ALLC = '{"if", "loop", "try"}'
ALLK = '{"F","K","C","E","A","X","S","M","B","R"}'
CONFIGS = {
    "quick": [
        dict(name="headers", MaxItems=5, MaxDepth=3, Reps="{1, 14}", FVariants=ALLV, SVariants='{"plain"}', CVariants='{"if"}', Allowed=ALLK, layouts=[0]),
        dict(name="statements", MaxItems=5, MaxDepth=3, Reps="{1}", FVariants='{"plain"}', SVariants=ALLS, CVariants=ALLC, Allowed=ALLK, layouts=[1]),
        dict(name="depth", MaxItems=10, MaxDepth=4, Reps="{1}", FVariants='{"plain"}', SVariants='{"plain"}', CVariants='{"if"}', Allowed='{"F","X","S"}', layouts=[0]),
        dict(name="mixed", MaxItems=6, MaxDepth=3, Reps="{2}", FVariants='{"plain", "arrow", "lineabove"}', SVariants='{"plain"}', CVariants='{"try"}', Allowed='{"F","K","C","E","X","S","R"}', layouts=[2]),
        dict(name="wrapped", MaxItems=8, MaxDepth=3, Reps="{1}", FVariants='{"plain", "prefix"}', SVariants='{"plain"}', CVariants='{"if"}', Allowed='{"F","K","W","X","S"}', layouts=[0]),
        # a call-wrapped class inside a method of a call-wrapped class: the nested header search two levels deep
        dict(name="wrapped2", MaxItems=11, MaxDepth=4, Reps="{1, 6}", FVariants='{"plain"}', SVariants='{"plain"}', CVariants='{"if"}', Allowed='{"F","K","W","X","S"}', layouts=[0], only_wrapped=2),
        dict(name="blocks", MaxItems=7, MaxDepth=3, Reps="{1}", FVariants='{"plain"}', SVariants='{"plain"}', CVariants='{"if"}', Allowed='{"F","K","G","X","S"}', layouts=[0]),
        dict(name="thresholds", MaxItems=4, MaxDepth=2, Reps="{1, 13, 14, 15, 16, 28, 29, 30, 31, 58, 59, 60, 61, 75}", FVariants='{"plain"}', SVariants='{"plain"}', CVariants='{"if"}', Allowed='{"F","X","S"}', layouts=[0]),
    ],
    "thorough": [
        dict(name="headers", MaxItems=6, MaxDepth=3, Reps="{1, 14}", FVariants=ALLV, SVariants='{"plain"}', CVariants='{"if"}', Allowed=ALLK, layouts=[0, 1]),
        dict(name="statements", MaxItems=6, MaxDepth=3, Reps="{1}", FVariants='{"plain", "prefix"}', SVariants=ALLS, CVariants=ALLC, Allowed=ALLK, layouts=[1, 2]),
        dict(name="depth", MaxItems=11, MaxDepth=5, Reps="{1}", FVariants='{"plain"}', SVariants='{"plain"}', CVariants='{"if"}', Allowed='{"F","X","S"}', layouts=[0, 2]),
        dict(name="mixed", MaxItems=7, MaxDepth=3, Reps="{2}", FVariants='{"plain", "arrow", "lineabove", "prefix"}', SVariants='{"plain"}', CVariants='{"try", "loop"}', Allowed='{"F","K","C","E","X","S","R"}', layouts=[1, 2]),
        dict(name="wrapped", MaxItems=9, MaxDepth=4, Reps="{1, 2}", FVariants='{"plain", "prefix", "multi"}', SVariants='{"plain"}', CVariants='{"if"}', Allowed='{"F","K","W","X","S"}', layouts=[0, 1]),
        dict(name="blocks", MaxItems=8, MaxDepth=3, Reps="{1, 2}", FVariants='{"plain", "prefix"}', SVariants='{"plain"}', CVariants='{"if"}', Allowed='{"F","K","G","C","X","S"}', layouts=[0, 1]),
        dict(name="thresholds", MaxItems=5, MaxDepth=2, Reps="{1, 2, 13, 14, 15, 16, 28, 29, 30, 31, 58, 59, 60, 61, 75}", FVariants='{"plain", "multi"}', SVariants='{"plain"}', CVariants='{"if"}', Allowed='{"F","X","S"}', layouts=[0]),
    ],
}


def show(prog) -> str:
    return " ".join((it["k"] + (":" + it["v"] if it["k"] in "FCEK" and it["v"] not in ("plain", "if") else "") + (({"strdelim": "*", "trailing": "~", "inline": "^"}.get(it["v"], "")) + str(it["n"]) if it["k"] == "S" else "")) for it in prog)


def expected_for(prog, exp, lang, layout):
    tr = TRAITS[lang]
    text, funcs = render(prog, lang, layout)
    e = exp[tr["fam"]]
    if isinstance(e, tuple):
        e = {i + 1: v for i, v in enumerate(e)}
    off = 1 if tr["wrap"] else 0
    want = []
    for rec in funcs:
        x = e[rec["item"]]
        if rec["start_line"] != x["start"] + off or rec["end_line"] != x["end"] + off:
            raise RenderMismatch(f"renderer and Program.tla disagree on lines for {lang}: {show(prog)}: renderer {rec}, spec {x}")
        want.append({"name": rec["name"], "sl": rec["start_line"], "sc": rec["start_col"], "el": rec["end_line"], "ec": rec["end_col"], "len": x["len"],
                     "alt_sc": rec["alt_start_col"], "parent": x["parent"], "item": rec["item"]})
    return text, want


class RenderMismatch(Exception):
    pass


def judge(want, got):
    """None if the analysis result is acceptable, else the name of the failing clause.
    `async` in front of a header may consistently be read as part of the header (then the line is not a
    prefix line of the parent) - both readings are accepted, nothing in between."""
    names_w = [w["name"] for w in want]
    names_g = [g[0] for g in got]
    if names_g != names_w:
        if sorted(names_g) == sorted(names_w):
            return "SourceOrder"
        missing = [n for n in names_w if n not in names_g]
        extra = [n for n in names_g if n not in names_w]
        if len(names_g) != len(set(names_g)):
            return "ReportedOnce"
        return "Missing" if missing and not extra else ("Extra" if extra and not missing else "MissingAndExtra")
    alt_children = {}  # parent item -> number of children read with the alternative header start
    for w, g in zip(want, got):
        if g[1] != w["sl"]:
            return "StartLine"
        if g[2] != w["sc"]:
            if w["alt_sc"] is not None and g[2] == w["alt_sc"]:
                alt_children[w["parent"]] = alt_children.get(w["parent"], 0) + 1
            else:
                return "StartColumn"
        if g[3] != w["el"]:
            return "EndLine"
        if g[4] != w["ec"]:
            return "EndColumn"
    for w, g in zip(want, got):
        if g[5] != w["len"] - alt_children.get(w["item"], 0):
            return "Length"
    return None


def analyse_chunk(arg):
    chunk, layouts = arg
    st = parse_state(chunk)
    if not st["done"]:
        return None
    prog = st["prog"]
    out = []
    keep_text = None
    for lang in TRAITS:
        if not applicable(prog, lang):
            continue
        for lay in layouts:
            text, want = expected_for(prog, st["exp"], lang, lay)
            try:
                got = analyse(lang, text)
                clause = judge(want, got)
            except RenderMismatch:
                raise
            except Exception as e:  # noqa: BLE001 - an observation about the code under test
                got, clause = repr(e), "NormalReturn:" + type(e).__name__
            out.append((lang, lay, clause, text if clause else None, want if clause else None, got if clause else None))
            if keep_text is None and lang in ("JavaScript", "Python", "Java", "C#", "TypeScript") and sum(1 for it in prog if it["k"] == "F") >= 2:
                keep_text = (lang, text)
    return {"prog": [dict(it) for it in prog], "results": out, "text": keep_text}


def record_scopes(arg):
    """Intermediates of the real build_scopes for ScopesTrace.tla (drift only). None if the internals moved."""
    lang, text = arg
    try:
        from codelimit.common.lexer_utils import lex
        from codelimit.common.scope import scope_utils as su
        from codelimit.common.source_utils import filter_tokens
        from ..langs import language, lexer_for

        L = language(lang)
        if not L.allow_nested_functions:
            return None
        tokens = lex(lexer_for(lang), text, False)
        code = filter_tokens(tokens)
        headers = L.extract_headers(code)
        blocks = L.extract_blocks(code, headers)
        scopes = su.build_scopes(tokens, L)
    except (ImportError, AttributeError):
        return None
    flat = []

    def walk(sc, parent):
        flat.append((sc, parent))
        me = len(flat)
        for ch in sc.children:
            walk(ch, me)

    for sc in scopes:
        walk(sc, 0)
    order = sorted(range(len(flat)), key=lambda k: flat[k][0].header.token_range.start)
    pos = {k: n + 1 for n, k in enumerate(order)}
    obs = []
    for k in order:
        sc, parent = flat[k]
        obs.append({"hs": sc.header.token_range.start, "he": sc.header.token_range.end, "bs": sc.block.start, "be": sc.block.end, "parent": pos[parent - 1] if parent else 0, "len": su.count_lines(sc, code)})
    hs = sorted([[h.token_range.start, h.token_range.end] for h in headers])
    bl = sorted([[b.start, b.end] for b in blocks], key=lambda b: (code[b[0]].location.line, code[b[0]].location.column))
    return {"headers": hs, "blocks": bl, "lines": [t.location.line for t in code], "scopes": obs, "nests": True}


def scopes_model(wd, tier, texts):
    """M: Scopes.tla model-checked; A: real intermediates recomputed by TLC (drift only)."""
    from ..tlaval import parse

    m = tlc.run("Scopes", tlc.cfg({"MaxLen": 7 if tier == "quick" else 9}, spec="Spec", invariants=["WellFormedResult", "LengthBoundsHold", "CanonicalResultIsTheObviousOne", "ScopesNestOrAreDisjoint"]), wd, cfgname="Scopes_run.cfg")
    res = pmap(record_scopes, texts, timeout=120, chunk=16)
    events = [r[1] for r in res if r[0] == "ok" and r[1] is not None and len(r[1]["lines"]) <= 2500]
    drift = []
    if events:
        trace = wd / "scopes_trace.ndjson"
        with open(trace, "w") as f:
            for k, ev in enumerate(events):
                f.write(json.dumps({"id": k, **ev}) + "\n")
        a = tlc.run("ScopesTrace", tlc.cfg({"MaxLen": 0}, spec="TSpec", postcondition="AllConsumed"), wd, workers=1, env={"TRACE_FILE": str(trace)}, coverage=False, cfgname="ScopesTrace_run.cfg", timeout=1800)
        if a.rc != 0 or a.violated:
            raise MachineryError("ScopesTrace did not consume the whole trace:\n" + a.out[-1200:])
        for pr in a.prints:
            if pr.startswith('<<"DRIFT"'):
                v = parse(pr)
                drift.append(f"build_scopes intermediates of recorded stream #{v[1]} differ from Scopes.tla: {v[2]}")
    return m, len(events), drift


def classify(prog, lang, clause):
    """Coarse, refactoring-stable signature of a failing canonical program."""
    depth = mx = 0
    st = []
    for it in prog:
        if it["k"] in "FKCAG":
            st.append(it["k"])
            mx = max(mx, st.count("F"))
        elif it["k"] == "X":
            st.pop()
    return {"clause": clause, "language": lang, "function_nesting": mx, "header_variants": sorted({it["v"] for it in prog if it["k"] == "F"}),
            "kinds": "".join(sorted({it["k"] for it in prog}))}


def run(tier: str) -> int:
    t = Timer()
    rep = Reporter(PROP)
    wd = workdir(PROP)
    tot_states = tot_trans = 0
    n_prog = n_analyses = 0
    per_cfg = []
    samples = []
    cover = {}
    scope_texts = []
    for cfg in CONFIGS[tier]:
        consts = {k: cfg[k] for k in ("MaxItems", "MaxDepth", "Reps", "FVariants", "SVariants", "CVariants", "Allowed")}
        m = tlc.run("Program", tlc.cfg(consts, spec="Spec", invariants=["Sane", "Balanced"]), wd, dump=True, cfgname=f"Program_{cfg['name']}.cfg")
        if m.violated:
            raise MachineryError(f"oracle sanity invariant violated in Program.tla ({cfg['name']}): {m.violated}")
        tot_states += m.distinct
        tot_trans += m.transitions
        for a, c in m.coverage.items():
            cover[a] = [cover.get(a, [0, 0])[0] + c[0], cover.get(a, [0, 0])[1] + c[1]]
        chunks = [c for c in dump_chunks(m.dump) if "done = TRUE" in c]
        if cfg.get("only_wrapped"):  # keep the programs this configuration exists for
            chunks = [c for c in chunks if c.count('"wrapped"') >= cfg["only_wrapped"]]
        res = pmap(analyse_chunk, [(c, cfg["layouts"]) for c in chunks], timeout=120, chunk=64)
        bad = 0
        na = 0
        for r in res:
            if r[0] != "ok":
                if r[0] == "exc" and r[1] == "RenderMismatch":
                    raise MachineryError(r[2])
                raise MachineryError(f"analysis worker failed: {r}")
            o = r[1]
            if o is None:
                continue
            n_prog += 1
            if o.get("text") and len(scope_texts) < 3000 and n_prog % 2 == 0:
                scope_texts.append(tuple(o["text"]))
            for (lang, lay, clause, text, want, got) in o["results"]:
                na += 1
                if clause:
                    bad += 1
                    rep.fail(classify(o["prog"], lang, clause), {"language": lang, "layout": lay, "program": show(o["prog"]), "items": o["prog"], "text": text, "expected": want, "observed": got})
            if len(samples) < 3 and len(o["prog"]) >= 4 and o["results"]:
                samples.append({"config": cfg["name"], "program": show(o["prog"]), "languages": sorted({x[0] for x in o["results"]})})
        n_analyses += na
        per_cfg.append({"config": cfg["name"], "constants": consts, "layouts": cfg["layouts"], "states": m.distinct, "programs": len(chunks), "analyses": na, "disagreements": bad})
        log(f"[C01] {cfg['name']}: {m.distinct} states, {len(chunks)} complete programs, {na} analyses, {bad} disagreements, {t.s()}s")
    # the implementation-shaped model of the Python suite finder, bound to the real extract_blocks
    from .. import pysuite

    ps = pysuite.run(wd, rep, tier, t)
    tot_states += ps["states"]
    tot_trans += ps["transitions"]
    n_analyses += ps["replayed"]
    # the implementation-shaped model of pairing / folding / counting, bound to the real intermediates (drift only)
    from ..langs import corpus_files

    sm, n_sc, sdrift = scopes_model(wd, tier, scope_texts[:400] + [(l, t_) for l, _p, t_ in corpus_files()])
    if sm.violated:
        raise MachineryError(f"Scopes.tla invariant violated: {sm.violated} (the model of the repaired code must satisfy them)")
    for d in sdrift:
        rep.model_drift(d)
    tot_states += sm.distinct
    tot_trans += sm.transitions
    log(f"[C01] Scopes.tla: {sm.distinct} abstract token sequences model-checked; {n_sc} recorded build_scopes intermediates recomputed by TLC, {len(sdrift)} drift, {t.s()}s")
    rc = rep.finish()
    evidence.write(
        PROP, tier, level="model_checking", wall_s=t.s(), violations=rep.n_violations,
        coverage={
            "states": tot_states, "transitions": tot_trans, "traces_validated_against_impl": n_analyses + n_sc, "exhaustive": True,
            "python_suites": ps["detail"],
            "scopes_model": {"module": "Scopes.tla / ScopesTrace.tla", "abstract_sequences": sm.distinct, "recorded_intermediates": n_sc, "drift": len(sdrift)},
            "samples": samples or [{"note": "no program with >= 4 items in this run"}],
            "programs": n_prog, "configurations": per_cfg, "languages": list(TRAITS), "layouts": LAYOUTS,
            "model": {"module": "Program.tla", "invariants": ["Sane", "Balanced"], "actions": cover},
            "model_drift": rep.drift, "known_findings_hit": sorted(rep.known),
        },
        assumptions=["the canonical fragment is the grammar of Program.tla as rendered by vf/render.py (constructs the header patterns do not claim are never generated)",
                     "expected lines come from Program.tla, the two columns from the renderer's construction knowledge; rendered line numbers are asserted to equal the specification's",
                     "`async` in front of def/function may consistently be read as part of the header or as a prefix token of the parent"],
    )
    return rc


def replay(path: str) -> int:
    case = json.loads(open(path).read())
    if case.get("kind") == "pysuite":
        from .. import pysuite

        if pysuite.replay_case(case):
            print(f"VIOLATION property={PROP} replay={path}")
            return 1
        print("agrees with PySuite.tla")
        return 0
    lang = case["language"]
    got = guarded(lambda _: analyse(lang, case["text"]), None, 60)
    print(case["text"])
    print("expected:", [(w["name"], w["sl"], w["sc"], w["el"], w["ec"], w["len"]) for w in case["expected"]])
    print("observed:", got)
    clause = judge(case["expected"], [tuple(x) for x in got[1]]) if got[0] == "ok" else "NormalReturn"
    if clause:
        print(f"VIOLATION property={PROP} replay={path}")
        print("failing clause:", clause)
        return 1
    print("agrees with Program.tla")
    return 0
