"""C16 - token positions are faithful to the source text.

M  Lexing.tla: the offset -> (line, column) loop of lex and the filter rules over every text <= N over
   {newline, blank, other} and (through the VIEW) every loop state; invariants = the property.
G  a witness tokenisation for every loop state is replayed through the real lex() with a stub lexer
   that yields exactly TLC's tokens; locations, kept set and text-at-location are compared.
A  LexTrace.tla: the real Pygments lexers of the 7 languages on the vendored corpus and on synthetic
   texts (tabs, CRLF, non-ASCII, multi-line tokens, no trailing newline, empty lines); TLC checks each
   returned token against facts read off the raw text.
"""
from __future__ import annotations

import json
import random

from .. import evidence, tlc
from ..common import MachineryError, Timer, guarded, log, pmap, seed, workdir
from ..findings import Reporter
from ..langs import LANGS, corpus_files, harvested_texts, lexer_for
from ..tlaval import dump_chunks, parse, parse_state

PROP = "C16"
BOUNDS = {"quick": dict(N=4, synth=60, max_tokens=2500), "thorough": dict(N=5, synth=400, max_tokens=20000)}
CH = {"n": "\n", "s": " ", "x": "x"}
FF = ["\x0c", "\x0b", "\r", "\u2028", "\x85", "\x1c", "\u2029", "\x1e"]


def render_text(chars):
    return "".join(FF[i % len(FF)] if c == "f" else CH[c] for i, c in enumerate(chars))


class StubLexer:
    def __init__(self, toks):
        self.toks = toks

    def get_tokens_unprocessed(self, code):
        yield from self.toks


def replay_chunk(chunk):
    """One dumped Lexing.tla state with a complete tokenisation -> real lex()."""
    from pygments.token import Comment, Name, Text, Whitespace

    from codelimit.common.lexer_utils import lex

    st = parse_state(chunk)
    text = render_text(st["text"])
    if st["pos"] != len(text):
        return None
    keep = bool(st["keep"])
    types = {"code": Name, "comment": Comment.Single}
    raw, exp = [], []
    for n, t in enumerate(st["toks"]):
        val = text[t["off"]:t["off"] + t["len"]]
        ty = types.get(t["cls"]) or (Text if n % 2 == 0 else Whitespace)
        raw.append((t["off"], ty, val))
        blank = val == "" or val.isspace()
        if t["cls"] == "text" and blank:
            continue
        if t["cls"] == "comment" and not keep:
            continue
        exp.append((t["loc"][0], t["loc"][1], val))
    got = lex(StubLexer(raw), text, not keep)
    obs = [(g.location.line, g.location.column, g.value) for g in got]
    return {"text": text, "keep": keep, "raw": [(o, str(ty), v) for o, ty, v in raw], "expected": exp, "observed": obs, "same": obs == exp}


def cls_of(ttype):
    from pygments.token import Comment, Text

    if ttype in Comment:
        return "comment"
    if ttype in Text:
        return "text"
    return "code"


def observe_real(arg):
    """lex() of a real lexer on a text, aligned with the raw Pygments stream."""
    from codelimit.common.lexer_utils import lex

    lang, text, keep, max_tokens = arg
    lexer = lexer_for(lang)
    raw = list(lexer.get_tokens_unprocessed(text))
    got = lex(lexer, text, not keep)
    want = []
    for off, ty, val in raw:
        c = cls_of(ty)
        blank = val == "" or val.isspace()
        if (c == "text" and blank) or (c == "comment" and not keep):
            continue
        want.append((off, c, blank, val))
    toks = []
    if len(got) == len(want):
        for (off, c, blank, val), g in list(zip(want, got))[:max_tokens]:
            nlb = text.count("\n", 0, off)
            lnl = text.rfind("\n", 0, off)
            toks.append({"off": off, "len": len(val), "nlb": nlb, "lnl": lnl, "line": g.location.line, "col": g.location.column, "cls": cls_of(g.token_type),
                         "blank": g.value == "" or g.value.isspace(), "same": g.value == val and text[off:off + len(val)] == g.value})
    non_monotone = any(raw[k + 1][0] < raw[k][0] for k in range(len(raw) - 1))
    return {"returned": len(got), "expected": len(want), "toks": toks, "raw_tokens": len(raw), "lexer_offsets_non_monotone": non_monotone,
            "zero_length_raw": sorted({str(ty) for off, ty, val in raw if val == ""})}


FRAGS = {
    "common": ["\n", "\n\n", "  ", "\t", "x = 1", "foo(bar, 2)", "é = 'ü'", "\"a\\nb\"", "0x1F", " ", "\r\n", "名前 = 3", "\x0c", "\x0b", " \r ", "\u2028", "\x85", "\x1c", "\u2029", "a\x0cb", "'s\u2028t'", "x = 1 + \\\r\n  2\r\n", "'a\\\r\nb'", "\\\r\n"],
    "Python": ["def f(a):\n    return a\n", "# comment\n", "'''doc\nstring'''\n", "\"\"\"multi\nline\n\"\"\"", "x = \\\n  2\n", "class K:\n\tpass\n", "lambda q: q", "if a:\n  b\nelse:\n  c\n"],
    "brace": ["int f(int a) {\n  return a;\n}\n", "// line comment\n", "/* block\n comment */", "/** doc */\n", "if (a) {\n} else {\n}\n", "char *s = \"{\";", "'}'", "#include <x.h>\n", "#define X(a) \\\r\n  (a)\r\n", "a = b ? c : d;", "x => { return x; }\n",
              "`tpl ${a}\nline`", "function g() {\n}\n", "class K {\n  m() {}\n}\n"],
}


def synth_texts(rng, n):
    out = []
    for lang, d in LANGS.items():
        pool = FRAGS["common"] + (FRAGS["Python"] if lang == "Python" else FRAGS["brace"])
        out += [(lang, ""), (lang, "\n"), (lang, "\n\n\n"), (lang, "x"), (lang, "x\n"), (lang, " \n\t\n")]
        # a byte order mark / zero-width character in front of several lines: positions on LATER lines too
        body = "".join(pool[:6])
        out += [(lang, "\ufeff" + body), (lang, "\ufeff\n" + body), (lang, "\u200b" + body), (lang, "\ufeff" + body.rstrip("\n"))]
        # far out: columns and lines beyond 2^16 (a minified bundle on one line, a data table of many lines)
        # (the many lines sit inside one token: Pygments itself is quadratic in the number of consecutive blank lines for C, C++ and Java)
        tall = ('"""' + "\n" * 70000 + '"""\nx = 1\n  y = 2') if lang == "Python" else ("/*" + "\n" * 70000 + "*/ x = 1\n  y = 2")
        out += [(lang, " " * 70000 + "x = 1\ny = 2\n"), (lang, "s = \"" + "a" * 66000 + "\" + t\nz = 3\n"), (lang, tall)]
        for _ in range(n):
            k = rng.randint(1, 12)
            t = "".join(rng.choice(pool) for _ in range(k))
            if rng.random() < 0.3:
                t = t.rstrip("\n")
            out.append((lang, t))
    return out


def run(tier: str) -> int:
    b = BOUNDS[tier]
    t = Timer()
    rep = Reporter(PROP)
    wd = workdir(PROP)
    invs = ["LocationFaithful", "TextAtLocation", "KeptInStrictOrder", "NoWhitespaceKept", "CommentsKeptIffRequested", "LineWithinText"]
    m = tlc.run("Lexing", tlc.cfg({"MaxLen": b["N"]}, spec="Spec", invariants=invs, view="LoopView"), wd, dump=True)
    log(f"[C16] M Lexing: {m.distinct} loop states, {m.wall_s}s, violated={m.violated}")
    chunks = dump_chunks(m.dump)
    res = pmap(replay_chunk, chunks, timeout=30, chunk=512)
    replayed, g_bad = 0, 0
    samples = []
    for r in res:
        if r[0] != "ok":
            g_bad += 1
            rep.fail({"clause": "StubLexer:NormalReturn:" + (r[1] if r[0] == "exc" else "timeout")}, {"kind": "stub", "observed": list(r)})
            continue
        o = r[1]
        if o is None:
            continue
        replayed += 1
        if len(samples) < 2 and len(o["raw"]) >= 3:
            samples.append({"text": o["text"], "keep_comments": o["keep"], "lexer_tokens": o["raw"], "expected": o["expected"]})
        if not o["same"]:
            g_bad += 1
            clause = "StubLexer:KeptSet" if [x[2] for x in o["observed"]] != [x[2] for x in o["expected"]] else "StubLexer:Location"
            rep.fail({"clause": clause, "text": o["text"], "keep": o["keep"], "tokens": o["raw"]}, {"kind": "stub", **o})
    log(f"[C16] G replayed {replayed} complete tokenisations through lex() with a stub lexer, {g_bad} disagree, {t.s()}s")
    if m.violated and g_bad == 0:
        raise MachineryError(f"Lexing.tla invariant {m.violated} violated but the real lex agrees with the reference on every replayed tokenisation: model is wrong")

    rng = random.Random(seed() * 101 + 16)
    harvested = [(lang, text) for lang, _o, text in harvested_texts()]
    texts = [(lang, text) for lang, _, text in corpus_files()] + synth_texts(rng, b["synth"]) + harvested
    jobs = [(lang, text, keep, b["max_tokens"]) for lang, text in texts for keep in (False, True)]
    rres = pmap(observe_real, jobs, timeout=120, chunk=8)
    trace = wd / "c16_trace.ndjson"
    ntok = 0
    notes = set()
    with open(trace, "w") as f:
        for k, (job, r) in enumerate(zip(jobs, rres)):
            ev = {"id": k, "lang": job[0], "keep": job[2]}
            if r[0] == "ok":
                ev.update(exc="", returned=r[1]["returned"], expected=r[1]["expected"], toks=r[1]["toks"])
                ntok += len(r[1]["toks"])
                if r[1]["lexer_offsets_non_monotone"]:
                    notes.add(f"{job[0]}: Pygments offsets not monotone on one input")
                for z in r[1]["zero_length_raw"]:
                    notes.add(f"{job[0]}: zero-length raw token of type {z}")
            else:
                ev.update(exc=r[1] if r[0] == "exc" else "timeout", returned=0, expected=0, toks=[])
            f.write(json.dumps(ev) + "\n")
    a = tlc.run("LexTrace", tlc.cfg(spec="Spec", postcondition="AllConsumed"), wd, workers=1, env={"TRACE_FILE": str(trace)}, coverage=False, timeout=1200)
    if a.violated or a.rc != 0:
        raise MachineryError("LexTrace did not consume the whole trace:\n" + a.out[-1500:])
    rejected = {}
    for pr in a.prints:
        if pr.startswith('<<"REJECT"'):
            v = parse(pr)
            rejected[int(v[1])] = v[2]
    for k, clause in sorted(rejected.items()):
        lang, text, keep, _ = jobs[k]
        rep.fail({"clause": clause, "language": lang, "keep": keep, "text_sha": __import__("hashlib").sha1(text.encode()).hexdigest()[:10], "text_head": text[:60]},
                 {"kind": "real", "lang": lang, "keep": keep, "text": text if len(text) < 4000 else text[:4000], "observed_counts": list(rres[k]) if rres[k][0] != "ok" else {x: rres[k][1][x] for x in ("returned", "expected", "raw_tokens")}})
    log(f"[C16] A accepted {len(jobs) - len(rejected)}/{len(jobs)} real lexer runs ({ntok} returned tokens judged), {t.s()}s")

    rc = rep.finish()
    evidence.write(
        PROP, tier, level="model_checking", wall_s=t.s(), violations=rep.n_violations,
        coverage={
            "states": m.distinct, "transitions": m.transitions, "traces_validated_against_impl": replayed + len(jobs), "exhaustive": True,
            "samples": samples + [{"language": jobs[0][0], "text_head": jobs[0][1][:80], "tokens_judged": len(rres[0][1]["toks"]) if rres[0][0] == "ok" else 0}],
            "bounds": {"model_text_len": b["N"], "alphabet": ["newline", "blank", "other"], "corpus_files": len(corpus_files()), "synthetic_texts": len(texts) - len(corpus_files()) - len(harvested), "texts_harvested_from_repository_tests": len(harvested), "max_tokens_per_event": b["max_tokens"]},
            "model": {"module": "Lexing.tla", "invariants": invs, "view": "LoopView (ghost token history hidden)", "violated": [list(x) for x in m.violated], "actions": m.coverage},
            "generator": {"complete_tokenisations_replayed": replayed, "disagreements": g_bad},
            "acceptor": {"module": "LexTrace.tla", "events": len(jobs), "rejected": len(rejected), "tokens_judged": ntok},
            "lexer_notes": sorted(notes), "model_drift": rep.drift, "known_findings_hit": sorted(rep.known),
        },
        assumptions=["Pygments yields tokens in non-decreasing offset order (checked, see lexer_notes)", "a whitespace token is a token of type Text/Whitespace whose text is empty or all whitespace",
                     "newline counts / last newline offsets are read off the raw text by the harness (str.count / str.rfind)"],
    )
    return rc


def replay(path: str) -> int:
    case = json.loads(open(path).read())
    if case["kind"] == "stub":
        print("stub-lexer cases are re-derived by the model run; showing the recorded case:")
        print(json.dumps({k: case[k] for k in ("text", "keep", "raw", "expected", "observed") if k in case}, indent=1))
        from pygments.token import Comment, Name, Text
        from codelimit.common.lexer_utils import lex

        tymap = {"Token.Name": Name, "Token.Comment.Single": Comment.Single}
        raw = [(o, tymap.get(ty, Text), v) for o, ty, v in case["raw"]]
        got = [(g.location.line, g.location.column, g.value) for g in lex(StubLexer(raw), case["text"], not case["keep"])]
        bad = got != [tuple(x) for x in case["expected"]]
    else:
        r = guarded(observe_real, (case["lang"], case["text"], case["keep"], 5000), 60)
        wd = workdir(PROP, "replay")
        ev = {"id": 0, "lang": case["lang"], "keep": case["keep"], "exc": "", "returned": r[1]["returned"], "expected": r[1]["expected"], "toks": r[1]["toks"]} if r[0] == "ok" else \
            {"id": 0, "lang": case["lang"], "keep": case["keep"], "exc": "x", "returned": 0, "expected": 0, "toks": []}
        tr = wd / "t.ndjson"
        tr.write_text(json.dumps(ev) + "\n")
        a = tlc.run("LexTrace", tlc.cfg(spec="Spec", postcondition="AllConsumed"), wd, workers=1, env={"TRACE_FILE": str(tr)}, coverage=False)
        rej = [p for p in a.prints if p.startswith('<<"REJECT"')]
        print("rejected:", rej)
        bad = bool(rej)
    if bad:
        print(f"VIOLATION property={PROP} replay={path}")
        return 1
    print("agrees")
    return 0
