"""C18 - rendered report, diff and findings show exactly the stored numbers.

G  Render.tla: TLC enumerates pairs (current report, optional previous report) over 3 languages whose totals
   are drawn from figure profiles (languages added / removed / changed / unchanged, lines-of-code ties), and
   findings scenarios (0..13 functions above 30 lines, full or not, with or without repository).
   The reports are built as real Report objects through Codebase.add_file; the figure table given to TLC is
   read off those objects. Overview and findings are rendered by the real text and Markdown renderers on a
   recording console and parsed back by a tolerant parser.
A  RenderTrace.tla judges every rendering: one row per language, ordered by lines of code, figures, deltas
   (current minus previous exactly when they differ, for languages present in both and for totals), totals,
   text = Markdown cell by cell; findings: only functions above 30, longest first, at most 10 unless full,
   exact number of omitted rows.
"""
from __future__ import annotations

import io
import json
import re

from .. import evidence, tlc
from ..common import MachineryError, Timer, guarded, log, pmap, workdir
from ..findings import Reporter
from ..tlaval import dump_chunks, parse, parse_state

PROP = "C18"
LANGS = ["Python", "C", "Java"]
FIGS = {"F1": [[10, 35]], "F2": [[10], [61, 35, 31]], "F3": [[70]], "F4": [[45]], "F5": [[5], [5], [5]]}
CUR = ["F1", "F2", "F4"]
PREV = ["F1", "F2", "F3", "F5"]
BOUNDS = {"quick": dict(stride=1, counts="{0, 1, 9, 10, 11, 13}"), "thorough": dict(stride=1, counts="{0, 1, 2, 5, 9, 10, 11, 12, 13, 25}")}
_CELL = re.compile(r"^\**\s*(-?[\d,.]+)(?:\s*\(([+-][\d,.]+)\))?\s*\**$")


def build_report(assign, repo=False):
    from codelimit.common.Codebase import Codebase
    from codelimit.common.GithubRepository import GithubRepository
    from codelimit.common.Location import Location
    from codelimit.common.Measurement import Measurement
    from codelimit.common.report.Report import Report
    from codelimit.common.SourceFileEntry import SourceFileEntry

    cb = Codebase("/r")
    for lang in LANGS:
        fig = assign.get(lang, "absent")
        if fig == "absent":
            continue
        for i, lens in enumerate(FIGS[fig]):
            ms = [Measurement(f"fn_{lang}_{i}_{j}", Location(1 + 80 * j, 1), Location(2 + 80 * j, 2), L) for j, L in enumerate(lens)]
            # the stored line total is a figure of its own (C08): equal to, above or below the sum of the function lengths
            cb.add_file(SourceFileEntry(f"{lang.lower()}/f{i}.x", "s", lang, max(0, sum(lens) + (0, 4, -3)[i % 3]), ms))
    cb.aggregate()
    return Report(cb, GithubRepository("o", "n", branch="main") if repo else None)


def figure_table():
    out = {}
    for f in FIGS:
        t = build_report({"Python": f}).codebase.totals["Python"]
        out[f] = (t.files, t.functions, t.loc, t.hard_to_maintain, t.unmaintainable)
    return out


def num(x):
    return int(x.replace(",", "").replace(".", ""))


def cell(txt):
    m = _CELL.match(txt.strip())
    if not m:
        raise ParseError(f"cannot parse cell {txt!r}")
    return [num(m.group(1)), num(m.group(2)) if m.group(2) else 0]


class ParseError(Exception):
    pass


def parse_text_overview(out):
    rows, totals = [], []
    for ln in out.splitlines():
        parts = [p for p in re.split(r"\s{2,}", ln.strip()) if p]
        if len(parts) == 6 and parts[0] in LANGS:
            rows.append({"lang": parts[0], "cells": [cell(x) for x in parts[1:]]})
        elif len(parts) == 5 and all(_CELL.match(x) for x in parts) and rows:
            totals = [cell(x) for x in parts]
    return {"rows": rows, "totals": totals}


def parse_md_overview(out):
    rows, totals = [], []
    for ln in out.splitlines():
        if "|" not in ln or "---" in ln or "Language" in ln:
            continue
        parts = [p.strip() for p in ln.strip().strip("|").split("|")]
        parts = [p for p in parts if p != ""]
        if len(parts) != 6:
            continue
        head = parts[0].strip("* ")
        if head in LANGS:
            rows.append({"lang": head, "cells": [cell(x) for x in parts[1:]]})
        elif head == "Totals":
            totals = [cell(x) for x in parts[1:]]
    return {"rows": rows, "totals": totals}


def console():
    from rich.console import Console

    return Console(record=True, width=400, file=io.StringIO(), force_terminal=False, color_system=None)


def observe_overview(arg):
    from codelimit.common.report import format_markdown, format_text

    chunk = arg
    st = parse_state(chunk)
    cur = dict(st["cur"])
    prev = dict(st["prev"])
    hp = bool(st["hasPrev"])
    rc, rp = build_report(cur), (build_report(prev) if hp else None)
    con = console()
    format_text.print_totals(con, rc, rp)
    text = parse_text_overview(con.export_text())
    con = console()
    format_markdown.print_totals(con, rc, rp)
    md = parse_md_overview(con.export_text())
    return {"kind": "overview", "cur": cur, "prev": prev, "has_prev": hp, "text": text, "md": md}


def observe_overview_cli(arg):
    """The same pair through `codelimit report [--diff]`: both reports written to disk by ReportWriter and read back by the
    command.  variant 1: the comparison report carries the identifier of the current one (an edited or regenerated copy)."""
    import contextlib
    import os
    import shutil

    from codelimit.commands.report import report_command
    from codelimit.common.report.ReportFormat import ReportFormat
    from codelimit.common.report.ReportWriter import ReportWriter

    from ..common import per_process, scratch_dir

    chunk, variant = arg
    st = parse_state(chunk)
    cur, prev, hp = dict(st["cur"]), dict(st["prev"]), bool(st["hasPrev"])
    rc, rp = build_report(cur), (build_report(prev) if hp else None)
    if rp is not None and variant == 1:
        rp.uuid = rc.uuid
    d = per_process("c18-cli", lambda: scratch_dir("c18")) / "proj"
    shutil.rmtree(d, ignore_errors=True)
    (d / ".codelimit_cache").mkdir(parents=True)
    (d / ".codelimit_cache" / "codelimit.json").write_text(ReportWriter(rc).to_json())
    if rp is not None:
        (d / "previous.json").write_text(ReportWriter(rp, pretty_print=False).to_json())
    os.environ["COLUMNS"] = "400"
    outs = {}
    for name, fmt in (("text", ReportFormat.text), ("md", ReportFormat.markdown)):
        buf = io.StringIO()
        with contextlib.redirect_stdout(buf):
            report_command(d, fmt, (d / "previous.json") if rp is not None else None)
        outs[name] = buf.getvalue()
    return {"kind": "overview", "cur": cur, "prev": prev, "has_prev": hp, "text": parse_text_overview(outs["text"]), "md": parse_md_overview(outs["md"]), "via": "report_command", "same_uuid": variant == 1}


_LINE = re.compile(r"^(?P<path>\S+):(?P<line>\d+):(?P<col>\d+): (?P<len>\d+) (?P<sym>\S) (?P<name>\S+)\s*$")


def observe_findings(arg):
    from codelimit.common.Codebase import Codebase
    from codelimit.common.GithubRepository import GithubRepository
    from codelimit.common.Location import Location
    from codelimit.common.Measurement import Measurement
    from codelimit.common.report import format_markdown, format_text
    from codelimit.common.report.Report import Report
    from codelimit.common.SourceFileEntry import SourceFileEntry

    n, full, repo, variant = arg
    # n functions above 30 lines (with ties and values around 60), plus some at or below 30
    pool = [31, 61, 45, 45, 60, 100, 32, 31, 75, 33, 61, 90, 38, 31, 47, 52, 66, 31, 39, 200, 44, 41, 36, 35, 34]
    longs = [pool[(k * (variant + 1)) % len(pool)] for k in range(n)]
    shorts = [30, 29, 15, 1][: 2 + variant % 3]
    lengths = []
    cb = Codebase("/r")
    k = 0
    allv = longs + shorts
    # over 3 files: interleaved so that file order differs from length order (variant 0), everything above 30 lines
    # in ONE file (variant 1), or all but three of them in one file (variant 2) - the 10-row cut is per report
    if variant == 0:
        split = [allv[fi::3] for fi in range(3)]
    elif variant == 1:
        split = [longs, shorts[:1], shorts[1:]]
    else:
        split = [longs[3:] + shorts[:1], longs[:2], longs[2:3] + shorts[1:]]
    for fi in range(3):
        vals = split[fi]
        ms = [Measurement(f"fn{fi}_{j}", Location(1 + 300 * j, 1), Location(2 + 300 * j, 2), L) for j, L in enumerate(vals)]
        lengths += vals
        # the stored line total of a file is a figure of its own: the sum of its functions, nothing at all, a small number
        cb.add_file(SourceFileEntry(f"d/f{fi}.py", "s", "Python", (sum(vals), 0, 12)[(fi + variant) % 3], ms))
    cb.aggregate()
    rep = Report(cb, GithubRepository("o", "n", branch="main") if repo else None)
    con = console()
    format_text.print_findings(con, rep, full)
    tl, tmore = [], 0
    for ln in con.export_text().splitlines():
        m = _LINE.match(ln.strip())
        if m:
            tl.append(int(m.group("len")))
        m2 = re.search(r"(\d+) more rows", ln)
        if m2:
            tmore = int(m2.group(1))
    con = console()
    format_markdown.print_findings(rep, con, full)
    ml, mmore = [], 0
    for ln in con.export_text().splitlines():
        m2 = re.search(r"(\d+) more rows", ln)
        if m2:
            mmore = int(m2.group(1))
        if "|" not in ln or "---" in ln or "**" in ln:
            continue
        parts = [p.strip() for p in ln.strip().strip("|").split("|")]
        if repo and len(parts) == 3 and parts[1].isdigit():
            ml.append(int(parts[1]))
        elif not repo and len(parts) == 5 and parts[3].isdigit():
            ml.append(int(parts[3]))
    return {"kind": "findings", "lengths": lengths, "full": full, "repo": repo, "text": {"listed": tl, "more": tmore}, "md": {"listed": ml, "more": mmore}}


def run_module(counts, base="Render", name="RenderRun"):
    tbl = figure_table()
    fig = " @@ ".join('("%s" :> <<%s>>)' % (f, ", ".join(map(str, v))) for f, v in tbl.items())
    mod = "\n".join([f"---- MODULE {name} ----", "\\* GENERATED by vf/props/c18.py (figure table read off real Report objects)", f"EXTENDS {base}",
                     "cLangs == {" + ", ".join(f'"{l}"' for l in LANGS) + "}", "cCur == {" + ", ".join(f'"{f}"' for f in CUR) + "}", "cPrev == {" + ", ".join(f'"{f}"' for f in PREV) + "}",
                     "cFig == " + fig, "cCounts == " + counts, "===="]) + "\n"
    consts = "CONSTANTS\n  Langs <- cLangs\n  CurFigs <- cCur\n  PrevFigs <- cPrev\n  Fig <- cFig\n  FindingCounts <- cCounts\n"
    return mod, consts, tbl


def accept(wd, events, mod, consts, name="c18_trace"):
    mod = mod.replace("MODULE RenderRun", "MODULE RenderTraceRun").replace("EXTENDS Render\n", "EXTENDS RenderTrace\n")
    trace = wd / f"{name}.ndjson"
    with open(trace, "w") as f:
        for k, ev in enumerate(events):
            f.write(json.dumps({"id": k, **ev}) + "\n")
    cfg = "SPECIFICATION TSpec\n" + consts + "POSTCONDITION AllConsumed\nCHECK_DEADLOCK FALSE\n"
    a = tlc.run("RenderTraceRun", cfg, wd, workers=1, env={"TRACE_FILE": str(trace)}, coverage=False, extra={"RenderTraceRun.tla": mod}, cfgname=name + ".cfg", timeout=1800)
    if a.violated or a.rc != 0:
        raise MachineryError("RenderTrace did not consume the whole trace:\n" + a.out[-1500:])
    out = {}
    for pr in a.prints:
        if pr.startswith('<<"REJECT"'):
            v = parse(pr)
            out[int(v[1])] = v[2]
    return out


def run(tier: str) -> int:
    b = BOUNDS[tier]
    t = Timer()
    rep = Reporter(PROP)
    wd = workdir(PROP)
    mod, consts, tbl = run_module(b["counts"])
    cfg = "SPECIFICATION Spec\n" + consts + "INVARIANT TotalsAreSums\nINVARIANT DeltaZeroIffEqual\nCHECK_DEADLOCK FALSE\n"
    m = tlc.run("RenderRun", cfg, wd, extra={"RenderRun.tla": mod}, dump=True)
    if m.violated:
        raise MachineryError(f"reference sanity invariant violated in Render.tla: {m.violated}")
    chunks = dump_chunks(m.dump)
    ov = [c for c in chunks if "nfind = 0" in c and "full = FALSE" in c and "repo = FALSE" in c]
    fi = [parse_state(c) for c in chunks if c not in set(ov)]
    ov = ov[:: b["stride"]]
    res = pmap(observe_overview, ov, timeout=120, chunk=64)
    # a sample of the pairs also through the `report` command (files on disk, --diff), the comparison report with its own
    # identifier and with the identifier of the current report
    cli = [(c, v) for k, c in enumerate(ov[:: b.get("cli_stride", 7)]) for v in ((0, 1) if "hasPrev = TRUE" in c else (0,))]
    cres = pmap(observe_overview_cli, cli, timeout=120, chunk=16)
    fjobs = [(st["nfind"], bool(st["full"]), bool(st["repo"]), v) for st in fi for v in range(3)]
    fres = pmap(observe_findings, fjobs, timeout=120, chunk=8)
    events, meta = [], []
    for c, r in zip(ov, res):
        if r[0] == "ok":
            events.append(dict(r[1], exc=""))
        else:
            if r[0] == "exc" and r[1] == "ParseError":
                raise MachineryError(f"overview could not be parsed back: {r}")
            st = parse_state(c)
            events.append({"kind": "overview", "cur": dict(st["cur"]), "prev": dict(st["prev"]), "has_prev": bool(st["hasPrev"]), "text": {"rows": [], "totals": []}, "md": {"rows": [], "totals": []},
                           "exc": r[1] if r[0] == "exc" else "timeout"})
        meta.append(("overview", c))
    for (c, v), r in zip(cli, cres):
        if r[0] == "ok":
            events.append(dict({k: x for k, x in r[1].items() if k not in ("via", "same_uuid")}, exc=""))
        else:
            if r[0] == "exc" and r[1] == "ParseError":
                raise MachineryError(f"overview of the report command could not be parsed back: {r}")
            st = parse_state(c)
            events.append({"kind": "overview", "cur": dict(st["cur"]), "prev": dict(st["prev"]), "has_prev": bool(st["hasPrev"]), "text": {"rows": [], "totals": []}, "md": {"rows": [], "totals": []},
                           "exc": r[1] if r[0] == "exc" else "timeout"})
        meta.append(("overview-cli", (c, v)))
    for j, r in zip(fjobs, fres):
        if r[0] == "ok":
            events.append(dict(r[1], exc=""))
        else:
            events.append({"kind": "findings", "lengths": [], "full": j[1], "repo": j[2], "text": {"listed": [], "more": 0}, "md": {"listed": [], "more": 0}, "exc": r[1] if r[0] == "exc" else "timeout"})
        meta.append(("findings", j))
    log(f"[C18] G {m.distinct} states: {len(ov)} report pairs (+ {len(cli)} through the report command) and {len(fjobs)} findings scenarios rendered in text and Markdown, {t.s()}s")
    rejected = accept(wd, events, mod, consts)
    for k, clause in sorted(rejected.items()):
        ev = events[k]
        if ev["kind"] == "overview":
            shape = sorted({("both" if ev["has_prev"] and ev["prev"][l] != "absent" and ev["cur"][l] != "absent" else "added" if ev["cur"][l] != "absent" and ev["has_prev"] else "cur") for l in LANGS if ev["cur"][l] != "absent"})
            via = {"via": "report_command", "same_identifier": bool(meta[k][1][1])} if meta[k][0] == "overview-cli" else {}
            rep.fail(dict({"clause": clause, "has_previous": ev["has_prev"], "language_kinds": shape}, **via), {"event": ev, "figures": tbl, **via})
        else:
            rep.fail({"clause": clause, "full": ev["full"], "repository": ev["repo"], "findings": len([x for x in ev["lengths"] if x > 30])}, {"event": ev, "job": list(meta[k][1])})
    log(f"[C18] A accepted {len(events) - len(rejected)}/{len(events)} renderings, {t.s()}s")
    rc = rep.finish()
    evidence.write(
        PROP, tier, level="model_checking", wall_s=t.s(), violations=rep.n_violations,
        coverage={
            "states": m.distinct, "transitions": m.transitions, "traces_validated_against_impl": len(events), "exhaustive": b["stride"] == 1,
            "samples": [{k: v for k, v in events[i].items() if k in ("kind", "cur", "prev", "has_prev", "lengths", "full", "repo")} for i in (len(ov) // 2, len(events) - 1)],
            "bounds": {"languages": LANGS, "figure_profiles": tbl, "current_profiles": CUR, "previous_profiles": PREV, "report_pairs_rendered": len(ov), "pair_stride": b["stride"], "findings_counts": b["counts"],
                       "findings_scenarios": len(fjobs)},
            "model": {"module": "Render.tla (+ generated RenderRun.tla)", "actions": m.coverage},
            "acceptor": {"module": "RenderTrace.tla", "events": len(events), "rejected": len(rejected)},
            "model_drift": rep.drift, "known_findings_hit": sorted(rep.known),
        },
        assumptions=["LC_ALL=C (no thousands separators); recording console 400 columns wide", "for a language present only in the current report only the number is checked (whether a delta is shown is not constrained)",
                     "when a single language is present the totals row may be absent"],
    )
    return rc


def replay(path: str) -> int:
    case = json.loads(open(path).read())
    ev = case["event"]
    mod, consts, tbl = run_module("{0}")
    if ev["kind"] == "overview":
        from ..tlaval import to_tla

        chunk = "\n".join(["/\\ cur = " + to_tla({k: v for k, v in ev["cur"].items()}).replace("[", "(").replace("]", ")").replace(" |-> ", '" :> ').replace("(", '("', 1), ""])
        # simpler: rebuild directly
        rc, rp = build_report(ev["cur"]), (build_report(ev["prev"]) if ev["has_prev"] else None)
        from codelimit.common.report import format_markdown, format_text

        con = console()
        format_text.print_totals(con, rc, rp)
        txt = con.export_text()
        con2 = console()
        format_markdown.print_totals(con2, rc, rp)
        print(txt)
        print(con2.export_text())
        new = {"kind": "overview", "cur": ev["cur"], "prev": ev["prev"], "has_prev": ev["has_prev"], "text": parse_text_overview(txt), "md": parse_md_overview(con2.export_text()), "exc": ""}
    else:
        r = guarded(observe_findings, tuple(case["job"]), 120)
        print(r)
        new = dict(r[1], exc="") if r[0] == "ok" else dict(ev, exc="x")
    wd = workdir(PROP, "replay")
    rej = accept(wd, [new], mod, consts, name="replay")
    if rej:
        print(f"VIOLATION property={PROP} replay={path}")
        print("rejected clause:", rej[0])
        return 1
    print("accepted by RenderTrace.tla")
    return 0
