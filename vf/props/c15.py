"""C15 - built-in header patterns are unambiguous on every token.

Extraction: vf/extract.py captures every expression the languages hand to find_all / starts_with,
builds the DFA with the code's own functions and probes every predicate -> AutomatonData.tla.
M  TokenAutomaton.tla: every reachable (automaton, state, depth vector) x every token class,
   invariant: at most one enabled transition (all ambiguous configurations are reported).
G  every reachable configuration's witness path is replayed into a real Pattern; then every token
   class is fed: no ValueError, successor state and counters agree with the model.
Also provides header_shapes() for C14 (HeaderCases.tla).
"""
from __future__ import annotations

import json

from .. import evidence, extract, tlc
from ..common import MachineryError, Timer, guarded, log, pmap, workdir
from ..findings import Reporter
from ..tlaval import parse, read_dump

PROP = "C15"
_AUTOS = None


def autos():
    global _AUTOS
    if _AUTOS is None:
        _AUTOS = extract.extract_all()
    return _AUTOS


def feed(arg):
    """Replay a witness path into a real Pattern, then feed one more class. Returns observation."""
    from codelimit.common.gsm.Pattern import Pattern

    ai, path, c, sub = arg
    a = autos()[ai]
    p = Pattern(0, a.dfa)
    toks = a.tokens_for(list(path) + [c], sub)
    for t in toks[:-1]:
        if p.consume(t) is None:
            return {"path": "dead"}
    try:
        r = p.consume(toks[-1])
    except ValueError as e:
        return {"amb": str(e)}
    if r is None:
        return {"next": 0}
    depths = {}
    for s in a.states:
        for pred, _ in s.transition:
            pi = a.pidx(pred)
            if pi in a.stateful and id(pred) in p.predicate_map:
                sp = extract.stateful_part(p.predicate_map[id(pred)])
                depths[pi] = [sp.depth, bool(getattr(sp, "satisfied", False))]
    return {"next": a.sidx(r), "depths": depths}


def detour(a, q, d):
    """Two classes (o, cl) that lead from configuration (q, d) back to (q, d) by way of a deeper nesting level, or None."""
    if not any(x[0] >= 1 for x in d.values()):
        return None
    for o in range(1, len(a.classes) + 1):
        en, nd = model_step(a, q, d, o)
        if len(en) != 1 or nd == d or any(x[0] >= extract.MAXD for x in nd.values()):
            continue
        q1 = en[0][2]
        for cl in range(1, len(a.classes) + 1):
            en2, nd2 = model_step(a, q1, nd, cl)
            if len(en2) == 1 and en2[0][2] == q and nd2 == d:
                return (o, cl)
    return None


def model_step(a, q, d, c):
    """The table semantics in Python (mirror of AutomatonSem.EnabledSet / NextD) for comparing.
    d[p] = (depth, satisfied)."""
    out = [t for t in a.trans if t[0] == q]
    opened = [t for t in out if a.open[(t[1], d[t[1]][0], d[t[1]][1])]]
    out = opened or out
    en = [t for t in out if a.acc[(t[1], d[t[1]][0], d[t[1]][1], c)][0]]
    nd = dict(d)
    for t in out:
        if t[1] in a.stateful:
            r = a.acc[(t[1], d[t[1]][0], d[t[1]][1], c)]
            nd[t[1]] = (max(-1, min(extract.MAXD, r[1])), r[2])
    return en, nd


def sig_amb(a, q, d, c):
    """Refactoring-stable signature of an ambiguous configuration: which predicates are enabled together
    on which token class (state numbers depend on hash order and are deliberately left out)."""
    en, _ = model_step(a, q, d, c)
    return {"clause": "AtMostOneTransition", "languages": a.language, "expression": a.desc,
            "enabled": sorted(extract.describe(a.preds[t[1] - 1]) for t in en), "token_class": list(a.classes[c - 1])}


SEARCH_TOKENS = [("Punctuation", "("), ("Punctuation", ")"), ("Punctuation", "{"), ("Punctuation", "}"), ("Punctuation", "=>"), ("Punctuation", ";"), ("Punctuation", ","),
                 ("Operator", "="), ("Operator", ":"), ("Operator", "<"), ("Operator", ">"), ("Name", "x"), ("Name.Function", "f"), ("Name.Other", "let"), ("Keyword", "const"),
                 ("Keyword", "function"), ("Keyword", "async"), ("Keyword", "def"), ("Keyword", "throws"), ("Keyword", "where"), ("Keyword.Declaration", "var"), ("Literal.String", "("),
                 ("Keyword.Type", "int"), ("Punctuation", "["), ("Punctuation", "]")]


def code_search(depth=8):
    """When the tables cannot be extracted (a predicate carries state the abstraction does not know), the question is put to
    the code alone: a bounded search over real Patterns - every header / follow-up expression of every language, every token
    sequence over a fixed alphabet up to `depth` that keeps the attempt alive, configurations told apart by the whole state
    of their predicates.  A ValueError('Multiple transitions') found this way is a real sequence of real tokens: a violation.
    Finding none decides nothing."""
    from pygments.token import string_to_tokentype

    from codelimit.common.gsm.Expression import expression_to_nfa, nfa_to_dfa
    from codelimit.common.gsm.Pattern import Pattern
    from codelimit.common.Location import Location
    from codelimit.common.Token import Token
    from codelimit.languages import Languages

    toks = [Token(Location(1, 1), string_to_tokentype(k), v) for k, v in SEARCH_TOKENS]
    by_ext = {"C": "f.c", "C++": "f.cpp", "C#": "f.cs", "Java": "f.java", "JavaScript": "f.js", "TypeScript": "f.ts", "Python": "f.py"}
    for lname in sorted(Languages.by_name):
        fn = by_ext.get(lname)
        if fn is None:
            continue
        for kind, expr in extract.capture_language(Languages.by_name[lname], fn, extract.SEEDS[fn]):
            dfa = nfa_to_dfa(expression_to_nfa(expr))

            def run_path(path):
                p = Pattern(0, dfa)
                for i in path:
                    if p.consume(toks[i]) is None:
                        return None
                return p

            def sig(p):
                parts = []
                for pred in p.predicate_map.values():
                    sp = extract.stateful_part(pred)
                    if sp is not None:
                        parts.append(tuple(sorted((a, b) for a, b in vars(sp).items() if isinstance(b, (bool, int, str, type(None))))))
                return (p.state.id, tuple(sorted(parts)))

            frontier, seen = [()], set()
            for _level in range(depth):
                nxt = []
                for path in frontier:
                    for i in range(len(toks)):
                        try:
                            p = run_path(path + (i,))
                        except ValueError as e:
                            return {"language": lname, "kind": kind, "expression": extract.describe(expr), "tokens": [list(SEARCH_TOKENS[j]) for j in path + (i,)], "error": str(e)}
                        if p is None:
                            continue
                        k = sig(p)
                        if k not in seen:
                            seen.add(k)
                            nxt.append(path + (i,))
                frontier = nxt
    return None


def run(tier: str) -> int:
    t = Timer()
    rep = Reporter(PROP)
    wd = workdir(PROP)
    try:
        A = autos()
    except MachineryError as e:
        if "carries state other than" not in str(e):
            raise
        hit = guarded(code_search, 8 if tier == "quick" else 10, 600)
        if hit[0] == "ok" and hit[1] is not None:
            h = hit[1]
            rep.fail({"clause": "AtMostOneTransition:CodeSearch", "languages": h["language"], "expression": h["expression"]}, {"kind": "code_search", **h})
            rc = rep.finish()
            evidence.write(PROP, tier, level="model_checking", wall_s=t.s(), violations=rep.n_violations,
                           coverage={"states": 1, "transitions": 1, "traces_validated_against_impl": 1, "exhaustive": False, "samples": [h],
                                     "note": "the tables could not be extracted (" + str(e) + "); the ambiguity was found by a bounded search over real Patterns"},
                           assumptions=["fallback: bounded code-side search, no model involved"])
            return rc
        raise
    data = extract.tla_module(A)
    cfg = tlc.cfg(spec="Spec", invariants=["TypeOK", "ReportAmbiguous"], view="Config")
    m = tlc.run("TokenAutomaton", cfg, wd, extra={"AutomatonData.tla": data}, dump=True)
    if m.violated:
        raise MachineryError(f"TokenAutomaton: {m.violated}\n{m.out[-800:]}")
    amb_model = []
    for p in m.prints:
        if p.startswith('<<"AMBIGUOUS"'):
            v = parse(p)
            amb_model.append((v[1], v[2], v[3], v[4], v[5]))
    configs = []
    for st in read_dump(m.dump):
        d = st["d"]
        d = {i + 1: tuple(x) for i, x in enumerate(d)} if isinstance(d, tuple) else {k_: tuple(v) for k_, v in dict(d).items()}
        configs.append((st["k"], st["q"], d, tuple(st["path"])))
    log(f"[C15] M TokenAutomaton: {len(A)} automata, {len(configs)} reachable configurations, {len(amb_model)} ambiguous in the model, {m.wall_s}s")

    # ---- G: every configuration x every class replayed into a real Pattern -------------------
    subs = [0] if tier == "quick" else [0, 1, 2]
    jobs, meta = [], []
    n_detours = 0
    for (k, q, d, path) in configs:
        a = A[k - 1]
        if any(x[0] >= extract.MAXD for x in d.values()):
            continue  # saturated abstract depth: the witness path realises exactly MAXD, handled below as well
        for c in range(1, len(a.classes) + 1):
            for sub in subs:
                jobs.append((k - 1, path, c, sub))
                meta.append((k, q, d, path, c))
        # the same configuration reached the long way round: a nested group opened and closed again behind the witness path
        # (two classes o, cl that lead from (q, d) back to (q, d) in the model) - what is enabled depends on the configuration,
        # not on how it was reached
        det = detour(a, q, d)
        if det is not None:
            n_detours += 1
            for c in range(1, len(a.classes) + 1):
                jobs.append((k - 1, tuple(path) + det, c, 0))
                meta.append((k, q, d, tuple(path) + det, c))
    res = pmap(feed, jobs, timeout=20)
    replayed = 0
    code_amb = 0
    for (k, q, d, path, c), r in zip(meta, res):
        a = A[k - 1]
        if r[0] != "ok":
            raise MachineryError(f"replay of witness path failed: {r}")
        o = r[1]
        if o.get("path") == "dead":
            raise MachineryError(f"witness path {path} of configuration {(k, q, d)} is not accepted by the real Pattern: model and code disagree on the automaton")
        replayed += 1
        en, nd = model_step(a, q, d, c)
        if "amb" in o:
            code_amb += 1
            rep.fail(sig_amb(a, q, d, c),
                     {"kind": "ambiguity", "automaton": a.info(), "path_classes": [list(a.classes[x - 1]) for x in path], "token_class": list(a.classes[c - 1]), "observed": o["amb"],
                      "auto_index": k - 1, "path": list(path), "class": c})
            if len(en) < 2:
                rep.model_drift(f"code raises on {(a.desc, q, d, c)} but the model enables {len(en)} transitions")
            continue
        if len(en) >= 2:
            # the model says ambiguous, the real Pattern did not raise: the model is wrong -> machinery
            raise MachineryError(f"model reports ambiguity at {(a.desc, q, d, a.classes[c - 1])} but the real Pattern accepts the token")
        exp_next = en[0][2] if en else 0
        if o["next"] != exp_next:
            raise MachineryError(f"model/code successor mismatch at {(a.desc, q, d, a.classes[c - 1])}: model {exp_next}, code {o['next']}")
        if en:
            for pi, dv in o["depths"].items():
                if (nd[pi][0], nd[pi][1]) != (max(-1, min(extract.MAXD, dv[0])), dv[1]):
                    raise MachineryError(f"model/code counter mismatch at {(a.desc, q, d, a.classes[c - 1])}: model {nd}, code {o['depths']}")
    if len(amb_model) > 0 and code_amb == 0:
        raise MachineryError("TokenAutomaton reports ambiguous configurations that the real Pattern does not reproduce")
    unfireable = unfireable_transitions(A, configs)
    log(f"[C15] G replayed {replayed} (configuration, class) pairs into real Patterns; {code_amb} raise 'Multiple transitions'; {t.s()}s")

    rc = rep.finish()
    evidence.write(
        PROP, tier, level="model_checking", wall_s=t.s(), violations=rep.n_violations,
        coverage={
            "states": m.distinct, "transitions": m.transitions, "traces_validated_against_impl": replayed, "exhaustive": True,
            "samples": [{"automaton": A[k - 1].desc, "state": q, "depths": d, "witness_path": [list(A[k - 1].classes[x - 1]) for x in path]} for (k, q, d, path) in configs[:: max(1, len(configs) // 4)][:5]],
            "automata": [a.info() for a in A],
            "reachable_configurations": len(configs),
            "ambiguous_configurations_model": len(amb_model),
            "ambiguous_in_code": code_amb,
            "unfireable_transitions": unfireable,
            "depth_range": [-1, extract.MAXD],
            "model": {"module": "TokenAutomaton.tla + generated AutomatonData.tla", "actions": m.coverage},
            "model_drift": rep.drift, "known_findings_hit": sorted(rep.known),
        },
        assumptions=["predicates depend on a token only through (kind, value) and on history only through one nesting counter (checked while probing)",
                     "acceptance table uniform beyond depth 2: " + str(all(a.uniform for a in A)),
                     "expressions are those extract_headers passes to find_all/starts_with on the seed programs of vf/extract.py"],
    )
    return rc


def unfireable_transitions(A, configs):
    fired = set()
    for (k, q, d, path) in configs:
        a = A[k - 1]
        for c in range(1, len(a.classes) + 1):
            en, _ = model_step(a, q, d, c)
            for tr in en:
                fired.add((k, tr))
    out = []
    for k, a in enumerate(A, 1):
        for tr in a.trans:
            if (k, tr) not in fired:
                out.append({"languages": a.language, "expression": a.desc, "transition": list(tr), "predicate": extract.describe(a.preds[tr[1] - 1])})
    return out


# ---------------------------------------------------------------------------------------------
# C14, header shapes


def search_real(arg):
    from codelimit.common.gsm.matcher import find_all

    ai, w, sub = arg
    a = autos()[ai]
    toks = a.tokens_for(list(w), sub)
    ms = find_all(a.expr, toks)
    return {"ms": [[m.start, m.end] for m in ms], "toks_ok": all(list(m.tokens) == toks[m.start:m.end] for m in ms)}


def header_shapes(wd, rep, K: int, tier: str):
    A = autos()
    data = extract.tla_module(A)
    cfg = tlc.cfg({"MaxLen": K}, spec="HSpec", invariants=["BalancedEnd", "ResultOrdered", "ResultInBounds", "ResultCovers"])
    h = tlc.run("HeaderCases", cfg, wd, extra={"AutomatonData.tla": data}, dump=True, cfgname="HeaderCases_run.cfg")
    if h.violated:
        # a property of the extracted automata themselves (design level): report with TLC's trace
        st = tlc_last_state(h)
        rep.fail({"clause": "Header:" + h.violated[0][1], "state": str(st)[:300]}, {"kind": "header-model", "violated": h.violated, "trace": h.trace[-1:]})
    jobs, exp = [], []
    skipped_amb = 0
    for st in read_dump(h.dump):
        if st["amb"]:
            skipped_amb += 1  # some attempt meets two enabled transitions: judged by C15, not here
            continue
        jobs.append((st["a"] - 1, tuple(st["w"]), 0))
        exp.append([list(x) for x in st["v"]])
    res = pmap(search_real, jobs, timeout=20)
    differ = [i for i, (e, r) in enumerate(zip(exp, res)) if not (r[0] == "ok" and r[1]["ms"] == e and r[1]["toks_ok"])]
    # results that differ from the reference search are judged clause by clause by the acceptor
    trace = wd / "header_trace.ndjson"
    with open(trace, "w") as f:
        for n, i in enumerate(differ):
            ai, w, _ = jobs[i]
            r = res[i]
            ev = {"id": n, "a": ai + 1, "w": list(w)}
            if r[0] == "ok":
                ev.update(exc="", ms=r[1]["ms"], toks_ok=r[1]["toks_ok"])
            else:
                ev.update(exc=r[1] if r[0] == "exc" else "timeout", ms=[], toks_ok=True)
            f.write(json.dumps(ev) + "\n")
    bad = 0
    if differ:
        acc = tlc.run("HeaderTrace", tlc.cfg(spec="Spec", postcondition="AllConsumed"), wd, workers=1, env={"TRACE_FILE": str(trace)}, coverage=False,
                      extra={"AutomatonData.tla": data})
        if acc.violated or acc.rc != 0:
            raise MachineryError("HeaderTrace did not consume the whole trace:\n" + acc.out[-1500:])
        rejected = {}
        for p in acc.prints:
            if p.startswith('<<"REJECT"'):
                v = parse(p)
                rejected[int(v[1])] = v[2]
        for n, i in enumerate(differ):
            ai, w, _ = jobs[i]
            a, r = A[ai], res[i]
            if n not in rejected:
                rep.model_drift(f"find_all on {a.desc} / {w} = {r[1]['ms']} differs from the reference {exp[i]} but satisfies every clause")
                continue
            bad += 1
            clause = rejected[n] + (":" + r[1] if r[0] == "exc" else "")
            rep.fail({"clause": clause, "site": "header", "languages": a.language, "expression": a.desc, "classes": [list(a.classes[c - 1]) for c in w]},
                     {"kind": "header", "auto_index": ai, "w": list(w), "expected": exp[i], "observed": r[1] if r[0] == "ok" else list(r), "automaton": a.info()})
    samples = [{"header_automaton": A[jobs[i][0]].desc, "token_classes": [list(A[jobs[i][0]].classes[c - 1]) for c in jobs[i][1]], "reference_matches": exp[i]}
               for i in (len(jobs) // 2, len(jobs) - 1)] if jobs else []
    return {"automata": sum(1 for a in A if a.kind == "find_all"), "states": h.distinct, "transitions": h.transitions, "replayed": len(jobs), "samples": samples,
            "detail": {"module": "HeaderCases.tla + AutomatonSem.tla + generated AutomatonData.tla", "max_len": K, "sequences": len(jobs), "skipped_ambiguous_sequences": skipped_amb, "disagreements": bad,
                       "violated": [list(x) for x in h.violated], "alphabets": {a.desc: [list(c) for c in a.classes] for a in A if a.kind == "find_all"}}}


def tlc_last_state(r):
    return r.trace[-1] if r.trace else ""


def replay_header(path: str, prop: str) -> int:
    case = json.loads(open(path).read())
    A = autos()
    a = A[case["auto_index"]]
    r = guarded(search_real, (case["auto_index"], tuple(case["w"]), 0), 20)
    print("automaton:", a.desc, "classes:", [a.classes[c - 1] for c in case["w"]])
    print("expected:", case["expected"], "observed:", r)
    if r[0] == "ok" and r[1]["ms"] == case["expected"] and r[1]["toks_ok"]:
        print("agrees with the reference search")
        return 0
    print(f"VIOLATION property={prop} replay={path}")
    return 1


def replay(path: str) -> int:
    case = json.loads(open(path).read())
    if case.get("kind") == "code_search":
        hit = guarded(code_search, len(case["tokens"]), 1500)
        print("searched again:", hit)
        if hit[0] == "ok" and hit[1] is not None:
            print(f"VIOLATION property={PROP} replay={path}")
            return 1
        return 0
    r = guarded(feed, (case["auto_index"], tuple(case["path"]), case["class"], 0), 20)
    print("automaton:", case["automaton"]["expression"])
    print("path:", case["path_classes"], "then", case["token_class"])
    print("observed:", r)
    if r[0] == "ok" and "amb" in r[1]:
        print(f"VIOLATION property={PROP} replay={path}")
        return 1
    return 0
