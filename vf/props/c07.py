"""C07 - totals, profiles and the folder tree always agree with the measurements.

M  Codebase.tla: add_file / add_folder / aggregate as coded; the property's clauses as invariants, stated
   from per-file data only; every insertion order of every set of <= N files over the path universe.
G  every reachable state (= every behaviour prefix) is rebuilt with a real Codebase and compared with the
   model state (tree keys, ordered entries, profiles, totals, files order, grand totals, report JSON).
A  CodebaseTrace.tla: every disagreeing projection, all final states, and random larger codebases
   (<= 12 files, depth <= 5) are judged by TLC against the reference clauses (not the model's bookkeeping).
"""
from __future__ import annotations

import json
import random

from .. import evidence, tlc
from ..common import MachineryError, Timer, guarded, log, pmap, seed, workdir
from ..findings import Reporter
from ..tlaval import parse, read_dump

PROP = "C07"
BOUNDS = {
    "quick": dict(dirs='{"a", ".a"}', depth=2, fl="StdFileLang2", ml="StdMeasLists", n=3, rnd=1500),
    "thorough": dict(dirs='{"a", "b", ".a"}', depth=2, fl="StdFileLang3", ml="StdMeasLists", n=3, rnd=20000),
}
CONST = lambda b: {"DirNames": b["dirs"], "MaxDepth": b["depth"], "FileLang": None, "MeasLists": None, "MaxFiles": b["n"]}


def cfg_text(b, **kw):
    txt = tlc.cfg({"DirNames": b["dirs"], "MaxDepth": b["depth"], "MaxFiles": b["n"]}, **kw)
    return txt.replace("CONSTANTS\n", f"CONSTANTS\n  FileLang <- {b['fl']}\n  MeasLists <- {b['ml']}\n")


def key_of(k: str):
    return [] if k in ("./", ".") else [x for x in k.split("/") if x]


def project(files, agg):
    """Build the real Codebase and project it. files = [(path components, lang, lens)]."""
    from codelimit.common.Codebase import Codebase
    from codelimit.common.Location import Location
    from codelimit.common.Measurement import Measurement
    from codelimit.common.report.Report import Report
    from codelimit.common.report.ReportWriter import ReportWriter
    from codelimit.common.ScanTotals import ScanTotals
    from codelimit.common.SourceFileEntry import SourceFileEntry

    cb = Codebase("/root")
    cb.all_measurements()            # asked while it is still empty: an answer given then says nothing about later
    Report(cb).quality_profile()
    fresh = ScanTotals()
    early = None
    fileprof_ok = True
    for n, (path, lang, lens) in enumerate(files):
        # checksum and function names are functions of the content: two files with the same language and
        # measurement list are verbatim copies of each other (same checksum), as a copied module is
        ms = [Measurement(f"fn{i}", Location(10 * i + 1, 1), Location(10 * i + 2, 2), L) for i, L in enumerate(lens)]
        e = SourceFileEntry("/".join(path), "sum-" + lang + "-" + "-".join(map(str, lens)), lang, sum(lens), ms)
        fileprof_ok = fileprof_ok and sum(e.profile()) == e.loc
        cb.add_file(e)
        fresh.add(e)
        if n == 0:
            early = ReportWriter(Report(cb))  # a writer made while the codebase is still growing
    if agg:
        cb.aggregate()
    tree = []
    for k, folder in cb.tree.items():
        ents = [["folder" if e.is_folder() else "file", e.name[:-1] if e.is_folder() else e.name] for e in folder.entries]
        tree.append([key_of(k), ents, list(folder.profile)])
    totals = [[l, t.files, t.loc, t.functions, t.hard_to_maintain, t.unmaintainable] for l, t in cb.totals.items()]
    grand = []
    for st in (ScanTotals(cb.totals), fresh):
        grand.append([st.total_files(), st.total_functions(), st.total_loc(), st.total_hard_to_maintain(), st.total_unmaintainable()])
    ordered = [f for f in cb.files]
    doc = json.loads(ReportWriter(Report(cb)).to_json())["codebase"]
    doc_tree = [[key_of(k), [["folder", n[:-1]] if n.endswith("/") else ["file", n] for n in v["entries"]], v["profile"]] for k, v in doc["tree"].items()]
    doc_tot = [[l, v["files"], v["lines_of_code"], v["functions"], v["hard_to_maintain"], v["unmaintainable"]] for l, v in doc["totals"].items()]
    doc_same = doc_tree == tree and doc_tot == totals and list(doc["files"]) == ordered
    if agg:  # "the root's profile equals the whole codebase's": the profile the report computes from all measurements
        doc_same = doc_same and list(cb.tree["./"].profile) == list(Report(cb).quality_profile()) and cb.total_loc() == sum(sum(l) for _, _, l in files)
    # whatever the early writer emits (the codebase as it is now, or as it was when the writer was made) is ONE codebase:
    # its totals section agrees with its own files section, and its tree lists exactly those files
    if early is not None:
        ed = json.loads(early.to_json())["codebase"]
        want = {}
        for f in ed["files"].values():
            t = want.setdefault(f["language"], {"files": 0, "lines_of_code": 0, "functions": 0, "hard_to_maintain": 0, "unmaintainable": 0})
            t["files"] += 1
            t["lines_of_code"] += f["loc"]
            t["functions"] += len(f["measurements"])
            t["hard_to_maintain"] += sum(1 for m in f["measurements"] if 30 < m["value"] <= 60)
            t["unmaintainable"] += sum(1 for m in f["measurements"] if m["value"] > 60)
        listed = sorted(("" if k in ("./", ".") else k) + n for k, v in ed["tree"].items() for n in v["entries"] if not n.endswith("/"))
        doc_same = doc_same and ed["totals"] == want and listed == sorted(ed["files"])
    return {"tree": tree, "totals": totals, "grand": grand, "order": ordered, "fileprof_ok": fileprof_ok, "doc_same": doc_same}


def observe(arg):
    files, agg = arg
    return project(files, agg)


def observe_chunk(chunk):
    """Parse one dumped model state, rebuild it for real, compare (runs inside a pool worker)."""
    from ..tlaval import parse_state

    st = parse_state(chunk)
    files = [(tuple(f["path"]), f["lang"], list(f["lens"])) for f in st["files"]]
    agg = bool(st["aggregated"])
    o = project(files, agg)
    mt, mtot = model_projection(st)
    same = o["tree"] == mt and o["totals"] == mtot and o["order"] == ["/".join(p) for p, _, _ in files] and o["fileprof_ok"] and o["doc_same"]
    exp_grand = [len(files), sum(len(l) for _, _, l in files), sum(sum(l) for _, _, l in files)]
    same = same and all(g[:3] == exp_grand for g in o["grand"])
    return {"files": files, "agg": agg, "same": same, "obs": o}


def model_projection(st):
    tree = st["tree"]
    order = [list(k) for k in st["treeOrder"]]
    t = []
    for k in order:
        v = tree[tuple(k)]
        t.append([k, [list(e) for e in v["entries"]], list(v["profile"])])
    tot = [[x[0], x[1]["files"], x[1]["loc"], x[1]["functions"], x[1]["hard"], x[1]["unm"]] for x in st["totals"]]
    return t, tot


def event(k, files, agg, res):
    ev = {"id": k, "files": [[list(p), l, list(m)] for p, l, m in files], "agg": agg}
    if res[0] == "ok":
        o = res[1]
        ev.update(exc="", tree=o["tree"], totals=o["totals"], grand=o["grand"], fileprof_ok=o["fileprof_ok"], doc_same=o["doc_same"])
    else:
        ev.update(exc=res[1] if res[0] == "exc" else "timeout", tree=[[[], [], [0, 0, 0, 0]]], totals=[], grand=[], fileprof_ok=True, doc_same=True)
    return ev


def accept(wd, b, events, name="c07_trace"):
    trace = wd / f"{name}.ndjson"
    with open(trace, "w") as f:
        for ev in events:
            f.write(json.dumps(ev) + "\n")
    a = tlc.run("CodebaseTrace", cfg_text(b, spec="TSpec", postcondition="AllConsumed"), wd, workers=1, env={"TRACE_FILE": str(trace)}, coverage=False, cfgname=name + ".cfg")
    if a.violated or a.rc != 0:
        raise MachineryError("CodebaseTrace did not consume the whole trace:\n" + a.out[-1500:])
    out = {}
    for pr in a.prints:
        if pr.startswith('<<"REJECT"'):
            v = parse(pr)
            out[int(v[1])] = v[2]
    return out


def random_codebase(rng):
    names = ["a", "b", "src", "x.y", ".a", ".src", "..b", "a.", "_a", "[id]", "i", "a?", "ab", "s*"]  # + names that are glob patterns (and what they would match)  # dotted twins of ordinary names: folder keys are whole names
    fns = [("f.py", "Python"), ("g.c", "C"), ("h.js", "JavaScript"), ("h2.js", "JavaScript"), ("i.py", "Python"), ("Main.java", "Java"), ("Main2.java", "Java"), ("a_test.py", "Python"), ("src2.c", "C"), ("b.py", "Python")]  # names that start with a directory name
    n = rng.randint(0, 12)
    seen, files = set(), []
    while len(files) < n:
        if files and rng.random() < 0.3:  # a verbatim copy of a file that is already there: same folder or another, another name of the same language
            src, lang, lens = rng.choice(files)
            d = list(src[:-1]) if rng.random() < 0.7 else [rng.choice(names) for _ in range(rng.randint(0, 3))]
            fn = rng.choice([f for f, l in fns if l == lang])
            lens = list(lens)
        else:
            d = [rng.choice(names) for _ in range(rng.randint(0, 5))]
            fn, lang = rng.choice(fns)
            lens = [rng.choice([1, 2, 15, 16, 30, 31, 60, 61, 100]) for _ in range(rng.randint(0, 4))]
        p = tuple(d + [fn])
        if p in seen:
            if len(seen) > 40:
                break
            continue
        seen.add(p)
        files.append((p, lang, lens))
    return files


def run(tier: str) -> int:
    b = BOUNDS[tier]
    t = Timer()
    rep = Reporter(PROP)
    wd = workdir(PROP)
    invs = ["ModelStructureOK", "ModelProfilesOK", "ModelRootIsWhole", "ModelGrandTotals", "TreeOrderListsEveryFolderOnce"]
    m = tlc.run("Codebase", cfg_text(b, spec="Spec", invariants=invs, properties=["FilesKeepInsertionOrder"]), wd, dump=True)
    log(f"[C07] M Codebase: {m.distinct} states, {m.wall_s}s, violated={m.violated}")
    from ..tlaval import dump_chunks, parse_state

    chunks = dump_chunks(m.dump)
    cres = pmap(observe_chunk, chunks, timeout=30, chunk=512)
    jobs, res, differ = [], [], []
    for k, (ch, r) in enumerate(zip(chunks, cres)):
        if r[0] == "ok":
            jobs.append((r[1]["files"], r[1]["agg"]))
            res.append(("ok", r[1]["obs"]))
            if not r[1]["same"]:
                differ.append(k)
        else:
            st = parse_state(ch)
            jobs.append(([(tuple(f["path"]), f["lang"], list(f["lens"])) for f in st["files"]], bool(st["aggregated"])))
            res.append(r)
            differ.append(k)
    states = chunks
    log(f"[C07] G replayed {len(states)} states into real Codebase objects, {len(differ)} differ from the model state, {t.s()}s")
    # acceptor: disagreeing states + every aggregated state with MaxFiles files + random larger codebases
    finals = [k for k, (files, agg) in enumerate(jobs) if agg and len(files) == b["n"]]
    pick = sorted(set(differ) | set(finals[:: max(1, len(finals) // 3000)]))
    rng = random.Random(seed() * 17 + 7)
    rjobs = []
    for _ in range(b["rnd"]):
        rjobs.append((random_codebase(rng), rng.random() < 0.8))
    rres = pmap(observe, rjobs, timeout=30, chunk=128)
    events = [event(n, jobs[k][0], jobs[k][1], res[k]) for n, k in enumerate(pick)]
    off = len(events)
    events += [event(off + n, f, a, r) for n, ((f, a), r) in enumerate(zip(rjobs, rres))]
    rejected = accept(wd, b, events)
    for n, clause in sorted(rejected.items()):
        files, agg = jobs[pick[n]] if n < off else rjobs[n - off]
        r = res[pick[n]] if n < off else rres[n - off]
        rep.fail({"clause": clause, "files": [["/".join(p), l, list(m)] for p, l, m in files], "aggregated": agg},
                 {"files": [[list(p), l, list(m)] for p, l, m in files], "agg": agg, "observed": r[1] if r[0] == "ok" else list(r)})
    for n, k in enumerate(pick):
        if k in differ and n not in rejected:
            rep.model_drift(f"projection of the real Codebase for {jobs[k][0]} differs from Codebase.tla's state but satisfies every clause")
    log(f"[C07] A accepted {len(events) - len(rejected)}/{len(events)} projections ({len(rjobs)} random larger codebases), {t.s()}s")
    if m.violated and not rejected:
        raise MachineryError(f"Codebase.tla invariant {m.violated} violated but the real Codebase satisfies every clause on the replayed space: the model is wrong")
    rc = rep.finish()
    evidence.write(
        PROP, tier, level="model_checking", wall_s=t.s(), violations=rep.n_violations,
        coverage={
            "states": m.distinct, "transitions": m.transitions, "traces_validated_against_impl": len(states) + len(rjobs), "exhaustive": True,
            "samples": [{"files": [["/".join(p), l, list(x)] for p, l, x in jobs[k][0]], "aggregated": jobs[k][1]} for k in (len(jobs) // 2, len(jobs) - 1)]
            + [{"random": [["/".join(p), l, list(x)] for p, l, x in rjobs[0][0]]}],
            "bounds": {"dir_names": b["dirs"], "max_depth": b["depth"], "file_names": b["fl"], "measurement_lists": b["ml"], "max_files": b["n"], "random_codebases": len(rjobs), "random_files": "0..12", "random_depth": "0..5"},
            "model": {"module": "Codebase.tla", "invariants": invs + ["FilesKeepInsertionOrder"], "violated": [list(x) for x in m.violated], "actions": m.coverage},
            "generator": {"states_replayed": len(states), "differ_from_model_state": len(differ)},
            "acceptor": {"module": "CodebaseTrace.tla", "events": len(events), "rejected": len(rejected)},
            "model_drift": rep.drift, "known_findings_hit": sorted(rep.known),
        },
        assumptions=["files of one codebase have pairwise distinct paths (a set of files, as the property says)", "file loc = sum of its function lengths, as the scanner computes it",
                     "aggregate() is called exactly once, as scan and the report reader do"],
    )
    return rc


def replay(path: str) -> int:
    case = json.loads(open(path).read())
    files = [(tuple(p), l, list(m)) for p, l, m in case["files"]]
    r = guarded(observe, (files, case["agg"]), 30)
    print("files:", files, "aggregated:", case["agg"])
    print("observed:", r)
    wd = workdir(PROP, "replay")
    rej = accept(wd, BOUNDS["quick"], [event(0, files, case["agg"], r)], name="replay")
    if rej:
        print(f"VIOLATION property={PROP} replay={path}")
        print("rejected clause:", rej[0])
        return 1
    print("accepted by CodebaseTrace.tla")
    return 0
