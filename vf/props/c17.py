"""C17 - the suppression marker removes exactly the marked function.

M/G Edits.tla: reference Visible(Shift(base, script), marked); the state machine enumerates marking scripts
    (subsets of <= K function slots x marker variants, mixed with decoys) over abstract function slots.
A   EditTrace.tla accepts every (base scan, script, edited scan): the marked functions are omitted, every
    other function keeps name, span and length; decoys (the word later in the comment, the marker on the
    line above / below the name's line) change nothing.
Texts: canonical programs of Program.tla rendered in all 7 languages and the vendored corpus. Eligibility of a
name line is decided from the raw Pygments stream (vf/edits.py), not by codelimit.
"""
from __future__ import annotations

import json
import random

from .. import evidence, tlc
from ..common import MachineryError, Timer, guarded, log, pmap, seed, workdir
from ..edits import DECOY_VARIANTS, MARKER_VARIANTS, Doc
from ..findings import Reporter
from ..langs import LANGS, analyse, corpus_files, harvested_texts, lexer_for
from ..tlaval import parse, read_dump
from .c04 import accept, canonical_texts, meas_json

PROP = "C17"
BOUNDS = {"quick": dict(slots=3, variants=3, edits=2, programs=25, scripts_per_text=45, scripts_per_corpus=25),
          "thorough": dict(slots=4, variants=5, edits=3, programs=120, scripts_per_text=300, scripts_per_corpus=200)}


def name_lines(lang, text, base):
    """For every reported function the line of its name token (first Name token with that text at/after the
    start position), from codelimit's own lexing of the text (positions are C16's subject)."""
    from codelimit.common.lexer_utils import lex

    toks = [t for t in lex(lexer_for(lang), text, False) if t.is_name()]
    out = []
    for (n, sl, sc, el, ec, v) in base:
        cand = [t for t in toks if t.value == n and (t.location.line, t.location.column) >= (sl, sc) and (t.location.line, t.location.column) <= (el, ec)]
        out.append(cand[0].location.line if cand else None)
    return out


def eligible_slots(doc, base, nlines):
    """Indices of functions that neither enclose nor are nested in another reported function and whose name
    line may take a trailing comment and holds no other function's name."""
    out = []
    for i, m in enumerate(base):
        nl = nlines[i]
        if nl is None or nl not in doc.can_trail:
            continue
        related = False
        for j, o in enumerate(base):
            if j == i:
                continue
            if ((o[1], o[2]) <= (m[1], m[2]) and (m[3], m[4]) <= (o[3], o[4])) or ((m[1], m[2]) <= (o[1], o[2]) and (o[3], o[4]) <= (m[3], m[4])):
                related = True
        if related or sum(1 for x in nlines if x == nl) > 1:
            continue
        out.append(i)
    return out


def run_text(arg):
    lang, text, scripts, nslots, origin, sd = arg
    rng = random.Random(sd)
    try:
        base = analyse(lang, text)
    except Exception as e:  # noqa: BLE001
        return {"skipped": "base analysis raised " + type(e).__name__, "events": [], "origin": origin}
    doc = Doc(lang, text)
    nlines = name_lines(lang, text, base)
    elig = eligible_slots(doc, base, nlines)
    if not elig:
        return {"events": [], "unstable": 0, "unbound": len(scripts), "origin": origin, "functions": len(base)}
    slots = sorted(rng.sample(elig, min(nslots, len(elig))))
    fam = "#" if LANGS[lang]["line"] == "#" else "//"
    name_line_set = {x for x in nlines if x is not None}
    events, unstable, unbound = [], 0, 0
    for scr in scripts:
        concrete, tl, marked = [], [], []
        ok = True
        for e in scr:
            if e["at"] > len(slots):
                ok = False
                break
            fi = slots[e["at"] - 1]
            L = nlines[fi]
            if e["k"] == "mark":
                var = MARKER_VARIANTS[fam][(e["style"] - 1 + 3 * L) % len(MARKER_VARIANTS[fam])]  # the line rotates the variants
                # where on the name's line: behind the code, or (block comments) in front of it - left of the name
                if fam == "//" and (e["style"] + L) % 3 == 0:
                    concrete.append(("lead", L, ("/* nocl */", "/*NOCL*/", "/* NoCl generated */")[L % 3]))
                else:
                    concrete.append(("mark", L, "  " + var))
                tl.append({"k": "mark", "at": L, "style": e["style"]})
                marked.append(base[fi][0])
            else:  # decoy, three flavours by style
                flavour = (e["style"] - 1) % 3
                if flavour == 0:      # a comment on the name line that merely contains the word later
                    var = DECOY_VARIANTS[fam][(e["style"] - 1 + L) % len(DECOY_VARIANTS[fam])]  # the line rotates the variants
                    concrete.append(("decoy", L, "  " + var))
                    tl.append({"k": "decoy", "at": L, "style": e["style"]})
                elif flavour == 1:    # the real marker, but on the line below the name's line
                    below = L + 1
                    if below not in doc.can_trail or below in name_line_set:
                        ok = False
                        break
                    concrete.append(("decoy", below, "  " + MARKER_VARIANTS[fam][0]))
                    tl.append({"k": "decoy", "at": below, "style": e["style"]})
                else:                 # the real marker as a comment-only line above the name's line
                    if L not in doc.safe_insert:
                        ok = False
                        break
                    ln = doc.lines[L - 1]
                    concrete.append(("comment", L, ln[: len(ln) - len(ln.lstrip())] + MARKER_VARIANTS[fam][0]))
                    tl.append({"k": "comment", "at": L, "style": e["style"]})
        if not ok:
            unbound += 1
            continue
        # marker names must identify functions uniquely in this file
        if any(sum(1 for m in base if m[0] == n) > 1 for n in marked):
            unbound += 1
            continue
        new = doc.apply(concrete)
        if not doc.stable(new):
            unstable += 1
            continue
        try:
            got, exc = analyse(lang, new), ""
        except Exception as e:  # noqa: BLE001
            got, exc = [], type(e).__name__
        events.append({"prop": "C17", "lang": lang, "origin": origin, "base": meas_json(base), "script": tl, "marked": marked, "got": meas_json(got), "exc": exc,
                       "_text": text if len(text) < 3000 else None, "_new": new if len(new) < 3000 else None, "_concrete": concrete})
    # clause 1 alone for a function that ENCLOSES another: it is omitted, and nothing else is omitted with it (what happens to
    # spans and lengths of the others is not stated for this case, only who is reported)
    enclosing_bad = []
    for i, m in enumerate(base):
        nl = nlines[i]
        if nl is None or nl not in doc.can_trail or sum(1 for x in nlines if x == nl) > 1 or sum(1 for o in base if o[0] == m[0]) > 1:
            continue
        if not any(j != i and (m[1], m[2]) <= (o[1], o[2]) and (o[3], o[4]) <= (m[3], m[4]) for j, o in enumerate(base)):
            continue
        new = doc.apply([("mark", nl, "  " + MARKER_VARIANTS[fam][0])])
        if not doc.stable(new):
            continue
        try:
            got = analyse(lang, new)
        except Exception as e:  # noqa: BLE001
            enclosing_bad.append({"marked": m[0], "line": nl, "exc": type(e).__name__, "text": new if len(new) < 3000 else None})
            break
        want = sorted(o[0] for j, o in enumerate(base) if j != i)
        if sorted(g[0] for g in got) != want:
            enclosing_bad.append({"marked": m[0], "line": nl, "reported": sorted(g[0] for g in got), "expected": want, "text": new if len(new) < 3000 else None})
        break  # one enclosing function per text
    return {"events": events, "unstable": unstable, "unbound": unbound, "origin": origin, "functions": len(base), "enclosing_bad": enclosing_bad}


def run(tier: str) -> int:
    b = BOUNDS[tier]
    t = Timer()
    rep = Reporter(PROP)
    wd = workdir(PROP)
    rng = random.Random(seed() * 59 + 17)
    m = tlc.run("Edits", tlc.cfg({"NPoints": b["slots"], "Kinds": '{"mark", "decoy"}', "NStyles": b["variants"], "MaxEdits": b["edits"]}, spec="Spec",
                                 invariants=["ShiftPreservesOrderAndNesting"]), wd, dump=True)
    if m.violated:
        raise MachineryError(f"reference sanity invariant violated in Edits.tla: {m.violated}")
    scripts = [[dict(e) for e in st["script"]] for st in read_dump(m.dump) if st["script"]]
    canon, pm = canonical_texts(wd, b["programs"], rng)
    jobs = []
    for k, (lang, text) in enumerate(canon):
        jobs.append((lang, text, rng.sample(scripts, min(b["scripts_per_text"], len(scripts))), b["slots"], f"canonical#{k}", rng.randrange(1 << 30)))
    corpus = corpus_files()
    for lang, path, text in corpus:
        jobs.append((lang, text, rng.sample(scripts, min(b["scripts_per_corpus"], len(scripts))), b["slots"], f"corpus/{path.parent.name}/{path.name}", rng.randrange(1 << 30)))
    harvested = harvested_texts()
    for lang, origin, text in harvested:
        jobs.append((lang, text, rng.sample(scripts, min(b["scripts_per_corpus"], len(scripts))), b["slots"], origin, rng.randrange(1 << 30)))
    res = pmap(run_text, jobs, timeout=900, chunk=1)
    events, unstable, unbound, skipped_base = [], 0, 0, []
    n_enclosing = 0
    for job, r in zip(jobs, res):
        if r[0] != "ok":
            raise MachineryError(f"marker worker failed on {job[4]}: {r}")
        o = r[1]
        if "skipped" in o:
            skipped_base.append(f"{o['origin']}: {o['skipped']}")
            continue
        unstable += o["unstable"]
        unbound += o["unbound"]
        events.extend(o["events"])
        n_enclosing += 1 if "enclosing_bad" in o else 0
        for bad in o.get("enclosing_bad", []):
            rep.fail({"clause": "OmittedExactlyWhenMarked:EnclosingFunction", "language": job[0], "origin": o["origin"], "marked": bad["marked"]}, {"kind": "enclosing", "language": job[0], **bad})
    rejected = accept(wd, events, name="c17_trace")
    for k, clause in sorted(rejected.items()):
        ev = events[k]
        rep.fail({"clause": clause, "language": ev["lang"], "origin": ev["origin"], "script": [[e["k"], e["at"]] for e in ev["script"]], "marked": ev["marked"]},
                 {"language": ev["lang"], "origin": ev["origin"], "script": ev["_concrete"], "marked": ev["marked"], "base": ev["base"], "got": ev["got"], "text": ev["_text"], "edited": ev["_new"]})
    n_mark = sum(1 for e in events if e["marked"])
    log(f"[C17] A accepted {len(events) - len(rejected)}/{len(events)} marked / decoyed scans ({n_mark} with at least one marked function; skipped: {unstable} lexer-unstable, {unbound} unbound), {t.s()}s")
    rc = rep.finish()
    evidence.write(
        PROP, tier, level="model_checking", wall_s=t.s(), violations=rep.n_violations,
        coverage={
            "states": m.distinct + pm.distinct, "transitions": m.transitions + pm.transitions, "traces_validated_against_impl": len(events), "exhaustive": False,
            "samples": [{"language": e["lang"], "origin": e["origin"], "script": e["_concrete"], "marked": e["marked"]} for e in events[:: max(1, len(events) // 3)][:3]] or [{"note": "no event"}],
            "bounds": {"function_slots": b["slots"], "marker_variants": MARKER_VARIANTS, "decoy_variants": DECOY_VARIANTS, "max_simultaneous": b["edits"], "scripts_enumerated": len(scripts),
                       "canonical_texts": len(canon), "corpus_files": len(corpus), "texts_harvested_from_repository_tests": len(harvested)},
            "events_with_marked_function": n_mark,
            "skipped": {"lexer_unstable": unstable, "unbound_slots_or_lines": unbound, "base_analysis_failed": skipped_base},
            "model": {"module": "Edits.tla", "actions": m.coverage},
            "acceptor": {"module": "EditTrace.tla", "events": len(events), "rejected": len(rejected)},
            "model_drift": rep.drift, "known_findings_hit": sorted(rep.known),
        },
        assumptions=["only functions that neither enclose nor are nested in another reported function are marked (as the property's second sentence says)",
                     "a name line is eligible when it carries no comment token yet, is not inside a multi-line token, does not end in a continuation and holds no other function's name",
                     "metamorphic: the base list is what the code reports for the base text"],
    )
    return rc


def replay(path: str) -> int:
    case = json.loads(open(path).read())
    lang = case["language"]
    if case.get("kind") == "enclosing":
        got = guarded(lambda _: analyse(lang, case["text"]), None, 120)
        names = sorted(g[0] for g in got[1]) if got[0] == "ok" else None
        print("reported:", names, "expected:", case.get("expected"))
        if names != case.get("expected"):
            print(f"VIOLATION property={PROP} replay={path}")
            return 1
        return 0
    text = case.get("text") or {f"corpus/{p.parent.name}/{p.name}": t for l, p, t in corpus_files()}[case["origin"]]
    doc = Doc(lang, text)
    new = doc.apply([tuple(x) for x in case["script"]])
    base = guarded(lambda _: analyse(lang, text), None, 120)
    got = guarded(lambda _: analyse(lang, new), None, 120)
    ev = {"prop": "C17", "lang": lang, "origin": case["origin"], "base": meas_json(base[1]) if base[0] == "ok" else [], "marked": case["marked"],
          "script": [{"k": k, "at": at, "style": 1} for k, at, _ in case["script"]], "got": meas_json(got[1]) if got[0] == "ok" else [], "exc": "" if got[0] == "ok" else "x"}
    wd = workdir(PROP, "replay")
    rej = accept(wd, [ev], name="replay")
    print("base:", base)
    print("edited:", got)
    if rej:
        print(f"VIOLATION property={PROP} replay={path}")
        print("rejected clause:", rej[0])
        return 1
    print("accepted by EditTrace.tla")
    return 0
