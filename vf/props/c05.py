"""C05 - every reported measurement is well-formed, for every input.

Same input space and machinery as C03 (vf/props/c03.py: Mutations.tla enumerated by TLC, bound to the 7
languages), plus the canonical bases and the vendored corpus; here every analysed input carries the table
of kept code tokens and TLC evaluates Measure.tla's WellFormed clause by clause (MeasureTrace.tla).
"""
from .c03 import replay_generic, run_generic

PROP = "C05"


def run(tier: str) -> int:
    return run_generic("C05", tier)


def replay(path: str) -> int:
    return replay_generic("C05", path)
