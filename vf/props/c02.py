"""C02 - length thresholds and the refactoring alarm are applied consistently.

M  Thresholds.tla: a codebase grows one function at a time (AddFunction(file, L)); ghost exp holds the
   expected profile, counts, findings, check listing / count / exit / quiet silence; sanity invariants.
G  every reachable state is rebuilt for real: Codebase/Report objects (profile, counters, findings)
   and, for states up to E functions, real source files checked end-to-end by check_command.
A  ThresholdTrace.tla: every single length L (1..70 and large values) fed to every place in the code
   that re-implements the comparison; TLC checks each against Category(L).
"""
from __future__ import annotations

import contextlib
import io
import json
import os
import re
import shutil

from .. import evidence, tlc
from ..common import per_process, MachineryError, Timer, guarded, log, pmap, scratch_dir, workdir
from ..findings import Reporter
from ..tlaval import parse, read_dump

PROP = "C02"
LENGTHS = "{2, 14, 15, 16, 17, 29, 30, 31, 32, 59, 60, 61, 62}"
BOUNDS = {"quick": dict(max_funcs=3, e2e_funcs=2), "thorough": dict(max_funcs=4, e2e_funcs=3)}
SINGLE = list(range(1, 71)) + [99, 100, 999, 1000, 7000]
FILES = {1: ("a.py", "Python"), 2: ("b.c", "C")}
SYMBOLS = {"✖": "cross", "⚠": "warning", "✓": "check", "❌": "cross"}


def cat_of_profile(prof, value=None):
    nz = [i for i, x in enumerate(prof) if x]
    return nz[0] + 1 if len(nz) == 1 else 0


def observe_single(L):
    """What every place that re-implements the comparison says about one length L. Internal helpers
    that no longer exist under their name are skipped (listed in o["skip"]), not judged."""
    from pathlib import Path

    from rich.console import Console

    from codelimit.common.Codebase import Codebase
    from codelimit.common.Location import Location
    from codelimit.common.Measurement import Measurement
    from codelimit.common.report import format_markdown, format_text
    from codelimit.common.report.Report import Report
    from codelimit.common.SourceFileEntry import SourceFileEntry

    m = Measurement("fn_x", Location(3, 1), Location(3 + L, 1), L)
    entry = SourceFileEntry("a.py", "sum", "Python", L, [m])
    o = {"L": L, "skip": [], "profile_cat": 0, "count_cat": 0, "lang_hard": 0, "lang_unm": 0, "style": "", "emoji": "", "unit_colour": "", "fm_colour": "", "fm_symbol": "",
         "cr_hard": 0, "cr_unm": 0}

    def place(name, fn):
        try:
            fn()
        except (ImportError, AttributeError, TypeError) as e:
            if isinstance(e, TypeError) and "argument" not in str(e):
                raise
            o["skip"].append(name)

    def p_profile():
        from codelimit.common.utils import make_profile
        o["profile_cat"] = cat_of_profile(make_profile([m]))

    def p_count():
        from codelimit.common.utils import make_count_profile
        o["count_cat"] = cat_of_profile(make_count_profile([m]))

    def p_lang():
        from codelimit.common.LanguageTotals import LanguageTotals
        lt = LanguageTotals("Python")
        lt.add(entry)
        o["lang_hard"], o["lang_unm"] = lt.hard_to_maintain, lt.unmaintainable

    def p_style():
        from codelimit.common.utils import get_style_for_measurement
        o["style"] = get_style_for_measurement(L).color.name

    def p_emoji():
        from codelimit.common.utils import get_emoji_for_measurement
        o["emoji"] = SYMBOLS.get(get_emoji_for_measurement(L), "?")

    def p_unit():
        from codelimit.common.utils import format_unit
        fu = format_unit("fn_x", L)
        cols = [sp.style.color.name for sp in fu.spans if getattr(sp.style, "color", None) is not None]
        o["unit_colour"] = cols[0] if cols else "?"

    def p_fm():
        from codelimit.common.utils import format_measurement
        fm = format_measurement("a.py", m)
        plain = fm.plain
        vcols = [(plain[sp.start:sp.end], sp.style.color.name) for sp in fm.spans if getattr(sp.style, "color", None) is not None]
        o["fm_colour"] = next((c for txt, c in vcols if txt == str(L)), "?")
        o["fm_symbol"] = next((SYMBOLS[ch] for ch in plain if ch in SYMBOLS), "?")

    def p_cr():
        from codelimit.common.CheckResult import CheckResult
        cr = CheckResult()
        cr.add(Path("a.py"), [m])
        o["cr_hard"], o["cr_unm"] = cr.hard_to_maintain, cr.unmaintainable

    for name, fn in (("make_profile", p_profile), ("make_count_profile", p_count), ("LanguageTotals", p_lang), ("get_style_for_measurement", p_style),
                     ("get_emoji_for_measurement", p_emoji), ("format_unit", p_unit), ("format_measurement", p_fm), ("CheckResult", p_cr)):
        place(name, fn)
    cb = Codebase("/")
    cb.add_file(entry)
    rep = Report(cb)
    o["in_units30"] = len(rep.all_report_units_sorted_by_length_asc(30)) == 1
    con = Console(record=True, width=300, file=io.StringIO(), force_terminal=False, color_system=None)
    format_text.print_findings(con, rep)
    o["in_text_findings"] = "fn_x" in con.export_text()
    con = Console(record=True, width=300, file=io.StringIO(), force_terminal=False, color_system=None)
    format_markdown.print_findings(rep, con)
    md = con.export_text()
    row = next((ln for ln in md.splitlines() if "fn_x" in ln), "")
    o["in_md_findings"] = bool(row)
    o["md_glyph"] = next((SYMBOLS[ch] for ch in row if ch in SYMBOLS), "?")
    return o


def py_func(name, L):
    return [f"def {name}():"] + ["    x = 1"] * (L - 1)


def c_func(name, L):
    return [f"int {name}(void) {{"] + ["  x = 1;"] * (L - 2) + ["}"]


def render_files(funcs):
    out = {}
    for fid, (fname, lang) in FILES.items():
        lines = ["x = 0" if lang == "Python" else "int x;"]
        n = 0
        for (f, L) in funcs:
            if f != fid:
                continue
            n += 1
            lines += [""] + (py_func if lang == "Python" else c_func)(f"fn_{fid}_{n}_{L}", L)
        mine = [(f, L) for (f, L) in funcs if f == fid]
        if len(mine) == 1:
            # the whole file is this one function, and its last line is not terminated: L lines, L - 1 line breaks
            out[fname] = "\n".join((py_func if lang == "Python" else c_func)(f"fn_{fid}_1_{mine[0][1]}", mine[0][1]))
        else:
            out[fname] = "\n".join(lines) + "\n"
    return out


_LINE = re.compile(r"^(?P<path>[^:]+):(?P<line>\d+):(?P<col>\d+): (?P<len>\d+) (?P<sym>\S) (?P<name>\S+)\s*$")
_SCRATCH = None


def run_check(paths, quiet):
    import typer

    from codelimit.commands.check import check_command
    from pathlib import Path

    buf = io.StringIO()
    code = None
    with contextlib.redirect_stdout(buf):
        try:
            check_command([Path(p) for p in paths], quiet)
        except typer.Exit as e:
            code = e.exit_code
    return code, buf.getvalue()


def parse_check_output(text):
    listing, count, clean = {}, None, False
    for ln in text.splitlines():
        m = _LINE.match(ln.strip())
        if m:
            listing.setdefault(m.group("path"), []).append((int(m.group("len")), SYMBOLS.get(m.group("sym"), "?"), m.group("name")))
            continue
        m2 = re.search(r"(\d+) functions? need", ln)
        if m2:
            count = int(m2.group(1))
        if "Refactoring not" in ln:
            clean = True
    return listing, count, clean


def scan_overview(root):
    """{language: [files, functions, lines of code, hard-to-maintain, unmaintainable]} as printed by scan_codebase."""
    from pathlib import Path

    from codelimit.common.Configuration import Configuration
    from codelimit.common.Scanner import scan_codebase

    from codelimit.common.report.Report import Report

    Configuration.verbose = True
    Configuration.exclude = []
    root = Path(root)
    copy = root / "copy_of_a.js"
    if copy.exists():
        copy.unlink()
    with contextlib.redirect_stdout(io.StringIO()):
        first = scan_codebase(root)
    # a byte-identical copy of the Python file under a JavaScript name appears, and the tree is scanned again with the first
    # report as cache: the rows of Python and C are what they were (the copy is a JavaScript file, whatever it holds)
    copy.write_bytes((root / FILES[1][0]).read_bytes())
    buf = io.StringIO()
    with contextlib.redirect_stdout(buf):
        scan_codebase(root, Report(first))
    copy.unlink()
    rows = {}
    for ln in buf.getvalue().splitlines():
        parts = [x for x in re.split(r"\s{2,}", ln.strip()) if x]
        if len(parts) == 6 and parts[0] in ("Python", "C") and all(x.replace(",", "").isdigit() for x in parts[1:]):
            rows[parts[0]] = [int(x.replace(",", "")) for x in parts[1:]]
    return rows


def observe_state(arg):
    """Rebuild one Thresholds.tla state for real. arg = (funcs, e2e)."""
    global _SCRATCH
    from codelimit.common.Codebase import Codebase
    from codelimit.common.Location import Location
    from codelimit.common.Measurement import Measurement
    from codelimit.common.report.Report import Report
    from codelimit.common.SourceFileEntry import SourceFileEntry

    funcs, e2e = arg
    cb = Codebase("/")
    fileprof = {}
    for fid, (fname, lang) in FILES.items():
        ms = [Measurement(f"fn{i}", Location(1 + i, 1), Location(2 + i, 1), L) for i, (f, L) in enumerate(funcs) if f == fid]
        e = SourceFileEntry(fname, "sum", lang, sum(m.value for m in ms), ms)
        fileprof[fid] = list(e.profile())
        cb.add_file(e)
    cb.aggregate()
    rep = Report(cb)
    o = {"profile": list(rep.quality_profile()), "fileProfile": fileprof,
         "hard": sum(t.hard_to_maintain for t in cb.totals.values()), "unm": sum(t.unmaintainable for t in cb.totals.values()),
         "findings": [u.measurement.value for u in rep.all_report_units_sorted_by_length_asc(30)], "root_profile": list(cb.tree["./"].profile)}
    # reading is not writing: the same questions asked a second time, after everything above has been computed
    o["profile_again"] = list(rep.quality_profile())
    o["fileProfile_again"] = {fid: list(cb.files[fname].profile()) for fid, (fname, _l) in FILES.items()}
    o["findings_again"] = [u.measurement.value for u in rep.all_report_units_sorted_by_length_asc(30)]
    if e2e:
        _SCRATCH = per_process("c02-scratch", lambda: scratch_dir("c02"))  # under the run's scratch root
        os.chdir(_SCRATCH)
        for name, text in render_files(funcs).items():
            with open(name, "w") as f:
                f.write(text)
        names = [FILES[1][0], FILES[2][0]]
        code, out = run_check(names, False)
        qcode, qout = run_check(names, True)
        listing, count, clean = parse_check_output(out)
        o["e2e"] = {"exit": code, "qexit": qcode, "listing": {k: [x[0] for x in v] for k, v in listing.items()}, "symbols_ok": all(
            (s == ("cross" if L > 60 else "warning")) for v in listing.values() for (L, s, _) in v), "names_ok": all(n.endswith(f"_{L}") for v in listing.values() for (L, _, n) in v),
            "count": count, "clean": clean, "quiet_silent": qout.strip() == "", "quiet_same": qout == out}
        # the overview `scan` prints while it analyses the same files (the worker process scans one codebase after the other)
        o["e2e"]["overview"] = scan_overview(_SCRATCH)
    return o


def compare_state(funcs, exp, o):
    prof = list(exp["profile"])
    counts = list(exp["counts"])
    if o["profile"] != prof:
        return "QualityProfile"
    if o["root_profile"] != prof:
        return "RootFolderProfile"
    fp = exp["fileProfile"]
    fp = {i + 1: list(x) for i, x in enumerate(fp)} if isinstance(fp, tuple) else {k: list(v) for k, v in fp.items()}
    if any(o["fileProfile"][f] != fp[f] for f in FILES):
        return "FileProfile"
    if o["hard"] != counts[2]:
        return "HardToMaintainCounter"
    if o["unm"] != counts[3]:
        return "UnmaintainableCounter"
    if o["findings"] != list(exp["findings"]):
        return "FindingsList"
    if o["profile_again"] != prof:
        return "QualityProfile:SecondRead"
    if any(o["fileProfile_again"][f] != fp[f] for f in FILES):
        return "FileProfile:AfterReport"
    if o["findings_again"] != list(exp["findings"]):
        return "FindingsList:SecondRead"
    if "e2e" in o:
        e = o["e2e"]
        lst = exp["listing"]
        lst = {i + 1: list(x) for i, x in enumerate(lst)} if isinstance(lst, tuple) else {k: list(v) for k, v in lst.items()}
        if e["exit"] != exp["exit"] or e["qexit"] != exp["exit"]:
            return "CheckExitStatus"
        for fid, (fname, _) in FILES.items():
            if e["listing"].get(fname, []) != lst[fid]:
                return "CheckListing"
        if not e["symbols_ok"]:
            return "CheckSymbol"
        if not e["names_ok"]:
            return "CheckNames"
        if exp["count"] > 0 and e["count"] != exp["count"]:
            return "CheckSummaryCount"
        if (exp["count"] == 0) != e["clean"]:
            return "CheckSummarySentence"
        fc = exp["fileCounts"]
        fc = {i + 1: list(x) for i, x in enumerate(fc)} if isinstance(fc, tuple) else {k: list(v) for k, v in fc.items()}
        if not e["overview"]:
            return "Machinery:ScanOverviewUnparsed"  # the layout of the table is not the property's subject
        for fid, (fname, lang) in FILES.items():
            row = e["overview"].get(lang)
            if row is None:
                return "ScanOverviewRow"
            if row[0] != 1 or row[1] != sum(fc[fid]):
                return "ScanOverviewFilesAndFunctions"
            if row[3] != fc[fid][2] or row[4] != fc[fid][3]:
                return "ScanOverviewCounters"
        if e["quiet_silent"] != exp["silent"]:
            return "CheckQuiet"
        if not exp["silent"] and not e["quiet_same"]:
            return "CheckQuietOutput"
    return None


def run(tier: str) -> int:
    b = BOUNDS[tier]
    t = Timer()
    rep = Reporter(PROP)
    wd = workdir(PROP)
    os.environ["COLUMNS"] = "250"
    invs = ["ProfilePartitions", "CountsPartition", "ExitIffUnmaintainable", "CountIsHardPlusUnmaintainable", "FindingsAreTheLongOnes", "BoundariesExact"]
    m = tlc.run("Thresholds", tlc.cfg({"Files": "{1, 2}", "Lengths": LENGTHS, "MaxFuncs": b["max_funcs"]}, spec="Spec", invariants=invs), wd, dump=True)
    if m.violated:
        raise MachineryError(f"reference sanity invariant violated in Thresholds.tla: {m.violated}")
    states = [(tuple(tuple(x) for x in st["funcs"]), st["exp"]) for st in read_dump(m.dump)]
    jobs = [(f, len(f) <= b["e2e_funcs"]) for f, _ in states]
    res = pmap(observe_state, jobs, timeout=60, chunk=128)
    n_e2e = 0
    for (funcs, exp), (_, e2e), r in zip(states, jobs, res):
        n_e2e += e2e
        if r[0] != "ok":
            clause = "NormalReturn:" + (r[1] if r[0] == "exc" else "timeout")
        else:
            clause = compare_state(funcs, exp, r[1])
        if clause and clause.startswith("Machinery:"):
            raise MachineryError(f"{clause} for {funcs}: {r[1].get('e2e', {}).get('overview')}")
        if clause:
            rep.fail({"clause": clause, "functions": [list(x) for x in funcs]}, {"kind": "state", "funcs": [list(x) for x in funcs], "e2e": e2e,
                                                                                "expected": json.loads(json.dumps(exp, default=list)), "observed": r[1] if r[0] == "ok" else list(r)})
    log(f"[C02] G replayed {len(states)} codebase states ({n_e2e} end-to-end through check_command), {t.s()}s")

    # L: one live Codebase, files added / put in again with reads in between (LiveCodebase.tla)
    from .. import live

    lm, lres = live.run(tier, wd, "C02")
    for hist, exp, pure, r in lres:
        clause = live.clause_c02(exp, pure, r[1]) if r[0] == "ok" else "Live:NormalReturn:" + (r[1] if r[0] == "exc" else "timeout")
        if clause:
            hh = [[h[0], list(h[1]), h[2]] for h in hist]
            rep.fail({"clause": clause, "history": hh}, {"kind": "live", "hist": hh, "pure": pure, "expected": json.loads(json.dumps(exp, default=list)), "observed": r[1] if r[0] == "ok" else list(r)})

    sres = pmap(observe_single, SINGLE, timeout=30, workers=4)
    trace = wd / "c02_trace.ndjson"
    with open(trace, "w") as f:
        for k, (L, r) in enumerate(zip(SINGLE, sres)):
            if r[0] == "ok":
                ev = dict(r[1], id=k, exc="")
            else:
                ev = dict(id=k, L=L, exc=r[1] if r[0] == "exc" else "timeout", skip=[], profile_cat=0, count_cat=0, lang_hard=0, lang_unm=0, style="", emoji="", unit_colour="", fm_colour="",
                          fm_symbol="", cr_hard=0, cr_unm=0, in_units30=False, in_text_findings=False, in_md_findings=False, md_glyph="")
            f.write(json.dumps(ev) + "\n")
    a = tlc.run("ThresholdTrace", tlc.cfg({"Files": "{1, 2}", "Lengths": "{2}", "MaxFuncs": 0}, spec="TSpec", postcondition="AllConsumed"), wd, workers=1,
                env={"TRACE_FILE": str(trace)}, coverage=False)
    if a.violated or a.rc != 0:
        raise MachineryError("ThresholdTrace did not consume the whole trace:\n" + a.out[-1500:])
    rejected = {}
    for pr in a.prints:
        if pr.startswith('<<"REJECT"'):
            v = parse(pr)
            rejected[int(v[1])] = v[2]
    for k, clause in sorted(rejected.items()):
        rep.fail({"clause": clause, "length": SINGLE[k]}, {"kind": "single", "L": SINGLE[k], "observed": sres[k][1] if sres[k][0] == "ok" else list(sres[k])})
    log(f"[C02] A accepted {len(SINGLE) - len(rejected)}/{len(SINGLE)} single-length events (16 places each), {t.s()}s")

    from .. import tlaps

    lemmas = tlaps.prove("CategoryProof", wd)
    log(f"[C02] TLAPS CategoryProof: {lemmas['discharged']}/{lemmas['obligations']} obligations ({lemmas['note']})")
    rc = rep.finish()
    evidence.write(
        PROP, tier, level="model_checking", wall_s=t.s(), violations=rep.n_violations,
        coverage={
            "states": m.distinct, "transitions": m.transitions, "traces_validated_against_impl": len(states) + len(SINGLE), "exhaustive": True,
            "samples": [{"functions": [list(x) for x in states[i][0]], "expected": json.loads(json.dumps(states[i][1], default=list))} for i in (len(states) // 3, len(states) - 1)]
            + [{"single_length": 30, "observed": sres[29][1] if sres[29][0] == "ok" else list(sres[29])}],
            "bounds": {"lengths": LENGTHS, "files": FILES, "max_functions": b["max_funcs"], "end_to_end_up_to_functions": b["e2e_funcs"], "end_to_end_states": n_e2e, "single_lengths": len(SINGLE)},
            "model": {"module": "Thresholds.tla", "invariants": invs, "actions": m.coverage},
            "acceptor": {"module": "ThresholdTrace.tla", "events": len(SINGLE), "rejected": len(rejected)},
            "live_codebase": {"module": "LiveCodebase.tla", "states": lm.distinct, "histories": len(lres), "reads": sum(len(e) for _, e, _, _ in lres), "invariants": live.INVS + live.PROPS,
                              "bounds": live.BOUNDS[tier]},
            "proved_lemmas": dict(lemmas, theorems=["CategoryTotal", "CategoryBoundaries", "CategoryMonotone", "FindingIffHardOrWorse"], scope="every natural length (unbounded)"),
            "model_drift": rep.drift, "known_findings_hit": sorted(rep.known),
        },
        assumptions=["generated Python/C functions have exactly the chosen length (asserted through the listing's names: fn_<file>_<n>_<L> must be listed with length L)",
                     "check_command is run in-process with cwd = scratch root, output captured from stdout"],
    )
    return rc


def replay(path: str) -> int:
    case = json.loads(open(path).read())
    if case["kind"] == "single":
        r = guarded(observe_single, case["L"], 30)
        print(r)
        wd = workdir(PROP, "replay")
        tr = wd / "t.ndjson"
        tr.write_text(json.dumps(dict(r[1], id=0, exc="")) + "\n")
        a = tlc.run("ThresholdTrace", tlc.cfg({"Files": "{1, 2}", "Lengths": "{2}", "MaxFuncs": 0}, spec="TSpec", postcondition="AllConsumed"), wd, workers=1, env={"TRACE_FILE": str(tr)}, coverage=False)
        bad = [p for p in a.prints if p.startswith('<<"REJECT"')]
    elif case["kind"] == "live":
        from .. import live

        hist = tuple((h[0], tuple(h[1]), h[2]) for h in case["hist"])
        r = guarded(live.replay_history, hist, 60)
        print("observed:", r)
        # the expectation is part of the case (computed by TLC in the run that found it); LiveCodebase.tla is re-run to confirm it
        _, bs = live.behaviours("thorough" if len(hist) > live.BOUNDS["quick"]["ops"] else "quick", workdir(PROP, "replay"))
        exp = next((e for h, e, _ in bs if h == hist), None)
        if exp is None:
            exp = case["expected"]
        clause = live.clause_c02(exp, case["pure"], r[1]) if r[0] == "ok" else "Live:NormalReturn"
        bad = [clause] if clause else []
    else:
        funcs = tuple(tuple(x) for x in case["funcs"])
        r = guarded(observe_state, (funcs, True), 60)
        print("observed:", r)
        wd = workdir(PROP, "replay")
        # recompute the expectation with TLC for exactly this state
        mod = "---- MODULE ThresholdsOne ----\nEXTENDS Thresholds\nOneInit == funcs = %s /\\ exp = Expected(funcs)\nOneNext == UNCHANGED vars\n====\n" % (
            "<<" + ", ".join("<<%d, %d>>" % x for x in funcs) + ">>")
        m = tlc.run("ThresholdsOne", tlc.cfg({"Files": "{1, 2}", "Lengths": LENGTHS, "MaxFuncs": 9}, init="OneInit", next="OneNext"), wd, extra={"ThresholdsOne.tla": mod}, dump=True, coverage=False)
        st = next(read_dump(m.dump))
        clause = compare_state(funcs, st["exp"], r[1]) if r[0] == "ok" else "NormalReturn"
        bad = [clause] if clause else []
    if bad:
        print(f"VIOLATION property={PROP} replay={path}")
        print("failing:", bad)
        return 1
    print("agrees with Thresholds.tla")
    return 0
