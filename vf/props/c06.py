"""C06 - analysis is deterministic, order-independent and isolated per file.

G  Session.tla: TLC enumerates the schedules - every sequence of analyses over a pool of files (canonical,
   nested, malformed ones that make matching stop midway, the former ambiguity witness, Latin-1) up to
   length L with at most R repetitions per file: every permutation, every prefix, repetitions.
   The schedules are executed in fresh subprocesses, one per PYTHONHASHSEED, each running its share back to
   back (so the concatenation is itself a longer history); every analysis logs a digest of its result.
   Whole trees (the vendored corpus, a generated tree) are scanned under permuted directory orders.
A  SessionTrace.tla replays all logs with the state known[file]: an observation is accepted iff it equals the
   first digest ever seen for that file / tree - across processes, hash seeds and histories.
"""
from __future__ import annotations

import json
import os
import random
import shutil
import subprocess
import sys

from .. import evidence, tlc
from ..common import NCPU, VERIF, MachineryError, Timer, log, scratch_dir, seed, workdir
from ..findings import Reporter
from ..langs import CORPUS, corpus_files
from ..mutate import EXTRA_BASES
from ..tlaval import parse, read_dump

PROP = "C06"
BOUNDS = {"quick": dict(files=6, MaxLen=4, MaxRepeat=2, seeds=[0, 1, 4242], orders=3), "thorough": dict(files=7, MaxLen=4, MaxRepeat=2, seeds=list(range(16)), orders=8)}

POOL = {
    "f1": ("Python", EXTRA_BASES["Python"][1]),
    "f2": ("JavaScript", "function outer(a) {\n  function inner(b) {\n    return b;\n  }\n  return inner(a);\n}\nconst g = (cb = () => 0) => {\n  return cb();\n};\n"),
    # more openers than closers (matching stops midway, a parenthesis group and a block stay open) ...
    "f3": ("C", "#ifdef A\nint f(int a) {\n#else\nint f(long a) {\n#endif\n  return g(a)(1\n"),
    # ... and, later in the same process, more closers than openers: nothing left open by one file may pair with them
    "f4": ("C++", "int twice(int a) {\n  return 2 * a;\n}\n#ifdef __cplusplus\n}\n#endif\nint thrice(int a) {\n  return 3 * a;\n}\n)\n"),
    "f5": ("Python", "def f(a):\n    return a\n\ndef g("),
    "f6": ("Java", EXTRA_BASES["Java"][0]),
    "f7": ("TypeScript", "function f<T>(a: T): T {\n  return a;\n}\nconst h = async (x = (y) => y) => {\n};\nclass K { m(a: number): void { } }\n"),
}


def run(tier: str) -> int:
    b = BOUNDS[tier]
    t = Timer()
    rep = Reporter(PROP)
    wd = workdir(PROP)
    files = list(POOL)[: b["files"]]
    m = tlc.run("Session", tlc.cfg({"Files": "{" + ", ".join(f'"{f}"' for f in files) + "}", "MaxLen": b["MaxLen"], "MaxRepeat": b["MaxRepeat"]}, spec="Spec", invariants=["Bounded"]), wd, dump=True)
    scheds = [list(st["sched"]) for st in read_dump(m.dump)]
    maximal = [s for s in scheds if len(s) == b["MaxLen"]]  # every shorter schedule is a prefix of a maximal one
    rng = random.Random(seed() * 61 + 6)
    # trees: the vendored corpus and a generated tree
    top = scratch_dir("c06")
    try:
        gen = top / "gen"
        for k, (lang, text) in enumerate(POOL.values()):
            d = gen / f"d{k % 3}" / f"s{k % 2}"
            d.mkdir(parents=True, exist_ok=True)
            ext = {"Python": "py", "JavaScript": "js", "Java": "java", "TypeScript": "ts", "C": "c", "C++": "cpp"}[lang]
            (d / f"m{k}.{ext}").write_text(text)
        # byte-identical files of different languages, empty files: a file's result must not depend on neighbours
        twin = "int shape(int a) {\n  if (a) {\n    return a;\n  }\n  return 0;\n}\n"
        for rel, text in (("legacy/shape.c", twin), ("modern/shape.cpp", twin), ("web/same.js", "function f(a) {\n  return a;\n}\n"), ("web/same.ts", "function f(a) {\n  return a;\n}\n"),
                          ("pkg/__init__.py", ""), ("pkg/stub.js", ""), ("a/copy.py", POOL["f1"][1]), ("b/copy.py", POOL["f1"][1]),
                          # names without extension: some map to a supported language by their whole name, some to another lexer, some to none
                          ("LICENSE", "def not_code():\n    pass\n"), ("tools/BUILD", "def library(name):\n    return name\n"), ("Dockerfile", "FROM x\nRUN def f():\n"),
                          ("SConstruct", "def build(env):\n    return env\n"), ("docs/README", "def readme():\n    pass\n"), ("Makefile", "all:\n\tdef x():\n"),
                          # encodings side by side: how one file had to be decoded must not influence the next one
                          ("enc/legacy.py", "# r\xe9sum\xe9\ndef old(a):\n    return 'caf\xe9'\n".encode("latin-1")),
                          ("enc/modern.py", "def gr\u00fc\u00dfe(a):\n    s = 'caf\u00e9 \u20ac'\n    return s + '\u00e9\u20ac'\n".encode("utf-8")),
                          ("enc/legacy.c", "/* \xe9 */\nint old(int a) {\n  return a;\n}\n".encode("latin-1")),
                          ("enc/modern.c", "int neu(int a) {\n  s = \"caf\u00e9 \u20ac\"; return a; /* \u00e9 */ }\n".encode("utf-8")),
                          # hidden directories with source files next to each other: pruned whatever the listing order
                          ("hid/.alpha/tool.py", "def tool(a):\n    return a\n"), ("hid/.beta/helper.py", "def helper(a):\n    return a\n"), ("hid/src/x.py", "def x(a):\n    return a\n"),
                          ("hid/.gamma/.delta/deep.js", "function deep(a) {\n  return a;\n}\n"), ("hid/.m.py", "def hidden_file():\n    pass\n"), ("hid/.n.py", "def hidden_file2():\n    pass\n"),
                          # an order-sensitive exclusion list at the root of the tree (last match wins): its reading must not depend on the hash seed
                          (".gitignore", "gen/*\n!gen/handwritten.py\nlegacy/\n!legacy/shape.c\n*.ts\n!web/same.ts\n"),
                          ("gen/handwritten.py", "def written_by_hand(a):\n    return a\n"), ("gen/generated.py", "def generated(a):\n    return a\n"),
                          ("enc2/a_legacy.js", "// \xe9\nfunction old(a) {\n  return a;\n}\n".encode("latin-1")),
                          ("enc2/b_modern.js", "function neu(a) {\n  return '\u00e9\u20ac'; }\n".encode("utf-8"))):
            (gen / rel).parent.mkdir(parents=True, exist_ok=True)
            if isinstance(text, bytes):
                (gen / rel).write_bytes(text)
            else:
                (gen / rel).write_text(text)
        # an excluded directory next to directories whose names merely BEGIN with its name: what lies below `build` says nothing
        # about `build_tools` or `builder`, whichever the walk visits first
        for rel, text in (("pre/build/skipped.py", "def skipped(a):\n    return a\n"), ("pre/build/deep/skipped2.py", "def skipped2(a):\n    return a\n"),
                          ("pre/build_tools/kept.py", "def kept(a):\n    return a\n"), ("pre/builder/deep/kept2.py", "def kept2(a):\n    return a\n"),
                          ("pre/buil/kept3.py", "def kept3(a):\n    return a\n"), ("pre/tests/skipped3.py", "def skipped3(a):\n    return a\n"),
                          ("pre/tests_old/kept4.js", "function kept4(a) {\n  return a;\n}\n"), ("pre/test/kept5.py", "def kept5(a):\n    return a\n")):
            (gen / rel).parent.mkdir(parents=True, exist_ok=True)
            (gen / rel).write_text(text)
        # a header between C++ sources: what a .h file is does not depend on which files were analysed before it
        for rel, text in (("hdr/a_first.cpp", "int first(int a) {\n  return a;\n}\n"), ("hdr/zz_last.cpp", "int last(int a) {\n  return a;\n}\n"),
                          ("hdr/util.h", "static int total(const int *xs, int n) {\n  int s = 0;\n  FOR_EACH(i, n) {\n    s += xs[i];\n    s += 1;\n  }\n  return s;\n}\n"),
                          ("hdr/inc/deep.h", "static int deep(int a) {\n  WITH_LOCK(m) {\n    a += 1;\n  }\n  return a;\n}\n"), ("hdr/inc/impl.cc", "int impl(int a) {\n  return a;\n}\n")):
            (gen / rel).parent.mkdir(parents=True, exist_ok=True)
            (gen / rel).write_text(text)
        # two names that differ only in their Unicode normalisation form (composed / decomposed e-acute) are two files
        (gen / "uni").mkdir(parents=True, exist_ok=True)
        (gen / "uni" / "caf\u00e9.py").write_text("def composed(a):\n    return a\n")
        (gen / "uni" / "cafe\u0301.py").write_text("def decomposed(a):\n    b = a\n    c = b\n    return c\n\n\ndef second(a):\n    return a\n")
        (gen / "uni" / "plain.py").write_text("def plain(a):\n    return a\n")
        # one file under several names: symbolic links next to their target (one sorts before it, one behind it) and in another
        # directory - which names are reported must not depend on the order in which the walk lists them
        (gen / "lnk" / "far").mkdir(parents=True, exist_ok=True)
        (gen / "lnk" / "geometry.py").write_text("def area(a, b):\n    return a * b\n\n\ndef perimeter(a, b):\n    return 2 * (a + b)\n")
        os.symlink("geometry.py", gen / "lnk" / "a_alias.py")
        os.symlink("geometry.py", gen / "lnk" / "shapes.py")
        os.symlink("../geometry.py", gen / "lnk" / "far" / "geo.py")
        corpus_copy = top / "corpus"
        shutil.copytree(CORPUS, corpus_copy)
        trees = [("generated", str(gen)), ("corpus", str(corpus_copy))]
        procs = []
        nproc = 0
        per_seed = max(1, min(NCPU // len(b["seeds"]), 4)) if len(b["seeds"]) < NCPU else 1
        for s in b["seeds"]:
            shuffled = maximal[:]
            random.Random(s * 7 + 1).shuffle(shuffled)  # a different concatenation per process
            parts = [shuffled[i::per_seed] for i in range(per_seed)]
            for pi, part in enumerate(parts):
                nproc += 1
                spec = {"proc": nproc, "pool": {f: list(POOL[f]) for f in files}, "schedules": part,
                        # which tree a process scans first alternates: what an earlier tree brought along (its ignore file, its
                        # configuration) must not reach the next one
                        "trees": [[n, r, rng.randrange(1 << 30)] for (n, r) in (trees if nproc % 2 else trees[::-1]) for _ in range(b["orders"] if pi == 0 else 1)],
                        "alone": [["generated", str(gen)]] if pi == 0 else []}
                inp, outp = wd / f"in_{nproc}.json", wd / f"out_{nproc}.ndjson"
                inp.write_text(json.dumps(spec))
                env = dict(os.environ, PYTHONHASHSEED=str(s))
                procs.append((nproc, s, outp, subprocess.Popen([sys.executable, "-m", "vf.session_worker", str(inp), str(outp)], cwd=str(VERIF), env=env, stdout=subprocess.DEVNULL, stderr=subprocess.PIPE)))
        events = []
        for (pid, s, outp, p) in procs:
            try:
                _, err = p.communicate(timeout=1500)
            except subprocess.TimeoutExpired:
                p.kill()
                raise MachineryError(f"session worker {pid} timed out")
            if p.returncode != 0:
                raise MachineryError(f"session worker {pid} failed: {err.decode()[-800:]}")
            for ln in outp.read_text().splitlines():
                events.append(json.loads(ln))
    finally:
        shutil.rmtree(top, ignore_errors=True)
    n_an = sum(1 for e in events if e["kind"] == "analyze")
    n_tr = len(events) - n_an
    log(f"[C06] G {m.distinct} schedules enumerated ({len(maximal)} maximal), run in {nproc} fresh processes over {len(b['seeds'])} hash seeds: {n_an} analyses, {n_tr} tree scans, {t.s()}s")
    trace = wd / "c06_trace.ndjson"
    with open(trace, "w") as f:
        for k, ev in enumerate(events):
            f.write(json.dumps({"id": k, **ev}) + "\n")
    a = tlc.run("SessionTrace", tlc.cfg({"Files": '{"f1"}', "MaxLen": 0, "MaxRepeat": 0}, spec="TSpec", postcondition="AllConsumed"), wd, workers=1, env={"TRACE_FILE": str(trace)}, coverage=False, timeout=1800)
    if a.violated or a.rc != 0:
        raise MachineryError("SessionTrace did not consume the whole trace:\n" + a.out[-1500:])
    rejected = {}
    for pr in a.prints:
        if pr.startswith('<<"REJECT"'):
            v = parse(pr)
            rejected[int(v[1])] = v[2]
    first = {}
    for ev in events:
        first.setdefault(ev["file"], ev)
    for k, clause in sorted(rejected.items()):
        ev = events[k]
        rep.fail({"clause": clause, "file": ev["file"]}, {"event": ev, "first_observation": first[ev["file"]], "pool_entry": POOL.get(ev["file"])})
    excs = sorted({e["digest"] for e in events if e["digest"].startswith("exc:")})
    log(f"[C06] A accepted {len(events) - len(rejected)}/{len(events)} observations; exception outcomes seen: {excs}, {t.s()}s")
    rc = rep.finish()
    evidence.write(
        PROP, tier, level="model_checking", wall_s=t.s(), violations=rep.n_violations,
        coverage={
            "states": m.distinct, "transitions": m.transitions, "traces_validated_against_impl": len(maximal) * len(b["seeds"]) + n_tr, "exhaustive": True,
            "samples": [{"schedule": maximal[i]} for i in (0, len(maximal) // 2)] + [{"tree": "corpus", "orders": b["orders"]}],
            "bounds": {"pool": {f: POOL[f][0] for f in files}, "max_schedule_length": b["MaxLen"], "max_repetitions": b["MaxRepeat"], "hash_seeds": b["seeds"], "processes": nproc,
                       "schedules": m.distinct, "maximal_schedules_run_per_seed": len(maximal), "analyses": n_an, "tree_scans": n_tr, "directory_orders_per_tree": b["orders"]},
            "model": {"module": "Session.tla", "actions": m.coverage},
            "acceptor": {"module": "SessionTrace.tla", "events": len(events), "rejected": len(rejected)},
            "exception_outcomes": excs, "model_drift": rep.drift, "known_findings_hit": sorted(rep.known),
        },
        assumptions=["functional consistency: the first observation of a file is the reference (exactness of results is C01 / C05's subject)", "directory traversal order is permuted by wrapping os.walk inside the worker process",
                     "a report's identifier, timestamp, key order and the order of entries lists are not compared"],
    )
    return rc


def replay(path: str) -> int:
    case = json.loads(open(path).read())
    print("first observation:", case["first_observation"])
    print("diverging observation:", case["event"])
    print("re-running the whole check is the replay for an order-dependent divergence: ./check C06 --tier quick")
    return run("quick")
