"""C19 - summary percentages and verdict are sane.

M  Percent.tla: the rounding algorithm as coded (exact integer arithmetic) over every reachable
   profile with total <= T; invariants = the property's clauses (PercentOK).
G  every such profile is fed to the real Report.quality_profile_percentage(); a sample also through
   both print_summary renderers (figures and verdict sentence parsed from the output) and, where
   the profile is realisable, through real measurement lists instead of the override.
A  PercentTrace.tla accepts every recorded call against PercentOK / VerdictOK (the property, not
   the algorithm), plus random profiles with totals up to 10^7 and near-tie families.
"""
from __future__ import annotations

import io
import json
import random
import re

from .. import evidence, tlc
from ..common import MachineryError, Timer, guarded, log, pmap, seed, workdir
from ..findings import Reporter
from ..tlaval import parse, read_dump

PROP = "C19"
BOUNDS = {"quick": dict(T=30, steps="{1, 2, 3}", render_T=10, rnd=3000), "thorough": dict(T=64, steps="{1, 2, 3}", render_T=16, rnd=60000)}

_PCT = re.compile(r"(-?[\d,.]+)\s*%")


def realise(p):
    """Measurement lengths whose make_profile is p, or None."""
    out = []
    lo = [1, 16, 31, 61]
    hi = [15, 30, 60, 10**9]
    for c in range(4):
        x = p[c]
        if x == 0:
            continue
        if x < lo[c]:
            return None
        n = max(1, -(-x // hi[c])) if hi[c] < 10**9 else 1
        base, rem = divmod(x, n)
        if base < lo[c]:
            return None
        vals = [base + (1 if i < rem else 0) for i in range(n)]
        if any(v < lo[c] or v > hi[c] for v in vals):
            return None
        out += vals
    return out


def make_report(p, real):
    from codelimit.common.Codebase import Codebase
    from codelimit.common.Location import Location
    from codelimit.common.Measurement import Measurement
    from codelimit.common.report.Report import Report
    from codelimit.common.SourceFileEntry import SourceFileEntry

    cb = Codebase("/")
    lens = realise(p) if real else None
    if lens is not None:
        ms = [Measurement(f"f{i}", Location(1 + i, 1), Location(1 + i, 2), v) for i, v in enumerate(lens)]
        cb.add_file(SourceFileEntry("a.py", "x", "Python", sum(lens), ms))
        rep = Report(cb)
        assert rep.quality_profile() == list(p), (rep.quality_profile(), p)
        return rep, True
    rep = Report(cb)
    rep.quality_profile = lambda: list(p)
    return rep, False


def parse_summary(text: str):
    """(figures triple, says_necessary) from a rendered summary (text or Markdown)."""
    figs = None
    for ln in text.splitlines():
        if "%" in ln and figs is None and "refactoring" not in ln:
            nums = _PCT.findall(ln)
            if len(nums) == 3:
                figs = [int(x.replace(",", "").replace(".", "")) for x in nums]
            else:
                # three figures of which some are not numbers at all ("False%", "nan%"): not integers between 0 and 100
                cells = re.findall(r"([^\s|%]+)\s*%", ln)
                if len(cells) == 3:
                    figs = [int(x) if re.fullmatch(r"-?\d+", x) else -1 for x in cells]
    low = text.lower()
    if "no refactoring necessary" in low:
        nec = False
    elif "refactoring necessary" in low:
        nec = True
    else:
        nec = None
    return figs, nec


def observe(arg):
    from rich.console import Console

    from codelimit.common.report import format_markdown, format_text

    p, render = arg
    rep, real = make_report(p, render)
    fn = [x if type(x) is int else (int(x) if type(x) is float and x == int(x) else -1) for x in rep.quality_profile_percentage()]  # True / False are not figures
    figs, nec = [], []
    if render:
        for fmt in (format_text, format_markdown):
            con = Console(record=True, width=300, file=io.StringIO(), force_terminal=False, color_system=None)
            fmt.print_summary(con, rep)
            f, n = parse_summary(con.export_text())
            if f is None or n is None:
                raise MachineryErrorInWorker(f"could not parse the {fmt.__name__} summary")
            figs.append(f)
            nec.append(n)
    return {"fn": fn, "figs": figs, "necessary": nec, "real": real}


class MachineryErrorInWorker(Exception):
    pass


def event(k, p, res):
    ev = {"id": k, "p": list(p)}
    if res[0] == "ok":
        ev.update(exc="", fn=res[1]["fn"], figs=res[1]["figs"], necessary=res[1]["necessary"])
    else:
        ev.update(exc=res[1] if res[0] == "exc" else "timeout", fn=[100, 0, 0, 0], figs=[], necessary=[])
    return ev


def accept(wd, events, name="c19_trace"):
    trace = wd / f"{name}.ndjson"
    with open(trace, "w") as f:
        for ev in events:
            f.write(json.dumps(ev) + "\n")
    a = tlc.run("PercentTrace", tlc.cfg({"MaxTotal": 0, "Steps": "{1}"}, spec="TSpec", postcondition="AllConsumed"), wd, workers=1,
                env={"TRACE_FILE": str(trace)}, coverage=False, cfgname=name + ".cfg")
    if a.violated or a.rc != 0:
        raise MachineryError("PercentTrace did not consume the whole trace:\n" + a.out[-1500:])
    out = {}
    for pr in a.prints:
        if pr.startswith('<<"REJECT"'):
            v = parse(pr)
            out[int(v[1])] = v[2]
    return out


def random_profiles(rng, n):
    out = []
    while len(out) < n:
        kind = rng.random()
        if kind < 0.3:
            t = rng.randint(1, 10**7)
            cuts = sorted(rng.randint(0, t) for _ in range(3))
            p = [cuts[0], cuts[1] - cuts[0], cuts[2] - cuts[1], t - cuts[2]]
        elif kind < 0.5:  # single / two-category and tiny-share cases
            big = rng.randint(1, 9 * 10**6)
            p = [0, 0, 0, 0]
            p[rng.randrange(4)] = big
            p[rng.randrange(4)] += rng.choice([0, 1, 2, big // 100000, big // 100000 + 1, big // 1000])
        elif kind < 0.8:  # near ties: k/3, k/7, ... shares
            d = rng.choice([3, 6, 7, 9, 11, 13, 200, 201, 1000, 1001, 99999, 100001])
            k = rng.randint(1, 10**6 // d + 1)
            parts = [rng.randint(0, d) for _ in range(3)]
            parts.sort()
            p = [parts[0] * k, (parts[1] - parts[0]) * k, (parts[2] - parts[1]) * k, (d - parts[2]) * k]
        else:  # around the 20 % verdict boundary
            t = rng.randint(5, 10**6)
            h = t // 5 + rng.choice([-2, -1, 0, 1, 2])
            h = max(0, min(t, h))
            e = rng.randint(0, t - h)
            p = [e, t - h - e, h, 0]
        rng.shuffle(p) if kind < 0.5 else None
        if sum(p) <= 10**7:
            out.append(tuple(p))
    return out


def run(tier: str) -> int:
    b = BOUNDS[tier]
    t = Timer()
    rep = Reporter(PROP)
    wd = workdir(PROP)
    invs = ["AlgoPercentOK", "AlgoFourNonNegative", "AlgoSum"]
    m = tlc.run("Percent", tlc.cfg({"MaxTotal": b["T"], "Steps": b["steps"]}, spec="Spec", invariants=invs, properties=["MonotoneUnmaintainable"]), wd, dump=True)
    log(f"[C19] M Percent: {m.distinct} profiles, {m.wall_s}s, violated={m.violated}")
    profiles, model_out = [], {}
    for st in read_dump(m.dump):
        p = tuple(st["prof"])
        profiles.append(p)
        model_out[p] = list(st["out"])
    rng = random.Random(seed() * 31 + 19)
    rnd = random_profiles(rng, b["rnd"])
    jobs = [(p, sum(p) <= b["render_T"]) for p in profiles] + [(p, k % 10 == 0) for k, p in enumerate(rnd)]
    res = pmap(observe, jobs, timeout=30, chunk=256)
    for r in res:
        if r[0] == "exc" and r[1] in ("MachineryErrorInWorker", "AssertionError"):
            raise MachineryError(f"summary parsing failed: {r}")
    events = [event(k, p, r) for k, ((p, _), r) in enumerate(zip(jobs, res))]
    rejected = accept(wd, events)
    for k, clause in sorted(rejected.items()):
        p = jobs[k][0]
        rep.fail({"clause": clause, "profile": list(p)}, {"p": list(p), "observed": res[k][1] if res[k][0] == "ok" else list(res[k]), "render": jobs[k][1]})
    drift = 0
    for (p, _), r in zip(jobs, res):
        if r[0] == "ok" and p in model_out and r[1]["fn"] != model_out[p]:
            drift += 1
            rep.model_drift(f"quality_profile_percentage({list(p)}) = {r[1]['fn']} but Percent.tla's Algo gives {model_out[p]}")
    rendered = sum(1 for j in jobs if j[1])
    realised = sum(1 for r in res if r[0] == "ok" and r[1]["real"])
    log(f"[C19] A accepted {len(events) - len(rejected)}/{len(events)} calls ({rendered} through both renderers, {realised} via real measurement lists), drift={drift}, {t.s()}s")
    # L: the same figures asked of ONE live Codebase while files are added / put in again (LiveCodebase.tla); the true
    # share is that of the entries held at the moment of the read
    from .. import live

    lm, lres = live.run(tier, wd, "C19")
    levents, lcase = [], []
    for hist, exp, pure, r in lres:
        if r[0] != "ok" or len(r[1]) != len(exp):
            rep.fail({"clause": "Live:NormalReturn", "history": [list(map(list_or, h)) for h in hist]}, {"kind": "live", "hist": [list(map(list_or, h)) for h in hist], "observed": list(r)})
            continue
        for k, (e, o) in enumerate(zip(exp, r[1])):
            levents.append({"id": len(levents), "p": list(e["profile"]), "exc": "", "fn": o["pct"], "figs": o["figs"], "necessary": o["necessary"]})
            lcase.append((hist, k, o))
    lrej = accept(wd, levents, name="c19_live")
    for k, clause in sorted(lrej.items()):
        hist, n, o = lcase[k]
        hh = [list(map(list_or, h)) for h in hist]
        rep.fail({"clause": "Live:" + clause, "history": hh, "read": n}, {"kind": "live", "hist": hh, "read": n, "p": levents[k]["p"], "observed": o})
    log(f"[C19] L accepted {len(levents) - len(lrej)}/{len(levents)} reads of a live Codebase (PercentTrace.tla against the share of the entries held), {t.s()}s")
    if m.violated and not rejected:
        raise MachineryError(f"Percent.tla invariant {m.violated} violated but the code satisfies the property on every replayed profile: the model is wrong")
    from .. import tlaps

    lemmas = tlaps.prove("PercentProof", wd)
    log(f"[C19] TLAPS PercentProof: {lemmas['discharged']}/{lemmas['obligations']} obligations ({lemmas['note']})")
    rc = rep.finish()
    evidence.write(
        PROP, tier, level="model_checking", wall_s=t.s(), violations=rep.n_violations,
        coverage={
            "states": m.distinct, "transitions": m.transitions, "traces_validated_against_impl": len(events), "exhaustive": True,
            "samples": [{"profile": list(jobs[i][0]), "shown": res[i][1] if res[i][0] == "ok" else list(res[i])} for i in (1, len(profiles) // 2, len(profiles) + 3)],
            "bounds": {"exhaustive_total_up_to": b["T"], "rendered_total_up_to": b["render_T"], "random_profiles": len(rnd), "random_total_up_to": 10**7},
            "model": {"module": "Percent.tla", "invariants": invs + ["MonotoneUnmaintainable"], "violated": [list(x) for x in m.violated], "actions": m.coverage},
            "acceptor": {"module": "PercentTrace.tla", "events": len(events), "rejected": len(rejected), "through_renderers": rendered, "via_real_measurements": realised},
            "live_codebase": {"module": "LiveCodebase.tla", "states": lm.distinct, "histories": len(lres), "reads": len(levents), "rejected": len(lrej), "invariants": live.INVS + live.PROPS,
                              "bounds": live.BOUNDS[tier]},
            "proved_lemmas": dict(lemmas, theorems=["SumIs100", "InRange", "NonZeroKept"], scope="post-processing of the rounded-up figures, for all naturals (unbounded)"),
            "model_drift": rep.drift, "model_drift_count": drift, "known_findings_hit": sorted(rep.known),
        },
        assumptions=["profiles are injected through report.quality_profile (as tests/common/report/test_Report.py does) unless realisable by measurement lists",
                     "all comparisons by cross-multiplication, totals <= 10^7 so that every intermediate stays below 2^31"],
    )
    return rc


def list_or(x):
    return list(x) if isinstance(x, (tuple, list)) else x


def replay_live(case, path) -> int:
    from .. import live

    hist = tuple((h[0], tuple(h[1]), h[2]) for h in case["hist"])
    r = guarded(live.replay_history, hist, 60)
    print("history:", hist, "observed:", r)
    if r[0] != "ok":
        print(f"VIOLATION property={PROP} replay={path}")
        return 1
    held = {}
    evs = []
    obs = iter(r[1])
    for pid, lens, rd in hist:
        if pid != 0:  # 0 = Codebase.aggregate()
            held[pid] = lens
        if rd:
            o = next(obs)
            prof = [0, 0, 0, 0]
            for ls in held.values():
                for L in ls:
                    prof[0 if L <= 15 else 1 if L <= 30 else 2 if L <= 60 else 3] += L
            evs.append({"id": len(evs), "p": prof, "exc": "", "fn": o["pct"], "figs": o["figs"], "necessary": o["necessary"]})
    rej = accept(workdir(PROP, "replay"), evs, name="replay")
    if rej:
        print(f"VIOLATION property={PROP} replay={path}")
        print("rejected reads:", rej)
        return 1
    print("accepted by PercentTrace.tla")
    return 0


def replay(path: str) -> int:
    case = json.loads(open(path).read())
    if case.get("kind") == "live":
        return replay_live(case, path)
    p = tuple(case["p"])
    r = guarded(observe, (p, True), 30)
    print("profile:", p, "observed:", r)
    wd = workdir(PROP, "replay")
    rej = accept(wd, [event(0, p, r)], name="replay")
    if rej:
        print(f"VIOLATION property={PROP} replay={path}")
        print("rejected clause:", rej[0])
        return 1
    print("accepted by PercentTrace.tla")
    return 0
