"""C08 - the report document is always valid JSON and round-trips losslessly.

G  ReportDoc.tla: a state machine that builds report VALUES (files in insertion order at several tree
   positions, 0..n measurements, with / without repository, with / without version, root) whose string-valued
   fields range over string classes; TLC enumerates every value with at most K non-plain fields.
   The harness instantiates each class with concrete strings, runs the real ReportWriter (pretty + compact),
   Python's json (validity oracle) and ReportReader, and projects object / document / re-read object.
A  ReportDocTrace.tla judges the laws: both forms valid, same parse, Read(Write(r)) = r field by field,
   Write(Read(Write(r))) = Write(r) up to the timestamp. Strings are interned to ids before TLC sees them.
"""
from __future__ import annotations

import json
import random

from .. import evidence, tlc
from ..common import MachineryError, Timer, guarded, log, pmap, seed, workdir
from ..findings import Reporter
from ..tlaval import dump_chunks, parse, parse_state

PROP = "C08"
CLASSES = ["plain", "empty", "quote", "backslash", "bsquote", "newline", "tab", "ctrl", "nonascii", "astral", "trailbs", "jsonish", "linesep", "pathshape", "long"]
INSTANCES = {
    "plain": ["alpha", "Beta_2", "x"],
    "empty": [""],
    "quote": ['a"b', '"', 'say "hi"'],
    "backslash": ["a\\b", "\\", "c:\\dir"],
    "bsquote": ['a\\"b', '\\"'],
    "newline": ["a\nb", "\n", "line1\r\nline2", "bar()\n", "\nx", "a\n\n"],
    "tab": ["a\tb", "\t", "x\t"],
    "ctrl": ["a\x01b", "\x7f\x1f", "\x00z"],
    "nonascii": ["na\u00efve", "\u00e9", "\u540d\u524d"],
    "astral": ["f\U0001f600", "\U0001d54f"],
    "trailbs": ["ab\\", "x\\\\"],
    "jsonish": ['", "x": "', '"}, {"', "\\u0041", "</script>"],
    # everything str.splitlines() / a text-mode reader may take for a line break, followed by a visible character
    # path strings that are not in normalised form: a report stores the strings it was given, whatever they look like
    "pathshape": ["./x", "proj.git.git", "a//b", "lib.git", "a/../b", "a/./b", "..", "a/", " a", "a "],
    # longer than any line width a writer might want to keep: with blanks (places where a line could be folded), without, and much longer
    "long": [" ".join(["word"] * 40), "x" * 300, "My Project (copy 2)/" * 12 + "src", ("lorem ipsum " * 500).strip()],
    "linesep": ["a\u2028b", "x\u2029y", "p\x85q", "v\x0bw", "f\x0cg", "s\x1ct\x1du\x1ev"],
}
BOUNDS = {"quick": dict(MaxFiles=2, MaxMeas=3, MaxSpecial=1, inst=1, shapes='{"top", "nested", "deep"}'), "thorough": dict(MaxFiles=3, MaxMeas=3, MaxSpecial=1, inst=3, shapes='{"top", "nested", "deep"}')}


def inst(cls, k):
    xs = INSTANCES[cls]
    return xs[k % len(xs)]


def build_report(rep, k):
    from codelimit.common.Codebase import Codebase
    from codelimit.common.GithubRepository import GithubRepository
    from codelimit.common.Location import Location
    from codelimit.common.Measurement import Measurement
    from codelimit.common.report.Report import Report
    from codelimit.common.SourceFileEntry import SourceFileEntry

    cb = Codebase("/" + ("root/proj" if rep["root"] == "plain" else inst(rep["root"], k)))
    for n, f in enumerate(rep["files"]):
        base = inst(f["pathC"], k + n) + f"{n}.py" if f["pathC"] != "plain" else f"mod{n}.py"
        path = {"top": base, "nested": "pkg/" + base, "deep": "pkg/sub/" + base}[f["shape"]]
        nm = f["nmeas"]
        pos = {"source": lambda i: i, "reversed": lambda i: nm - 1 - i, "tied": lambda i: 0}[f.get("layout", "source")]  # where the i-th measurement of the list starts
        ms = [Measurement(inst(f["nameC"], k + i) if f["nameC"] != "plain" else f"fn{i}", Location(3 + 40 * pos(i), 1 + pos(i)), Location(12 + 40 * pos(i) + i, 2), (10, 35, 61)[i % 3]) for i in range(nm)]
        checksum = "c0ffee" * 5 + "00" if rep.get("sums") == "same" else f"{n:032x}"
        # the stored line total is a value of its own: equal to the sum of the lengths, 0, or something else
        total = sum(m.value for m in ms)
        loc = (total, 0, total + 7)[(k + n) % 3]
        cb.add_file(SourceFileEntry(path, checksum, "Python" if n % 2 == 0 else "C", loc, ms))
    cb.aggregate()
    repo = None
    if rep["repo"]:
        o, nm, br = rep["repo"]
        repo = GithubRepository(inst(o, k) if o != "plain" else "owner", inst(nm, k + 1) if nm != "plain" else "name", branch=(None if br == "none" else (inst(br, k + 2) if br != "plain" else "main")))
    r = Report(cb, repo)
    if rep["version"] == "none":
        r.version = None
    elif rep["version"] != "plain":
        r.version = inst(rep["version"], k)
    return r


class Intern:
    def __init__(self):
        self.t = {}

    def __call__(self, s):
        if s is None:
            return "none"
        if not isinstance(s, str):
            return "nonstring:" + type(s).__name__
        if s not in self.t:
            self.t[s] = f"s{len(self.t)}"
        return self.t[s]


def project_report(r, I):
    cb = r.codebase
    return {
        "version": I(r.version), "uuid": I(r.uuid), "root": I(cb.root),
        "repo": [I(r.repository.owner), I(r.repository.name), I(r.repository.branch)] if r.repository is not None else [],
        "files": [{"path": I(p), "checksum": I(e.checksum()), "language": I(e.language), "loc": e.loc,
                   "meas": [[I(m.unit_name), m.start.line, m.start.column, m.end.line, m.end.column, m.value] for m in e.measurements()]} for p, e in cb.files.items()],
        "totals": [[I(l), t.files, t.loc, t.functions, t.hard_to_maintain, t.unmaintainable] for l, t in cb.totals.items()],
        "tree": [[I(k), [I(e.name) for e in f.entries], list(f.profile)] for k, f in cb.tree.items()],
    }


def project_doc(d, I):
    rp = d.get("repository")
    return {
        "version": I(d.get("version")), "uuid": I(d.get("uuid")), "root": I(d.get("root")),
        "repo": [I(rp.get("owner")), I(rp.get("name")), I(rp.get("branch"))] if rp is not None else [],
        "files": [{"path": I(p), "checksum": I(v["checksum"]), "language": I(v["language"]), "loc": v["loc"],
                   "meas": [[I(m["unit_name"]), m["start"]["line"], m["start"]["column"], m["end"]["line"], m["end"]["column"], m["value"]] for m in v["measurements"]]} for p, v in d["codebase"]["files"].items()],
        "totals": [[I(l), t["files"], t["lines_of_code"], t["functions"], t["hard_to_maintain"], t["unmaintainable"]] for l, t in d["codebase"]["totals"].items()],
        "tree": [[I(k), [I(e) for e in f["entries"]], list(f["profile"])] for k, f in d["codebase"]["tree"].items()],
    }


EMPTY = {"version": "none", "uuid": "none", "root": "none", "repo": [], "files": [], "totals": [], "tree": []}


def observe(arg):
    from codelimit.common.report.ReportReader import ReportReader
    from codelimit.common.report.ReportWriter import ReportWriter

    chunk, k = arg
    rep = parse_state(chunk)["rep"]
    rep = {"version": rep["version"], "root": rep["root"], "repo": list(rep["repo"]), "files": [dict(f) for f in rep["files"]], "sums": rep["sums"]}
    r = build_report(rep, k)
    I = Intern()
    ev = {"rep": rep, "orig": project_report(r, I), "doc": EMPTY, "back": EMPTY, "pretty_valid": False, "compact_valid": False, "same_parse": False, "rewrite_same": False, "guard": ["none", "none"]}
    wp, wc = ReportWriter(r), ReportWriter(r, pretty_print=False)
    pretty, compact = wp.to_json(), wc.to_json()
    again_p, again_c = wp.to_json(), wc.to_json()   # a writer asked twice writes the same document twice
    try:
        dp = json.loads(pretty)
        ev["pretty_valid"] = again_p == pretty
    except ValueError:
        dp = None
    try:
        dc = json.loads(compact)
        ev["compact_valid"] = again_c == compact
    except ValueError:
        dc = None
    if dp is None or dc is None:
        return ev
    ev["same_parse"] = dp == dc
    ev["doc"] = project_doc(dp, I)
    if r.repository is not None and r.repository.branch is None and ev["doc"]["repo"]:
        pass
    ev["guard"] = [I(ReportReader.get_report_version(pretty)), I(ReportReader.get_report_version(compact))]
    back = ReportReader.from_json(pretty)
    ev["back"] = project_report(back, I)
    back.timestamp = r.timestamp
    ev["rewrite_same"] = ReportWriter(back).to_json() == pretty
    return ev


def accept(wd, events, name="c08_trace"):
    trace = wd / f"{name}.ndjson"
    with open(trace, "w") as f:
        for k, ev in enumerate(events):
            f.write(json.dumps({"id": k, **{a: b for a, b in ev.items() if a != "rep"}}) + "\n")
    cfg = tlc.cfg({"Classes": '{"plain"}', "PathShapes": '{"top"}', "MaxFiles": 0, "MaxMeas": 0, "MaxSpecial": 0}, spec="TSpec", postcondition="AllConsumed")
    a = tlc.run("ReportDocTrace", cfg, wd, workers=1, env={"TRACE_FILE": str(trace)}, coverage=False, cfgname=name + ".cfg", timeout=1800)
    if a.violated or a.rc != 0:
        raise MachineryError("ReportDocTrace did not consume the whole trace:\n" + a.out[-1500:])
    out = {}
    for pr in a.prints:
        if pr.startswith('<<"REJECT"'):
            v = parse(pr)
            out[int(v[1])] = v[2]
    return out


def special_fields(rep):
    out = []
    if rep["version"] not in ("plain",):
        out.append("version:" + rep["version"])
    if rep["root"] != "plain":
        out.append("root:" + rep["root"])
    for i, x in enumerate(rep["repo"]):
        if x not in ("plain",):
            out.append(("owner", "name", "branch")[i] + ":" + x)
    if rep.get("sums") == "same":
        out.append("checksum:shared")
    for f in rep["files"]:
        if f["pathC"] != "plain":
            out.append("path:" + f["pathC"])
        if f["nameC"] != "plain":
            out.append("unit_name:" + f["nameC"])
        if f.get("layout", "source") != "source":
            out.append("measurements:" + f["layout"])
    return sorted(set(out))


def run(tier: str) -> int:
    b = BOUNDS[tier]
    t = Timer()
    rep = Reporter(PROP)
    wd = workdir(PROP)
    consts = {"Classes": "{" + ", ".join(f'"{c}"' for c in CLASSES) + "}", "PathShapes": b["shapes"], "MaxFiles": b["MaxFiles"], "MaxMeas": b["MaxMeas"], "MaxSpecial": b["MaxSpecial"]}
    m = tlc.run("ReportDoc", tlc.cfg(consts, spec="Spec", invariants=["BudgetRespected"]), wd, dump=True)
    if m.violated:
        raise MachineryError(f"ReportDoc.tla: {m.violated}")
    chunks = dump_chunks(m.dump)
    # the instantiation index rotates with the state index, so that every concrete representative of a class is
    # used even with one instantiation per report value
    jobs = [(c, n * 7 + k) for n, c in enumerate(chunks) for k in range(b["inst"])]
    res = pmap(observe, jobs, timeout=60, chunk=256)
    events = []
    for j, r in zip(jobs, res):
        if r[0] == "ok":
            events.append(dict(r[1], exc=""))
        else:
            rp = parse_state(j[0])["rep"]
            events.append({"rep": {"version": rp["version"], "root": rp["root"], "repo": list(rp["repo"]), "files": [dict(f) for f in rp["files"]], "sums": rp["sums"]}, "orig": EMPTY, "doc": EMPTY, "back": EMPTY,
                           "pretty_valid": True, "compact_valid": True, "same_parse": True, "rewrite_same": True, "guard": ["none", "none"], "exc": r[1] if r[0] == "exc" else "timeout"})
    log(f"[C08] G {m.distinct} report values x {b['inst']} instantiation(s) written, parsed and read back, {t.s()}s")
    rejected = accept(wd, events)
    for k, clause in sorted(rejected.items()):
        ev = events[k]
        rep.fail({"clause": clause, "special_fields": special_fields(ev["rep"])}, {"rep": ev["rep"], "instantiation": jobs[k][1], "exc": ev["exc"],
                                                                                    "flags": {x: ev[x] for x in ("pretty_valid", "compact_valid", "same_parse", "rewrite_same")}})
    log(f"[C08] A accepted {len(events) - len(rejected)}/{len(events)} round trips, {t.s()}s")
    rc = rep.finish()
    evidence.write(
        PROP, tier, level="model_checking", wall_s=t.s(), violations=rep.n_violations,
        coverage={
            "states": m.distinct, "transitions": m.transitions, "traces_validated_against_impl": len(events), "exhaustive": True,
            "samples": [events[i]["rep"] for i in (len(events) // 3, len(events) - 1)],
            "bounds": {"string_classes": CLASSES, "instances_per_class": {c: len(v) for c, v in INSTANCES.items()}, "instantiations_per_value": b["inst"], "max_files": b["MaxFiles"], "max_measurements": b["MaxMeas"],
                       "max_non_plain_fields": b["MaxSpecial"], "path_shapes": b["shapes"]},
            "model": {"module": "ReportDoc.tla", "actions": m.coverage},
            "acceptor": {"module": "ReportDocTrace.tla", "events": len(events), "rejected": len(rejected)},
            "model_drift": rep.drift, "known_findings_hit": sorted(rep.known),
        },
        assumptions=["character-level fidelity is decided by the harness with Python's json as validity oracle (trusted); TLC sees interned string ids and judges the structural laws",
                     "structure coverage is exhaustive within the bounds; string coverage is per class with a few concrete representatives (exploration, not exhaustive over Unicode)"],
    )
    return rc


def replay(path: str) -> int:
    case = json.loads(open(path).read())
    rep = case["rep"]
    from ..tlaval import to_tla

    chunk = "/\\ rep = " + to_tla({"version": rep["version"], "root": rep["root"], "repo": tuple(rep["repo"]), "files": tuple(rep["files"]), "sums": rep.get("sums", "distinct")})
    r = guarded(observe, (chunk, case["instantiation"]), 60)
    print("report value:", rep)
    ev = dict(r[1], exc="") if r[0] == "ok" else {"rep": rep, "orig": EMPTY, "doc": EMPTY, "back": EMPTY, "pretty_valid": True, "compact_valid": True, "same_parse": True, "rewrite_same": True, "guard": ["none", "none"], "exc": str(r[1])}
    print({x: ev[x] for x in ("pretty_valid", "compact_valid", "same_parse", "rewrite_same", "exc")})
    wd = workdir(PROP, "replay")
    rej = accept(wd, [ev], name="replay")
    if rej:
        print(f"VIOLATION property={PROP} replay={path}")
        print("rejected clause:", rej[0])
        return 1
    print("accepted by ReportDocTrace.tla")
    return 0
