"""C14 - search returns sound, ordered, disjoint, longest and complete matches.

M  FindAll.tla: the find_all scan loop as coded (one attempt at a time, leftmost first), TLC-checked clause by
   clause against Regex.tla (Sound, Longest, Ordered, Covers, IsRef).
G  RegexCases.tla (non-nullable patterns, ghost SearchRef): every (pattern, word) replayed into the
   real find_all; a result different from SearchRef is sent to the acceptor (it may still satisfy
   every clause, in which case it is model drift, not a violation).
A  MatcherTrace.tla `search` events: G's disagreements + random larger patterns; TLC evaluates
   InBounds / RecordsItsItems / AreWords / AreLongest / OrderedDisjoint / Complete.
H  TokenAutomaton.tla over the header automata extracted from the live code (see c15.py): the
   built-in header shapes over all token-class sequences, incl. BalancedEnd.
"""
from __future__ import annotations

import json
import random

from .. import evidence, tlc
from ..common import MachineryError, Timer, guarded, log, pmap, seed, workdir
from ..findings import Reporter
from ..gsm_bind import canon, from_json, nullable, random_tree, show, to_items, to_json
from ..tlaval import parse, read_dump

PROP = "C14"
BOUNDS = {
    "quick": dict(sigma="ab", N=5, K=4, gsigma="ab", gN=5, gK=4, rnd=1500, hK=5),
    "thorough": dict(sigma="ab", N=6, K=4, gsigma="abc", gN=5, gK=4, rnd=20000, hK=7),
}


def observe(case):
    from codelimit.common.gsm.matcher import find_all

    re_, w = case
    w = list(w)
    ms = find_all(to_items(re_), w)
    return {"ms": [[m.start, m.end] for m in ms], "toks": [list(m.tokens) for m in ms]}


def event(k, case, res):
    ev = {"id": k, "kind": "search", "re": to_json(case[0]), "w": list(case[1])}
    if res[0] == "ok":
        ev.update(exc="", ms=res[1]["ms"], toks=res[1]["toks"])
    else:
        ev.update(exc=res[1] if res[0] == "exc" else "timeout", ms=[], toks=[])
    return ev


def accept(wd, events, name="c14_trace"):
    trace = wd / f"{name}.ndjson"
    with open(trace, "w") as f:
        for ev in events:
            f.write(json.dumps(ev) + "\n")
    a = tlc.run("MatcherTrace", tlc.cfg(spec="Spec", postcondition="AllConsumed"), wd, workers=1, env={"TRACE_FILE": str(trace)}, coverage=False, cfgname=name + ".cfg")
    if a.violated or a.rc != 0:
        raise MachineryError("MatcherTrace did not consume the whole trace:\n" + a.out[-1500:])
    out = {}
    for p in a.prints:
        if p.startswith('<<"REJECT"'):
            v = parse(p)
            out[int(v[1])] = v[2]
    return out, a


def sig_of(clause, re_, w):
    return {"clause": clause, "pattern": show(re_), "word": " ".join(w)}


def run(tier: str) -> int:
    from . import c15  # header automata (extraction shared with C15)

    b = BOUNDS[tier]
    t = Timer()
    rep = Reporter(PROP)
    wd = workdir(PROP)
    sig = lambda s: tlc.tla_set(tlc.tla_str(c) for c in s)

    invs = ["Sound", "Longest", "Ordered", "Covers", "IsRef", "Progress"]
    m = tlc.run("FindAll", tlc.cfg({"Sigma": sig(b["sigma"]), "MaxSize": b["N"], "MaxLen": b["K"]}, invariants=invs), wd)
    log(f"[C14] M FindAll: {m.distinct} states, {m.wall_s}s, violated={m.violated}")

    g = tlc.run(
        "RegexCases",
        tlc.cfg({"Sigma": sig(b["gsigma"]), "MaxSize": b["gN"], "MaxLen": b["gK"], "OnlyNonNullable": "TRUE", "WithSearch": "TRUE"}, invariants=["RefIsOK"]),
        wd, dump=True)
    if g.violated:
        raise MachineryError(f"oracle sanity invariant violated in RegexCases: {g.violated}")
    cases, refs = [], []
    for st in read_dump(g.dump):
        cases.append((st["re"], st["w"]))
        refs.append([list(x) for x in st["v"][4]])
    results = pmap(observe, cases, timeout=20)
    differ = [i for i, (r, res) in enumerate(zip(refs, results)) if res[0] != "ok" or res[1]["ms"] != r or any(tk != list(cases[i][1][s:e]) for (s, e), tk in zip(res[1]["ms"], res[1]["toks"]))]
    log(f"[C14] G replay: {len(cases)} (pattern, word) pairs, {len(differ)} differ from SearchRef, {t.s()}s")

    rng = random.Random(seed() * 104729 + 14)
    rcases = []
    while len(rcases) < b["rnd"]:
        sg = "abcd"[: rng.randint(2, 4)]
        re_ = canon(random_tree(rng, rng.randint(4, 9), sg))
        if nullable(re_):
            continue
        for _ in range(4):
            rcases.append((re_, tuple(rng.choice(sg) for _ in range(rng.randint(0, 10)))))
    rres = pmap(observe, rcases, timeout=20)
    events = [event(k, cases[i], results[i]) for k, i in enumerate(differ)]
    off = len(events)
    events += [event(off + k, c, r) for k, (c, r) in enumerate(zip(rcases, rres))]
    rejected, a = accept(wd, events)
    for k, clause in sorted(rejected.items()):
        case, res = (cases[differ[k]], results[differ[k]]) if k < off else (rcases[k - off], rres[k - off])
        rep.fail(sig_of(clause, *case), {"kind": "search", "re": to_json(case[0]), "w": list(case[1]), "observed": res[1] if res[0] == "ok" else list(res),
                                       "expected_reference": refs[differ[k]] if k < off else None})
    for k in range(off):
        if k not in rejected:
            rep.model_drift(f"find_all({show(cases[differ[k]][0])}, {' '.join(cases[differ[k]][1])}) = {results[differ[k]][1]['ms']} differs from SearchRef {refs[differ[k]]} but satisfies every clause")
    log(f"[C14] A accepted {len(events) - len(rejected)}/{len(events)} recorded find_all calls, {t.s()}s")
    if m.violated and not rejected:
        raise MachineryError(f"FindAll.tla invariant {m.violated} violated but the code satisfies every clause on the replayed space: model is wrong")

    # ---- H: built-in header shapes over all token-class sequences ----------------------------
    h = c15.header_shapes(wd, rep, K=b["hK"], tier=tier)
    log(f"[C14] H header shapes: {h['automata']} automata, {h['states']} states, {h['replayed']} sequences replayed, {t.s()}s")

    # ---- N: the header search above find_all (get_headers: candidates, followed_by, nested search) -----
    from .. import nested

    n = nested.run(wd, rep, tier, t)
    # ---- NH: the same search on the real header shapes, calls nested several levels deep ---------------
    from .. import nested_headers

    nh = nested_headers.run(wd, rep, tier, t)

    rc = rep.finish()
    si = [0, len(cases) // 3, len(cases) - 1]
    evidence.write(
        PROP, tier, level="model_checking", wall_s=t.s(), violations=rep.n_violations,
        coverage={
            "states": m.distinct + g.distinct + h["states"] + n["states"] + nh["states"],
            "transitions": m.transitions + g.transitions + h["transitions"] + n["transitions"] + nh["transitions"],
            "traces_validated_against_impl": len(cases) + len(rcases) + h["replayed"] + n["replayed"] + nh["replayed"],
            "exhaustive": True,
            "samples": [{"pattern": show(cases[i][0]), "word": list(cases[i][1]), "SearchRef": refs[i], "find_all": results[i][1]["ms"] if results[i][0] == "ok" else list(results[i])} for i in si]
            + h["samples"] + n["samples"] + nh["samples"],
            "bounds": {"model": {"alphabet": b["sigma"], "max_items": b["N"], "max_word": b["K"]}, "replay": {"alphabet": b["gsigma"], "max_items": b["gN"], "max_word": b["gK"]},
                       "random": {"patterns": len(rcases) // 4, "items": "4..9", "word": "0..10"}, "header_sequences_max_len": b["hK"]},
            "model": {"module": "FindAll.tla", "invariants": invs, "distinct_states": m.distinct, "violated": [list(x) for x in m.violated], "actions": m.coverage},
            "generator": {"module": "RegexCases.tla", "replayed": len(cases), "differ_from_reference_result": len(differ)},
            "acceptor": {"module": "MatcherTrace.tla", "events": len(events), "rejected": len(rejected)},
            "header_shapes": h["detail"],
            "nested_header_search": n["detail"],
            "nested_header_search_on_real_shapes": nh["detail"],
            "model_drift": rep.drift,
            "known_findings_hit": sorted(rep.known),
        },
        assumptions=["non-nullable patterns only (as the property states)", "letters are pairwise-disjoint Identity predicates",
                     "header automata and predicate acceptance tables are extracted from the running code; predicates depend on a token only through (kind, value) and on depth only through the probed range",
                     "bounded: exhaustive up to the stated sizes, random beyond"],
    )
    return rc


def replay(path: str) -> int:
    case = json.loads(open(path).read())
    if case.get("kind") == "header":
        from . import c15

        return c15.replay_header(path, PROP)
    if case.get("kind") == "nested-header":
        from .. import nested_headers

        rej = nested_headers.replay_case(workdir(PROP, "replay"), case)
        if rej:
            print(f"VIOLATION property={PROP} replay={path}")
            print("rejected clause:", rej[0])
            return 1
        print("accepted by NestedHeaderTrace.tla")
        return 0
    if case.get("kind") == "headers":
        from .. import nested

        rej = nested.replay_case(workdir(PROP, "replay"), case)
        if rej:
            print(f"VIOLATION property={PROP} replay={path}")
            print("rejected clause:", rej[0])
            return 1
        print("accepted by NestedSearchTrace.tla")
        return 0
    re_, w = from_json(case["re"]), tuple(case["w"])
    res = guarded(observe, (re_, w), 20)
    print("pattern:", show(re_), " word:", " ".join(w))
    print("observed:", res)
    wd = workdir(PROP, "replay")
    rejected, _ = accept(wd, [event(0, (re_, w), res)], name="replay")
    if rejected:
        print(f"VIOLATION property={PROP} replay={path}")
        print("rejected clause:", rejected[0])
        return 1
    print("accepted by MatcherTrace.tla")
    return 0
