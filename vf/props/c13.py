"""C13 - the pattern engine implements regular-expression semantics.

M  Thompson.tla: the NFA construction / closure / subset stepping as coded, checked by TLC against
   Regex.tla for every pattern <= N items and every word <= K over a 3-letter alphabet.
G  RegexCases.tla: every (pattern, word) with the reference verdicts, replayed into the real
   match / nfa_match / starts_with / stepped Pattern (incl. "building terminates").
A  MatcherTrace.tla: random larger patterns and words, recorded calls accepted by TLC.
"""
from __future__ import annotations

import json
import random

from .. import evidence, tlc
from ..common import MachineryError, Timer, log, pmap, seed, workdir
from ..findings import Reporter
from ..gsm_bind import canon, random_tree, show, to_items, to_items_pred, to_items_shared, to_json
from ..tlaval import read_dump

PROP = "C13"
BOUNDS = {
    "quick": dict(sigma="abc", N=4, K=4, gN=4, gK=4, rnd=1500),
    "thorough": dict(sigma="abc", N=5, K=4, gN=5, gK=4, rnd=20000),
}


def observe(case):
    """All four public entry points on one (pattern, word). Returns a dict of observations."""
    from codelimit.common.gsm.Expression import expression_to_nfa, nfa_to_dfa
    from codelimit.common.gsm.matcher import match, nfa_match, starts_with
    from codelimit.common.gsm.Pattern import Pattern

    re_, w = case
    w = list(w)
    expr = to_items(re_)
    m = match(expr, w)
    obs = {"match": m is not None, "match_end": (m.end if m is not None else -1)}
    obs["nfa"] = bool(nfa_match(to_items(re_), w))
    s = starts_with(to_items(re_), w)
    obs["sw"] = s.end if s is not None else 0
    obs["sw_tokens_ok"] = s is None or list(s.tokens) == w[: s.end]
    p = Pattern(0, nfa_to_dfa(expression_to_nfa(to_items(re_))))
    alive, acc = [], []
    ok = True
    for item in w:
        if ok and p.consume(item) is None:
            ok = False
        alive.append(ok)
        acc.append(bool(ok and p.is_accepting()))
    obs["alive"], obs["acc"] = alive, acc
    # the same questions with sub-patterns shared between this pattern and every other one built in this process
    sh = to_items_shared(re_)
    m2 = match(sh, w)
    s2 = starts_with(sh, w)
    obs["shared"] = [m2 is not None, bool(nfa_match(sh, w)), s2.end if s2 is not None else 0]
    # and with every atom written as a fresh predicate object (equal predicates, distinct objects)
    m3 = match(to_items_pred(re_), w)
    s3 = starts_with(to_items_pred(re_), w)
    obs["pred"] = [m3 is not None, bool(nfa_match(to_items_pred(re_), w)), s3.end if s3 is not None else 0]
    return obs


def compare(case, v, res):
    """Reference verdict v = <<InL, Viable, ShortestPrefix, Nullable, _>> vs. the observation."""
    re_, w = case
    if res[0] != "ok":
        return "NormalReturn:" + (res[1] if res[0] == "exc" else "timeout")
    o = res[1]
    inl, viable, sp = v[0], v[1], v[2]
    if o["match"] != inl:
        return "MatchIsMembership"
    if o["match"] and o["match_end"] != len(w):
        return "MatchSpansInput"
    if o["nfa"] != inl:
        return "NfaMatchIsMembership"
    if o["sw"] != sp:
        return "StartsWithIsShortestPrefix"
    if not o["sw_tokens_ok"]:
        return "StartsWithRecordsItsItems"
    if o.get("shared", [inl, inl, sp]) != [inl, inl, sp]:
        return "SharedSubPatterns"
    if o.get("pred", [inl, inl, sp]) != [inl, inl, sp]:
        return "AtomsAsPredicateObjects"
    if w:
        if o["alive"][-1] != viable:
            return "PatternAliveIsViable"
        if viable and o["acc"][-1] != inl:
            return "PatternAcceptingIsMembership"
    return None


def sig_of(clause, re_, w):
    return {"clause": clause, "pattern": show(re_), "word": " ".join(w)}


def run(tier: str) -> int:
    b = BOUNDS[tier]
    t = Timer()
    rep = Reporter(PROP)
    sigma_tla = tlc.tla_set(tlc.tla_str(c) for c in b["sigma"])
    wd = workdir(PROP)

    # ---- M: the implementation-shaped model against the reference ----------------------------
    invs = ["NfaMatchOK", "DfaAliveOK", "MatchOK", "DfaIsNfa", "StartsWithOK", "CycleIffNullableRepetition", "WellFormedNfa"]
    m = tlc.run("Thompson", tlc.cfg({"Sigma": sigma_tla, "MaxSize": b["N"], "MaxLen": b["K"]}, invariants=invs), wd)
    log(f"[C13] M Thompson: {m.distinct} states, {m.wall_s}s, violated={m.violated}")
    model_cex = None
    if m.violated:
        model_cex = {"invariant": m.violated, "trace": m.trace[-2:]}

    # ---- G: every (pattern, word) with reference verdicts, replayed into the code ------------
    g = tlc.run(
        "RegexCases",
        tlc.cfg({"Sigma": sigma_tla, "MaxSize": b["gN"], "MaxLen": b["gK"], "OnlyNonNullable": "FALSE", "WithSearch": "FALSE"},
                invariants=["PrefixSane", "ViableSane"]),
        wd, dump=True)
    if g.violated:
        raise MachineryError(f"oracle sanity invariant violated in RegexCases: {g.violated}")
    cases, verdicts = [], []
    for st in read_dump(g.dump):
        cases.append((st["re"], st["w"]))
        verdicts.append(st["v"])
    results = pmap(observe, cases, timeout=20)
    g_fail = 0
    patterns = set()
    for case, v, res in zip(cases, verdicts, results):
        patterns.add(case[0])
        clause = compare(case, v, res)
        if clause:
            g_fail += 1
            rep.fail(sig_of(clause, *case), {"kind": "matchers", "re": to_json(case[0]), "w": list(case[1]), "expected": list(v[:3]), "observed": res[1] if res[0] == "ok" else list(res)})
    log(f"[C13] G replay: {len(cases)} (pattern, word) pairs over {len(patterns)} patterns, {g_fail} disagreements, {t.s()}s")
    if model_cex and g_fail == 0:
        # a model counterexample that the code does not reproduce: the model is wrong -> machinery
        raise MachineryError(f"Thompson.tla invariant {m.violated} violated but the code agrees with Regex.tla on the replayed space")

    # ---- A: random larger patterns, recorded calls accepted by TLC ---------------------------
    rng = random.Random(seed() * 7919 + 13)
    rcases = []
    while len(rcases) < b["rnd"]:
        size = rng.randint(5, 10)
        sig = "abcd"[: rng.randint(2, 4)]
        re_ = canon(random_tree(rng, size, sig))
        for _ in range(4):
            n = rng.randint(0, 9)
            rcases.append((re_, tuple(rng.choice(sig) for _ in range(n))))
    rres = pmap(observe, rcases, timeout=20)
    trace = wd / "c13_trace.ndjson"
    with open(trace, "w") as f:
        for k, (case, res) in enumerate(zip(rcases, rres)):
            ev = {"id": k, "kind": "matchers", "re": to_json(case[0]), "w": list(case[1])}
            if res[0] == "ok":
                o = res[1]
                ev.update(exc="", match=o["match"], nfa=o["nfa"], sw=o["sw"], alive=o["alive"], acc=o["acc"], shared=o["shared"], pred=o["pred"])
            else:
                ev.update(exc=res[1] if res[0] == "exc" else "timeout", match=False, nfa=False, sw=0, alive=[], acc=[], shared=[False, False, 0], pred=[False, False, 0])
            f.write(json.dumps(ev) + "\n")
    a = tlc.run("MatcherTrace", tlc.cfg(spec="Spec", postcondition="AllConsumed"), wd, workers=1, env={"TRACE_FILE": str(trace)}, coverage=False)
    if a.violated or a.rc != 0:
        raise MachineryError("MatcherTrace did not consume the whole trace:\n" + a.out[-1500:])
    rejects = [tlc_reject(p) for p in a.prints if p.startswith('<<"REJECT"')]
    for rid, clause in rejects:
        case = rcases[rid]
        rep.fail(sig_of(clause, *case), {"kind": "matchers", "re": to_json(case[0]), "w": list(case[1]), "observed": list(rres[rid])})
    log(f"[C13] A accepted {len(rcases) - len(rejects)}/{len(rcases)} recorded calls, {t.s()}s")

    rc = rep.finish()
    sample_i = [0, len(cases) // 2, len(cases) - 1]
    evidence.write(
        PROP, tier, level="model_checking", wall_s=t.s(), violations=rep.n_violations,
        coverage={
            "states": m.distinct + g.distinct,
            "transitions": m.transitions + g.transitions,
            "traces_validated_against_impl": len(cases) + len(rcases),
            "exhaustive": True,
            "samples": [{"pattern": show(cases[i][0]), "word": list(cases[i][1]), "reference": list(verdicts[i][:3])} for i in sample_i]
            + [{"random_pattern": show(rcases[0][0]), "word": list(rcases[0][1])}],
            "bounds": {"alphabet": b["sigma"], "model_max_items": b["N"], "model_max_word": b["K"], "replay_max_items": b["gN"], "replay_max_word": b["gK"],
                       "patterns_replayed": len(patterns), "random_patterns": len(rcases) // 4, "random_items": "5..10", "random_word": "0..9"},
            "model": {"module": "Thompson.tla", "invariants": invs, "distinct_states": m.distinct, "violated": [list(x) for x in m.violated], "actions": m.coverage},
            "generator": {"module": "RegexCases.tla", "distinct_states": g.distinct, "replayed": len(cases), "disagreements": g_fail},
            "acceptor": {"module": "MatcherTrace.tla", "events": len(rcases), "rejected": len(rejects)},
            "model_drift": rep.drift,
            "known_findings_hit": sorted(rep.known),
        },
        assumptions=["letters are pairwise-disjoint Identity predicates", "TLC 1.8.0 and the CommunityModules JSON reader are trusted",
                     "bounded: exhaustive up to the stated items/word length, random beyond"],
    )
    return rc


def tlc_reject(p: str):
    from ..tlaval import parse

    v = parse(p)
    return int(v[1]), v[2]


def replay(path: str) -> int:
    case = json.loads(open(path).read())
    from ..gsm_bind import from_json
    from ..common import guarded

    re_, w = from_json(case["re"]), tuple(case["w"])

    def observe_in_company(c):
        # a shared sub-pattern shows its colours only after it has been used in other surroundings: every sub-tree of the
        # pattern is matched once on its own, starred and doubled before the case itself
        r, word = c

        def subs(t):
            yield t
            for x in t[1:]:
                if isinstance(x, tuple):
                    yield from subs(x)

        for t in list(subs(r)):
            for ctx in (t, ("star", t), ("seq", t, t)):
                observe((ctx, word))
        return observe(c)

    res = guarded(observe_in_company, (re_, w), 60)
    print("pattern:", show(re_), " word:", " ".join(w))
    print("observed:", res)
    print("expected (at recording time):", case.get("expected"))
    # decide with the acceptor
    wd = workdir(PROP, "replay")
    ev = {"id": 0, "kind": "matchers", "re": to_json(re_), "w": list(w)}
    if res[0] == "ok":
        o = res[1]
        ev.update(exc="", match=o["match"], nfa=o["nfa"], sw=o["sw"], alive=o["alive"], acc=o["acc"], shared=o["shared"], pred=o["pred"])
    else:
        ev.update(exc=res[1] if res[0] == "exc" else "timeout", match=False, nfa=False, sw=0, alive=[], acc=[], shared=[False, False, 0], pred=[False, False, 0])
    tr = wd / "t.ndjson"
    tr.write_text(json.dumps(ev) + "\n")
    a = tlc.run("MatcherTrace", tlc.cfg(spec="Spec", postcondition="AllConsumed"), wd, workers=1, env={"TRACE_FILE": str(tr)}, coverage=False)
    rej = [p for p in a.prints if p.startswith('<<"REJECT"')]
    if rej:
        print(f"VIOLATION property={PROP} replay={path}")
        print("rejected:", rej)
        return 1
    print("accepted by MatcherTrace.tla")
    return 0
