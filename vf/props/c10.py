"""C10 - a damaged or partial cache never breaks or taints the next scan.

M  Workspace.tla with the Damage action: ScanLeavesValidCache, DamagedCacheIsIgnored (and the C09 properties)
   over every history up to L operations in which damage, edits and scans interleave.
G  fault enumeration on real directories (vf/workspace.py): the abstract Damage(how) is expanded to EVERY byte
   offset at which the cache write can be cut short (small report) / stratified offsets (large report) and to
   structural faults (empty, whitespace, not JSON, JSON scalar / list / null, every key removed at every level,
   every value replaced by wrong types, cache directory without file / without marker files, stray partial
   files), alone and in sequences interleaved with edits and scans.
A  WorkspaceTrace.tla judges every step: the scan after the fault completes, reports exactly the fresh result
   and leaves a complete valid cache of this version behind.
"""
from __future__ import annotations

import json
import random

from .. import evidence, tlc
from ..common import MachineryError, Timer, guarded, log, pmap, seed, workdir
from ..findings import Reporter
from ..tlaval import read_dump
from ..workspace import CONTENTS, PATHS, World
from .c09 import ALL_OPS, PROPS, accept

PROP = "C10"
FAULTS = '{"truncated", "empty", "whitespace", "not_json", "shape", "dir_without_file", "no_markers", "stray"}'
BOUNDS = {"quick": dict(MaxOps=5, seqs=150, big_files=0, stride=1), "thorough": dict(MaxOps=6, seqs=1500, big_files=30, stride=1)}

SETUPS = [
    [("Write", "p1", "c1"), ("Write", "p2", "c2"), ("Scan",)],
    [("Write", "p1", "c3"), ("Scan",), ("Write", "p2", "c1"), ("SetExcl", ["p2"]), ("Scan",)],
]


def structural_variants(doc_text):
    """Wrongly shaped JSON derived from a valid report, as edit operations that a fault job applies to ITS OWN
    cache file (so that root path, identifiers and checksums stay those of the workspace at hand):
    ("raw", text) | ("del", path) | ("set", path, value)."""
    doc = json.loads(doc_text)
    out = [("raw", t) for t in ("[]", "{}", "null", "42", '"codelimit"', "true", "[1, 2, 3]", '{"version": 1}', '{"codebase": {}}', '{"codebase": {"files": []}}')]

    def paths(node, pre=()):
        if isinstance(node, dict):
            for k, v in node.items():
                yield pre + (k,)
                yield from paths(v, pre + (k,))
        elif isinstance(node, list):
            for i, v in enumerate(node[:2]):
                yield pre + (i,)
                yield from paths(v, pre + (i,))

    def get(node, path):
        for k in path:
            node = node[k]
        return node

    for p in list(paths(doc)):
        parent = get(doc, p[:-1])
        if isinstance(parent, dict):
            out.append(("del", list(p)))
        old = parent[p[-1]]
        for wrong in (None, 7, "x", [], {}, [1], {"a": 1}, True, -1, 2.5):
            if type(old) is type(wrong) and not isinstance(old, (int, str)):
                continue
            out.append(("set", list(p), wrong))
    return out


def apply_variant(doc_text, op):
    if op[0] == "raw":
        return op[1]
    d = json.loads(doc_text)
    node = d
    for k in op[1][:-1]:
        node = node[k]
    if op[0] == "del":
        del node[op[1][-1]]
    else:
        node[op[1][-1]] = op[2]
    return json.dumps(d, indent=2)


def fault_job(arg):
    """setup ; fault ; [edit] ; Scan ; Scan   ->  step events."""
    setup, fault, edit = arg
    w = World()
    try:
        events = []

        def do(op):
            pre = w.abstract()
            exc = w.step(list(op))
            post = w.abstract(after_scan=(op[0] == "Scan"))
            events.append({"op": [x if isinstance(x, (str, list)) else str(x) for x in op[:2]], "pre": pre, "post": post, "exc": exc if exc != "precondition" else ""})

        for op in setup:
            do(op)
        kind, detail = fault
        if kind == "stray":
            cd = w.cache_file.parent
            data = w.cache_file.read_bytes()
            for name in ("codelimit.json.tmp", "codelimit.json.partial", ".codelimit.json.swp", "tmpab12cd"):
                (cd / name).write_bytes(data[: detail or 10])
            events.append({"op": ["Damage", "stray"], "pre": w.abstract(), "post": w.abstract(), "exc": ""})
        else:
            pre = w.abstract()
            if kind == "shape" and not isinstance(detail, str):
                detail = apply_variant(w.cache_file.read_text(), detail)
            w.damage(kind, detail)
            events.append({"op": ["Damage", kind], "pre": pre, "post": w.abstract(), "exc": ""})
        if edit:
            do(edit)
        do(("Scan",))
        do(("Scan",))
        return events
    finally:
        w.close()


def reference_cache(setup):
    w = World()
    try:
        for op in setup:
            w.step(list(op))
        return w.cache_file.read_bytes()
    finally:
        w.close()


def big_setup(n):
    return None


def run(tier: str) -> int:
    b = BOUNDS[tier]
    t = Timer()
    rep = Reporter(PROP)
    wd = workdir(PROP)
    mc = dict(Paths='{"p1", "p2"}', Contents='{"c1", "c2"}', MaxOps=b["MaxOps"], Ops=ALL_OPS, FaultKinds=FAULTS)
    m = tlc.run("Workspace", tlc.cfg(mc, spec="Spec", invariants=["TypeOK", "RefuseForeign"], properties=PROPS, view="StateView"), wd)
    log(f"[C10] M Workspace with Damage: {m.distinct} states, {m.wall_s}s, violated={m.violated}")
    jobs, meta = [], []
    n_offsets = n_struct = 0
    for si, setup in enumerate(SETUPS):
        data = guarded(reference_cache, setup, 120)
        if data[0] != "ok":
            raise MachineryError(f"could not produce a reference cache: {data}")
        data = data[1]
        offsets = list(range(0, len(data) + 1, b["stride"]))
        for k in offsets:  # every byte offset at which the write can be cut short
            jobs.append((setup, ("truncated", k), None))
            meta.append(("truncated", k, si))
        n_offsets += len(offsets)
        sv = structural_variants(data.decode())
        for v in sv:
            jobs.append((setup, ("shape", v), None))
            meta.append(("shape", json.dumps(v)[:80], si))
        n_struct += len(sv)
        for kind in ("empty", "whitespace", "not_json", "dir_without_file", "no_markers", "stray"):
            for edit in (None, ("Write", "p1", "c2"), ("Delete", "p1")):
                jobs.append((setup, (kind, None), edit))
                meta.append((kind, str(edit), si))
        from ..workspace import NOT_JSON

        for flavour in range(1, len(NOT_JSON)):  # bytes that are not text, a cut inside a multi-byte character, ...
            jobs.append((setup, ("not_json", flavour), None))
            meta.append(("not_json", f"flavour {flavour}", si))
    # sequences of faults interleaved with scans (TLC-chosen histories containing Damage), sampled
    rng = random.Random(seed() * 29 + 10)
    g = tlc.run("Workspace", tlc.cfg(dict(mc, MaxOps=4, Ops='{"Write", "Delete", "SetExcl", "Damage", "Scan"}', FaultKinds='{"truncated", "empty", "not_json", "shape", "dir_without_file"}'), spec="Spec"), wd,
                dump=True, cfgname="Workspace_faults.cfg", coverage=False)
    seqs = []
    for st in read_dump(g.dump):
        h = [list(x) for x in st["hist"]]
        ks = [x[0] for x in h]
        if len(h) == 4 and ks.count("Damage") >= 1 and "Scan" in ks:
            seqs.append(h)
    rng.shuffle(seqs)
    seqs = seqs[: b["seqs"]]
    res = pmap(fault_job, jobs, timeout=300, chunk=16)
    from ..workspace import replay_history

    sres = pmap(replay_seq, seqs, timeout=300, chunk=8)
    events, owner = [], []
    for k, r in enumerate(res):
        if r[0] != "ok":
            raise MachineryError(f"fault job failed {meta[k]}: {r}")
        for ev in r[1]:
            events.append(ev)
            owner.append(("fault", k))
    for k, r in enumerate(sres):
        if r[0] != "ok":
            raise MachineryError(f"fault sequence failed {seqs[k]}: {r}")
        for ev in r[1]:
            if ev["exc"] == "precondition":
                continue
            events.append(ev)
            owner.append(("seq", k))
    log(f"[C10] G {n_offsets} crash offsets + {n_struct} structural variants + directory faults + {len(seqs)} fault sequences: {len(events)} steps on real directories, {t.s()}s")
    rejected = accept(wd, events, {"Paths": '{"p1", "p2", "p3", "p4"}', "Contents": '{"c1", "c2", "c3", "c4", "c5"}'}, name="c10_trace")
    for k, clause in sorted(rejected.items()):
        kind, j = owner[k]
        if kind == "fault":
            f = meta[j]
            sig = {"clause": clause, "fault": f[0], "detail": f[1] if f[0] != "truncated" else "offset"}
            rep.fail(sig, {"kind": "fault", "setup": [list(x) for x in jobs[j][0]], "fault": [jobs[j][1][0], jobs[j][1][1]], "edit": jobs[j][2], "step": events[k]})
        else:
            rep.fail({"clause": clause, "ops": [x[0] for x in seqs[j]]}, {"kind": "sequence", "history": seqs[j], "step": events[k]})
    log(f"[C10] A accepted {len(events) - len(rejected)}/{len(events)} steps, {t.s()}s")
    if m.violated and not rejected:
        raise MachineryError(f"Workspace.tla property {m.violated} violated but every replayed step satisfies the properties: the model is wrong")
    rc = rep.finish()
    evidence.write(
        PROP, tier, level="model_checking", wall_s=t.s(), violations=rep.n_violations,
        coverage={
            "states": m.distinct + g.distinct, "transitions": m.transitions + g.transitions, "traces_validated_against_impl": len(jobs) + len(seqs), "exhaustive": True,
            "samples": [{"setup": [list(x) for x in jobs[i][0]], "fault": [meta[i][0], meta[i][1]]} for i in (1, n_offsets + 5, len(jobs) - 1)],
            "bounds": {"setups": len(SETUPS), "crash_offsets": n_offsets, "offset_stride": b["stride"], "structural_variants": n_struct, "fault_kinds": FAULTS, "fault_sequences": len(seqs), "model_max_ops": b["MaxOps"]},
            "model": {"module": "Workspace.tla", "properties": PROPS, "violated": [list(x) for x in m.violated], "actions": m.coverage},
            "acceptor": {"module": "WorkspaceTrace.tla", "events": len(events), "rejected": len(rejected)},
            "model_drift": rep.drift, "known_findings_hit": sorted(rep.known),
        },
        assumptions=["a cut-short write leaves a prefix of the bytes that a complete write would have left", "marker files (CACHEDIR.TAG, .gitignore) are not required to be restored",
                     "each command starts from an empty Configuration.exclude, as a fresh CLI process does"],
    )
    return rc


def replay_seq(h):
    from ..workspace import replay_history

    out = []
    # abstract Damage(how) in a TLC-chosen history: one concrete representative per kind
    return replay_history([tuple(x) for x in h], expand_damage=None)


def replay(path: str) -> int:
    case = json.loads(open(path).read())
    if case["kind"] == "fault":
        f0, f1 = case["fault"]
        r = guarded(fault_job, ([tuple(x) for x in case["setup"]], (f0, tuple(f1) if isinstance(f1, list) else f1), tuple(case["edit"]) if case["edit"] else None), 300)
    else:
        r = guarded(replay_seq, case["history"], 300)
    if r[0] != "ok":
        print("replay failed:", r)
        return 2
    evs = [e for e in r[1] if e["exc"] != "precondition"]
    wd = workdir(PROP, "replay")
    rej = accept(wd, evs, {"Paths": '{"p1", "p2", "p3", "p4"}', "Contents": '{"c1", "c2", "c3", "c4", "c5"}'}, name="replay")
    for k, e in enumerate(evs):
        print(k, e["op"], "->", e["post"]["outcome"], e["exc"], "REJECTED " + rej[k] if k in rej else "")
    if rej:
        print(f"VIOLATION property={PROP} replay={path}")
        return 1
    print("accepted by WorkspaceTrace.tla")
    return 0
