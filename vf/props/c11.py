"""C11 - exactly the non-hidden, non-excluded files of supported languages are analysed.

G  Selection.tla: TLC enumerates the configurations (lists of <= 2 exclusion patterns from the five gitignore
   classes x the source of each pattern: config file / --exclude option / root .gitignore x the form of the
   root argument) and computes for each the ghost set of contributing paths over a complete universe tree
   (every path of depth <= D over a pool of hidden, built-in-excluded, ordinary and extension-bearing directory
   names x supported / unsupported / hidden / extension-less file names). Every configuration is run for real
   through the `scan` entry point on that tree; the analysed set, keys, languages and checksums are compared.
A  SelectionTrace.tla judges every recorded scan (and scans of random sub-trees) path by path with Contributes.
The five pattern classes' reading is cross-checked against pathspec on the universe at run time.
"""
from __future__ import annotations

import contextlib
import hashlib
import io
import json
import os
import random
import shutil
from pathlib import Path

from .. import evidence, tlc
from ..common import per_process, MachineryError, Timer, guarded, log, pmap, scratch_dir, seed, workdir
from ..findings import Reporter
from ..tlaval import parse, read_dump
from .. import universe as U

PROP = "C11"
BOUNDS = {
    "quick": dict(depth=2, max_patterns=2, pairs=70, sources=["yml", "option", "gitignore"], root_forms=["relative", "absolute", "dotdot"], subtrees=150),
    "thorough": dict(depth=3, max_patterns=2, pairs=1200, sources=["yml", "option", "gitignore"], root_forms=["relative", "absolute", "dotdot"], subtrees=2000),
}

_WORLD = {}


def world(depth):
    """One universe tree per worker process."""
    def make():
        top = scratch_dir("c11")  # under the run's scratch root, removed with it
        root, files = U.build(top, depth)
        return (top, root, files)

    return per_process(("c11-world", depth), make)


def names_of(path_tuple):
    return "/".join(path_tuple)


def run_scan(root: Path, cwd: Path, arg: Path, opt, keep_cache=False):
    """The `scan` entry point, as the CLI calls it. Returns the parsed report's files section."""
    from codelimit.__main__ import scan
    from codelimit.common.Configuration import Configuration

    if not keep_cache:
        shutil.rmtree(root / ".codelimit_cache", ignore_errors=True)
    Configuration.exclude = []
    Configuration.verbose = False
    Configuration.repository = None
    os.chdir(cwd)
    if not opt:
        # through the command line parser (argument conversion included); with exclusions given as options the entry point
        # is called directly, because this environment's typer / click pair cannot parse --exclude
        from typer.testing import CliRunner

        from codelimit.__main__ import cli

        res = CliRunner().invoke(cli, ["scan", str(arg)])
        if res.exception is not None and not isinstance(res.exception, SystemExit):
            raise res.exception
        if res.exit_code not in (0, None):
            raise RuntimeError(f"codelimit scan {arg} exited with status {res.exit_code}: {res.output[-300:]}")
    else:
        with contextlib.redirect_stdout(io.StringIO()):
            scan(arg, list(opt) if opt else None, False)
    doc = json.loads((root / ".codelimit_cache" / "codelimit.json").read_text())
    return doc["codebase"]["files"]


def observe_builtins(_arg=None):
    """A tree with one directory per built-in exclusion (at the root and one level down), each holding a source file, next to
    an ordinary directory: only the ordinary files contribute."""
    from codelimit.common.Configuration import Configuration
    from codelimit.common.Scanner import scan_path

    from ..common import scratch_dir

    top = scratch_dir("c11-builtin")
    root = top / "r"
    for name in U.BUILTIN_EXCLUSIONS:
        for d in (root / name, root / "deep" / name / "sub"):
            d.mkdir(parents=True, exist_ok=True)
            (d / "x.py").write_text("def x(a):\n    return a\n")
    for rel in ("keep/z.py", "deep/keep.js", "buildx/y.py", "my_build/y.c"):
        (root / rel).parent.mkdir(parents=True, exist_ok=True)
        (root / rel).write_text("int y(int a) {\n  return a;\n}\n" if rel.endswith(".c") else "def z(a):\n    return a\n" if rel.endswith(".py") else "function w(a) {\n  return a;\n}\n")
    Configuration.exclude = []
    try:
        return sorted(scan_path(root).files)
    finally:
        shutil.rmtree(top, ignore_errors=True)


def observe_config(arg):
    depth, pats, srcs, root_form = arg
    top, root, files = world(depth)
    cwd, rarg = U.root_argument(root, root_form)
    try:
        # first a scan without configured exclusions, whose cache stays; then the exclusions appear and the tree is
        # scanned again with that cache in place: what contributes is decided by the exclusions of THIS scan
        U.configure(root, [], [])
        run_scan(root, cwd, rarg, [])
        opt = U.configure(root, pats, srcs)
        got = run_scan(root, cwd, rarg, opt, keep_cache=True)
    finally:
        os.chdir("/")
        U.configure(root, [], [])
    keys = list(got)
    meta_ok = True
    bad = []
    for k, v in got.items():
        data = (root / k).read_bytes() if (root / k).exists() else b""
        lang = U.pygments_language(k.split("/")[-1])
        if v["checksum"] != hashlib.md5(data).hexdigest() or v["language"] != lang:
            meta_ok = False
            bad.append(k)
    return {"keys": keys, "meta_ok": meta_ok, "bad_meta": bad[:5]}


def observe_subtree(arg):
    """A random sub-tree of the universe scanned on its own (files do not depend on each other)."""
    sd, depth, pats, srcs = arg
    rng = random.Random(sd)
    dirs, files = U.universe_paths(depth)
    pick = rng.sample(files, min(len(files), rng.randint(1, 12)))
    top = scratch_dir("c11s")
    try:
        root = top / "work" / "u"
        root.mkdir(parents=True)
        for f in pick:
            p = root.joinpath(*f)
            p.parent.mkdir(parents=True, exist_ok=True)
            p.write_bytes(U.content_for("/".join(f), U.split(f[-1])[1]))
        opt = U.configure(root, pats, srcs)
        got = run_scan(root, root.parent, root, opt)
        return {"present": [list(f) for f in pick], "keys": list(got)}
    finally:
        os.chdir("/")
        shutil.rmtree(top, ignore_errors=True)


def tla_path(names):
    return [list(U.split(n)) for n in names]


def pat_json(p):
    if p[0] == "ext":
        return {"cls": "ext", "a": p[1], "b": ""}
    if p[0] == "anch":
        return {"cls": "anch", "a": list(U.split(p[1])), "b": list(U.split(p[2]))}
    return {"cls": p[0], "a": list(U.split(p[1])), "b": ""}


def accept(wd, events, depth, name="c11_trace"):
    trace = wd / f"{name}.ndjson"
    with open(trace, "w") as f:
        for k, ev in enumerate(events):
            f.write(json.dumps({"id": k, **ev}) + "\n")
    mod, cfg = U.run_module(depth, U.PATTERN_POOL, 0, ["yml"], ["absolute"], '{"none"}')
    mod = mod.replace("MODULE SelectionRun", "MODULE SelectionTraceRun").replace("EXTENDS Selection", "EXTENDS SelectionTrace")
    cfg = cfg.replace("SPECIFICATION Spec", "SPECIFICATION TSpec").replace("INVARIANT SelIsSubsetOfU\n", "").replace("INVARIANT HiddenNeverSelected\n", "").replace(
        "INVARIANT DefaultsNeverSelected\n", "").replace("INVARIANT MorePatternsSelectLess\n", "") + "POSTCONDITION AllConsumed\n"
    a = tlc.run("SelectionTraceRun", cfg, wd, workers=1, env={"TRACE_FILE": str(trace)}, coverage=False, extra={"SelectionTraceRun.tla": mod}, cfgname=name + ".cfg", timeout=1800)
    if a.violated or a.rc != 0:
        raise MachineryError("SelectionTrace did not consume the whole trace:\n" + a.out[-1500:])
    out = {}
    for pr in a.prints:
        if pr.startswith('<<"REJECT"'):
            v = parse(pr)
            out[int(v[1])] = v[2]
    return out


def from_tla_pattern(p):
    def nm(x):
        return U.join(tuple(x))

    if p["cls"] == "ext":
        return ("ext", p["a"])
    if p["cls"] == "anch":
        return ("anch", nm(p["a"]), nm(p["b"]))
    return (p["cls"], nm(p["a"]))


def pathspec_crosscheck(depth):
    """Selection.tla's reading of each pattern class must agree with pathspec on the universe (machinery)."""
    from pathspec import PathSpec

    dirs, files = U.universe_paths(depth)
    probs = []
    for p in U.PATTERN_POOL:
        spec = PathSpec.from_lines("gitignore", [U.pattern_text(p)])
        for f in files:
            rel = "/".join(f)
            comps = [U.split(n) for n in f]
            if p[0] == "bare":
                mine = any(n == p[1] for n in f)
            elif p[0] == "dir":
                mine = any(n == p[1] for n in f[:-1])
            elif p[0] == "ext":
                mine = any(c[1] == p[1] for c in comps)
            elif p[0] == "anch":
                mine = len(f) >= 2 and f[0] == p[1] and f[1] == p[2]
            else:
                mine = len(f) >= 2 and f[0] == p[1]
            if bool(spec.match_file(rel)) != mine:
                probs.append((U.pattern_text(p), rel))
    return probs


WALK_DIRS = ["src", ".hid", "tests"]
WALK_FILES = ["m.py", ".m.py", "m.txt", "m.c"]


def walk_orders(arg):
    """The tiny tree of Walk.tla scanned for real under a permuted os.walk order."""
    order_seed = arg
    from codelimit.common.Configuration import Configuration
    from codelimit.common.Scanner import scan_path

    top = scratch_dir("c11w")
    real_walk = os.walk
    try:
        root = top / "t"
        root.mkdir()
        for d in [""] + WALK_DIRS:
            (root / d).mkdir(exist_ok=True)
            for f in WALK_FILES:
                rel = (d + "/" if d else "") + f
                (root / rel).write_bytes(U.content_for(rel, U.split(f)[1]))
        rng = random.Random(order_seed)

        def walk(tp, *a, **kw):
            for r, dirs, files in real_walk(tp, *a, **kw):
                rng.shuffle(dirs)
                rng.shuffle(files)
                yield r, dirs, files

        os.walk = walk
        Configuration.exclude = []
        cb = scan_path(root)
        return sorted(cb.files)
    finally:
        os.walk = real_walk
        shutil.rmtree(top, ignore_errors=True)


def walk_model(wd, tier):
    """M: Walk.tla - every interleaving of directory / file visits on a tiny tree; G: the same tree scanned
    for real under permuted traversal orders must give the model's final analysed set."""
    mod = "\n".join(["---- MODULE WalkRun ----", "EXTENDS Walk",
                     "cDir == {" + ", ".join(U.tla_name(n) for n in WALK_DIRS) + "}", "cFile == {" + ", ".join(U.tla_name(n) for n in WALK_FILES) + "}",
                     "cHid == {" + ", ".join(U.tla_name(n) for n in WALK_DIRS + WALK_FILES if n.startswith(".")) + "}",
                     "cExc == {" + ", ".join(U.tla_name(n) for n in WALK_DIRS if n in U.DEFAULTS_IN_POOL) + "}", "===="]) + "\n"
    cfg = "\n".join(["SPECIFICATION Spec", "CONSTANTS", "  DirNames <- cDir", "  FileNames <- cFile", "  MaxDepth = 1", "  HiddenNames <- cHid", "  ExcludedNames <- cExc",
                     "  Supported = {" + ", ".join(f'"{e}"' for e in U.supported_exts()) + "}",
                     "INVARIANT ExactlyTheContributingFiles", "INVARIANT NothingBelowHiddenIsVisited", "INVARIANT OnlyContributingEverAnalysed", "INVARIANT EachFileOnce", "CHECK_DEADLOCK FALSE", ""])
    m = tlc.run("WalkRun", cfg, wd, extra={"WalkRun.tla": mod}, dump=True, cfgname="WalkRun.cfg")
    finals = set()
    for st in read_dump(m.dump, only=lambda c: "pendingDirs = {}" in c and "pendingFiles = {}" in c):
        finals.add(tuple(sorted("/".join(U.join(tuple(n)) for n in p) for p in st["analysed"])))
    res = pmap(walk_orders, list(range(24 if tier == "quick" else 240)), timeout=120, chunk=4)
    return m, finals, res


def run(tier: str) -> int:
    b = BOUNDS[tier]
    t = Timer()
    rep = Reporter(PROP)
    wd = workdir(PROP)
    wm, wfinals, wres = walk_model(wd, tier)
    if wm.violated:
        raise MachineryError(f"Walk.tla invariant violated: {wm.violated} (the model of the walk as coded must satisfy them)")
    if len(wfinals) != 1:
        raise MachineryError(f"Walk.tla has {len(wfinals)} different final analysed sets")
    want_walk = list(next(iter(wfinals)))
    for k, r in enumerate(wres):
        if r[0] != "ok" or r[1] != want_walk:
            rep.fail({"clause": "TraversalOrderIndependent", "site": "tiny tree of Walk.tla"}, {"kind": "walk", "order_seed": k, "expected": want_walk, "observed": r[1] if r[0] == "ok" else list(r)})
    log(f"[C11] M Walk.tla: {wm.distinct} states over every interleaving, one final analysed set {want_walk}; {len(wres)} real scans under permuted orders, {t.s()}s")
    probs = pathspec_crosscheck(b["depth"])
    if probs:
        raise MachineryError(f"Selection.tla's reading of the pattern classes disagrees with pathspec, e.g. {probs[:3]}")
    mod, cfg = U.run_module(b["depth"], U.PATTERN_POOL, b["max_patterns"], b["sources"], b["root_forms"], '{"none"}')
    # the full product of pattern lists x sources x root forms is large; TLC enumerates it, the harness replays
    # every single-pattern configuration and a seeded sample of the two-pattern ones
    m = tlc.run("SelectionRun", cfg, wd, extra={"SelectionRun.tla": mod}, dump=True, timeout=2400)
    if m.violated:
        raise MachineryError(f"reference sanity invariant violated in Selection.tla: {m.violated}")
    rng = random.Random(seed() * 43 + 11)
    singles, pairs = [], []
    for st in read_dump(m.dump):
        if st["rootForm"] == "unset":
            continue
        pats = [from_tla_pattern(p) for p in st["pats"]]
        srcs = list(st["src"]) if not isinstance(st["src"], dict) else [st["src"][i + 1] for i in range(len(pats))]
        conf = (pats, srcs, st["rootForm"], sorted("/".join(U.join(tuple(n)) for n in p) for p in st["sel"]))
        (pairs if len(pats) == 2 else singles).append(conf)
    rng.shuffle(pairs)
    # pairs: prefer mixed sources
    pairs.sort(key=lambda c: c[1][0] == c[1][1])
    confs = singles + pairs[: b["pairs"]]
    jobs = [(b["depth"], c[0], c[1], c[2]) for c in confs]
    res = pmap(observe_config, jobs, timeout=600, chunk=4)
    dirs, files = U.universe_paths(b["depth"])
    present = [tla_path(f) for f in files]
    events, differ = [], 0
    for c, r in zip(confs, res):
        ev = {"kind": "scan", "pats": [pat_json(p) for p in c[0]], "present": present}
        if r[0] == "ok":
            ev.update(exc="", got=[tla_path(k.split("/")) for k in r[1]["keys"]], meta_ok=r[1]["meta_ok"])
            if sorted(r[1]["keys"]) != c[3]:
                differ += 1
        else:
            ev.update(exc=r[1] if r[0] == "exc" else "timeout", got=[], meta_ok=True)
            differ += 1
        events.append(ev)
    log(f"[C11] G {m.distinct} configurations enumerated, {len(confs)} run through `scan` on the universe ({len(files)} files, depth {b['depth']}); {differ} differ from the ghost set, {t.s()}s")
    # only the disagreeing universe scans and all sub-tree scans go to the acceptor (a universe event is large)
    sub_jobs = []
    for k in range(b["subtrees"]):
        c = rng.choice(confs)
        sub_jobs.append((rng.randrange(1 << 30), b["depth"], c[0], c[1]))
    sres = pmap(observe_subtree, sub_jobs, timeout=300, chunk=8)
    sel_events, owners = [], []
    for k, (c, r, ev) in enumerate(zip(confs, res, events)):
        if r[0] != "ok" or sorted(r[1]["keys"]) != c[3] or not r[1]["meta_ok"]:
            sel_events.append(ev)
            owners.append(("universe", k))
    for k, (j, r) in enumerate(zip(sub_jobs, sres)):
        ev = {"kind": "scan", "pats": [pat_json(p) for p in j[2]]}
        if r[0] == "ok":
            ev.update(exc="", present=[tla_path(f) for f in r[1]["present"]], got=[tla_path(x.split("/")) for x in r[1]["keys"]], meta_ok=True)
        else:
            ev.update(exc=r[1] if r[0] == "exc" else "timeout", present=[], got=[], meta_ok=True)
        sel_events.append(ev)
        owners.append(("subtree", k))
    rejected = accept(wd, sel_events, b["depth"])
    for n, clause in sorted(rejected.items()):
        kind, k = owners[n]
        if kind == "universe":
            c, r = confs[k], res[k]
            got = set(r[1]["keys"]) if r[0] == "ok" else set()
            rep.fail({"clause": clause, "patterns": [U.pattern_text(p) for p in c[0]], "sources": c[1], "root": c[2]},
                     {"kind": "universe", "depth": b["depth"], "patterns": [list(p) for p in c[0]], "sources": c[1], "root_form": c[2], "unexpected": sorted(got - set(c[3]))[:20], "missing": sorted(set(c[3]) - got)[:20],
                      "observed": r[1] if r[0] != "ok" else {"bad_meta": r[1]["bad_meta"]}})
        else:
            j, r = sub_jobs[k], sres[k]
            rep.fail({"clause": clause, "patterns": [U.pattern_text(p) for p in j[2]], "sources": j[3], "site": "subtree"},
                     {"kind": "subtree", "seed": j[0], "depth": j[1], "patterns": [list(p) for p in j[2]], "sources": j[3], "observed": r[1] if r[0] == "ok" else list(r)})
    for n, (kind, k) in enumerate(owners):
        if kind == "universe" and n not in rejected:
            rep.model_drift(f"scan of the universe under {confs[k][0]} differs from the ghost set but is accepted clause by clause")
    log(f"[C11] A accepted {len(sel_events) - len(rejected)}/{len(sel_events)} recorded scans ({len(sub_jobs)} random sub-trees), {t.s()}s")
    # every built-in exclusion, by name (the universe holds three of them)
    bi = guarded(observe_builtins, None, 120)
    want_bi = sorted(["keep/z.py", "deep/keep.js", "buildx/y.py", "my_build/y.c"])
    if bi[0] != "ok" or bi[1] != want_bi:
        extra = sorted(set(bi[1]) - set(want_bi)) if bi[0] == "ok" else list(bi)
        rep.fail({"clause": "BuiltInExclusionsHonoured", "contributing_but_excluded": [x.split("/x.py")[0] for x in extra][:6] if bi[0] == "ok" else "exception"},
                 {"kind": "builtins", "observed": bi[1] if bi[0] == "ok" else list(bi), "expected": want_bi})
    log(f"[C11] built-in exclusions: {len(U.BUILTIN_EXCLUSIONS)} names, each at the root and below a directory; contributing files {bi[1] if bi[0] == 'ok' else bi}")
    rc = rep.finish()
    evidence.write(
        PROP, tier, level="model_checking", wall_s=t.s(), violations=rep.n_violations,
        coverage={
            "states": m.distinct + wm.distinct, "transitions": m.transitions + wm.transitions, "traces_validated_against_impl": len(confs) + len(sub_jobs) + len(wres), "exhaustive": True,
            "walk_model": {"module": "Walk.tla", "states": wm.distinct, "invariants": ["ExactlyTheContributingFiles", "NothingBelowHiddenIsVisited", "OnlyContributingEverAnalysed", "EachFileOnce"], "real_orders": len(wres)},
            "samples": [{"patterns": [U.pattern_text(p) for p in c[0]], "sources": c[1], "root": c[2], "contributing": len(c[3])} for c in confs[:: max(1, len(confs) // 3)][:3]],
            "bounds": {"universe_depth": b["depth"], "universe_files": len(files), "dir_names": U.DIR_NAMES, "file_names": U.FILE_NAMES, "patterns": [U.pattern_text(p) for p in U.PATTERN_POOL],
                       "configurations_enumerated": m.distinct, "configurations_run": len(confs), "single_pattern_configurations": len(singles), "two_pattern_sampled": len(confs) - len(singles), "random_subtrees": len(sub_jobs)},
            "model": {"module": "Selection.tla (+ generated SelectionRun.tla)", "invariants": ["SelIsSubsetOfU", "HiddenNeverSelected", "DefaultsNeverSelected", "MorePatternsSelectLess"], "actions": m.coverage},
            "acceptor": {"module": "SelectionTrace.tla", "events": len(sel_events), "rejected": len(rejected)},
            "pathspec_crosscheck": "the five pattern classes agree with pathspec on every universe path",
            "model_drift": rep.drift, "known_findings_hit": sorted(rep.known),
        },
        assumptions=["exhaustive over the path universe for every configuration run; two-pattern lists are sampled (70 in the quick tier, 1200 on the depth-3 universe of the thorough tier)", "supported extensions are read off Pygments (trusted), not off codelimit",
                     "each scan starts from an empty Configuration.exclude, as a fresh CLI process does; `scan` is reached in-process through the command line parser of codelimit.__main__ (typer's CliRunner); when exclusions are given as options its entry point function is called directly (this environment's typer / click pair cannot parse --exclude)"],
    )
    return rc


def replay(path: str) -> int:
    case = json.loads(open(path).read())
    if case["kind"] == "builtins":
        r = guarded(observe_builtins, None, 120)
        print("expected:", case["expected"], "observed:", r)
        if r[0] == "ok" and r[1] == case["expected"]:
            return 0
        print(f"VIOLATION property={PROP} replay={path}")
        return 1
    if case["kind"] == "walk":
        r = guarded(walk_orders, case["order_seed"], 120)
        print("expected:", case["expected"], "observed:", r)
        if r[0] == "ok" and r[1] == case["expected"]:
            return 0
        print(f"VIOLATION property={PROP} replay={path}")
        return 1
    pats = [tuple(p) for p in case["patterns"]]
    if case["kind"] == "universe":
        r = guarded(observe_config, (case["depth"], pats, case["sources"], case["root_form"]), 600)
        dirs, files = U.universe_paths(case["depth"])
        ev = {"kind": "scan", "pats": [pat_json(p) for p in pats], "present": [tla_path(f) for f in files]}
        if r[0] == "ok":
            ev.update(exc="", got=[tla_path(k.split("/")) for k in r[1]["keys"]], meta_ok=r[1]["meta_ok"])
        else:
            ev.update(exc="x", got=[], meta_ok=True)
    else:
        r = guarded(observe_subtree, (case["seed"], case["depth"], pats, case["sources"]), 300)
        ev = {"kind": "scan", "pats": [pat_json(p) for p in pats]}
        if r[0] == "ok":
            ev.update(exc="", present=[tla_path(f) for f in r[1]["present"]], got=[tla_path(x.split("/")) for x in r[1]["keys"]], meta_ok=True)
        else:
            ev.update(exc="x", present=[], got=[], meta_ok=True)
    print("observed:", str(r)[:800])
    wd = workdir(PROP, "replay")
    rej = accept(wd, [ev], case["depth"], name="replay")
    if rej:
        print(f"VIOLATION property={PROP} replay={path}")
        print("rejected clause:", rej[0])
        return 1
    print("accepted by SelectionTrace.tla")
    return 0
