"""C12 - check and scan agree on every file.

G  Selection.tla: TLC enumerates (exclusion list, how `check` is pointed at the tree: the root as "." or
   absolute, every directory of depth 1 and a sample of depth 2 relative and absolute, every file of depth <= 1
   by relative path) over the universe tree of C11, whose supported files hold functions of 10 / 31 / 61 lines,
   malformed text or Latin-1 bytes; each pair is run for real through check_command from the codebase root.
A  SelectionTrace.tla judges every recorded run: the files check looked at are exactly the contributing files
   beneath the target (excluded never, hidden never below a directory), a relative file is checked iff it is
   not excluded and supported, and what is listed for each file is exactly what scan measures above 30 lines
   (same names, positions, lengths, same decoding).
"""
from __future__ import annotations

import contextlib
import io
import json
import os
import random
import re
import shutil
from pathlib import Path

from .. import evidence, tlc
from ..common import MachineryError, Timer, guarded, log, pmap, seed, workdir
from ..findings import Reporter
from ..tlaval import read_dump
from .. import universe as U
from .c11 import accept, from_tla_pattern, pat_json, tla_path, world

PROP = "C12"
BOUNDS = {"quick": dict(depth=2, configs=30, depth2_dirs=6, files_depth=1), "thorough": dict(depth=2, configs=120, depth2_dirs=30, files_depth=2)}
_LINE = re.compile(r"^(?P<path>.+?):(?P<line>\d+):(?P<col>\d+): (?P<len>\d+) (?P<sym>\S) (?P<name>\S+)\s*$")
_SCAN = {}


def scan_reference(depth):
    """What scan measures for every file of the universe that it can reach (no configured exclusions)."""
    if depth not in _SCAN:
        from codelimit.common.Configuration import Configuration
        from codelimit.common.Scanner import scan_path

        top, root, files = world(depth)
        U.configure(root, [], [])
        Configuration.exclude = []
        os.chdir(root)
        cb = scan_path(root)
        os.chdir("/")
        _SCAN[depth] = {k: [(m.unit_name, m.start.line, m.start.column, m.value) for m in e.measurements()] for k, e in cb.files.items()}
    return _SCAN[depth]


def observe_check(arg):
    import typer

    import codelimit.common.CheckResult as CR
    from codelimit.commands.check import check_command
    from codelimit.common.Configuration import Configuration

    depth, pats, srcs, target = arg
    top, root, files = world(depth)
    ref = scan_reference(depth)
    opt = U.configure(root, pats, srcs)
    kind, names, form = target
    rel = "/".join(names)
    os.chdir(root)
    if kind == "file":
        p = Path(rel)
    else:
        p = (root / rel) if form == "absolute" else Path(rel if rel else ".")
    checked = []
    orig = CR.CheckResult.add

    def add(self, file, measurements):
        checked.append((str(file), [(m.unit_name, m.start.line, m.start.column, m.value) for m in measurements]))
        return orig(self, file, measurements)

    CR.CheckResult.add = add
    buf = io.StringIO()
    code = None
    try:
        Configuration.exclude = []
        Configuration.verbose = False
        if opt:
            Configuration.exclude.extend(opt)
        if not opt:
            # the way a user reaches it: through the command line parser of codelimit.__main__ (argument conversion included);
            # with exclusions given as options check_command is called directly (this environment's typer / click pair
            # cannot parse --exclude)
            from typer.testing import CliRunner

            from codelimit.__main__ import cli

            res = CliRunner().invoke(cli, ["check", str(p)])
            if res.exception is not None and not isinstance(res.exception, SystemExit):
                raise res.exception
            buf.write(res.output)
            code = res.exit_code if res.exit_code != 0 else None
        else:
            Configuration.load(Path("."))
            with contextlib.redirect_stdout(buf):
                try:
                    check_command([p], False)
                except typer.Exit as e:
                    code = e.exit_code
    finally:
        CR.CheckResult.add = orig
        os.chdir("/")
        U.configure(root, [], [])
    # project: which files (root-relative) were checked, and is the listing what scan measures above 30?
    out_files, same = [], True
    why = ""
    for fpath, risks in checked:
        ap = Path(fpath)
        ap = ap if ap.is_absolute() else (root / ap)
        try:
            r = os.path.relpath(os.path.realpath(ap), os.path.realpath(root))
        except ValueError:
            r = str(ap)
        out_files.append(r)
        exp = sorted([m for m in ref.get(r, []) if m[3] > 30], key=lambda m: -m[3])
        if r in ref and risks != exp:
            same = False
            why = f"{r}: check lists {risks}, scan measures {exp}"
    printed = []
    for ln in buf.getvalue().splitlines():
        mm = _LINE.match(ln.strip())
        if mm:
            printed.append((mm.group("path"), int(mm.group("line")), int(mm.group("col")), int(mm.group("len")), mm.group("name")))
    flat = [(name, line, col, ln_) for _f, risks in checked for (name, line, col, ln_) in risks]
    if [(x[4], x[1], x[2], x[3]) for x in printed] != flat:
        same = False
        why = why or f"printed lines {printed[:3]} differ from the checked measurements {flat[:3]}"
    return {"checked": out_files, "same_as_scan": same, "why": why, "exit": code, "unmaintainable_expected": any(m[3] > 60 for f in out_files for m in ref.get(f, []))}


# Exclusion lists OUTSIDE the modelled pattern classes (negations re-including below an excluded directory, order
# dependent): Selection.tla says nothing about them, but C12 is an agreement property - whatever scan analyses
# under such a list is what check must look at. Judged by the recorded scan of the same configuration only.
NEG_LISTS = [
    ([("raw", "!tests/m.py")], ["gitignore"]),
    ([("raw", "!build/m.c")], ["yml"]),
    ([("raw", "!venv/lib/")], ["option"]),
    ([("dir", "src"), ("raw", "!src/m.py")], ["yml", "gitignore"]),
    ([("raw", "!src/m.py"), ("dir", "src")], ["option", "gitignore"]),
    ([("ext", "py"), ("raw", "!m.py")], ["gitignore", "gitignore"]),
    ([("bare", "lib"), ("raw", "!lib/m.ts")], ["yml", "gitignore"]),
    ([("star", "src"), ("raw", "!src/lib/")], ["gitignore", "gitignore"]),
    ([("raw", "!*.py"), ("raw", "!tests/")], ["gitignore", "yml"]),
]


def observe_agree(arg):
    """One configuration: the real scan's file set, then check on every directory target."""
    from .c11 import run_scan

    depth, pats, srcs, targets = arg
    top, root, files = world(depth)
    opt = U.configure(root, pats, srcs)
    try:
        scanned = sorted(run_scan(root, root, Path("."), opt))
    finally:
        os.chdir("/")
        shutil.rmtree(root / ".codelimit_cache", ignore_errors=True)
        U.configure(root, [], [])
    out = []
    for tg in targets:
        r = observe_check((depth, pats, srcs, tg))
        out.append({"target": [tg[0], list(tg[1]), tg[2]], "checked": r["checked"], "same_as_scan": r["same_as_scan"], "why": r["why"]})
    return {"scanned": scanned, "runs": out}


def run(tier: str) -> int:
    b = BOUNDS[tier]
    t = Timer()
    rep = Reporter(PROP)
    wd = workdir(PROP)
    os.environ.pop("COLUMNS", None)  # check's output is captured: the console is the default 80 columns wide, as in a hook or in CI
    dirs, files = U.universe_paths(b["depth"])
    rng = random.Random(seed() * 47 + 12)
    d1 = [d for d in dirs if len(d) == 1 and not d[0].startswith(".")]
    d2 = [d for d in dirs if len(d) == 2 and not any(x.startswith(".") for x in d)]
    rng.shuffle(d2)
    tdirs = [()] + d1 + d2[: b["depth2_dirs"]]
    tfiles = [f for f in files if len(f) - 1 <= b["files_depth"] and (len(f) == 1 or f[0] in ("src", "lib", "gen.py", "tests"))]
    if tier == "quick":
        tfiles = [f for f in tfiles if len(f) == 1] + rng.sample([f for f in tfiles if len(f) == 2], 30)
    tl = []
    for d in tdirs:
        for form in ("relative", "absolute"):
            tl.append(("dir", d, form))
    for f in tfiles:
        tl.append(("file", f, "relative"))

    # TLC enumerates (exclusion list, source of each pattern, CLASS of target); the harness expands every class
    # to all its concrete members of the universe
    classes = ["root_relative", "root_absolute", "dir1_relative", "dir1_absolute", "dir2_relative", "dir2_absolute", "file0_relative", "file1_relative"]
    mod, cfg = U.run_module(b["depth"], U.PATTERN_POOL, 2, ["yml", "option", "gitignore"], ["absolute"], "{" + ", ".join('"%s"' % c for c in classes) + "}", compute_sel=False)
    m = tlc.run("SelectionRun", cfg, wd, extra={"SelectionRun.tla": mod}, dump=True, timeout=2400)
    if m.violated:
        raise MachineryError(f"reference sanity invariant violated in Selection.tla: {m.violated}")
    confs = {}
    seen_classes = set()
    for st in read_dump(m.dump, only=lambda c: '"unset"' not in c):
        pats = tuple(from_tla_pattern(p) for p in st["pats"])
        srcs = tuple(st["src"]) if not isinstance(st["src"], dict) else tuple(st["src"][i + 1] for i in range(len(pats)))
        confs[(pats, srcs)] = confs.get((pats, srcs), 0) + 1
        seen_classes.add(st["target"])
    if seen_classes != set(classes):
        raise MachineryError(f"TLC did not enumerate every target class: {seen_classes}")
    keys = sorted(confs, key=lambda k: (len(k[0]), str(k)))
    singles = [k for k in keys if len(k[0]) <= 1]
    pairs = [k for k in keys if len(k[0]) == 2 and k[1][0] != k[1][1]]
    rng.shuffle(singles)
    rng.shuffle(pairs)
    chosen = [k for k in keys if len(k[0]) == 0][:1] + singles[: b["configs"] // 2] + pairs[: b["configs"] - b["configs"] // 2]
    jobs = [(b["depth"], list(k[0]), list(k[1]), t_) for k in chosen for t_ in tl]
    res = pmap(observe_check, jobs, timeout=900, chunk=8)
    present = [tla_path(f) for f in files]
    events = []
    for j, r in zip(jobs, res):
        kind, names, form = j[3]
        ev = {"kind": "check", "pats": [pat_json(p) for p in j[1]], "present": present if kind == "dir" else [tla_path(names)], "target_kind": kind, "target": tla_path(names)}
        if r[0] == "ok":
            ev.update(exc="", checked=[tla_path(x.split("/")) for x in r[1]["checked"]], same_as_scan=r[1]["same_as_scan"])
        else:
            ev.update(exc=r[1] if r[0] == "exc" else "timeout", checked=[], same_as_scan=True)
        events.append(ev)
    log(f"[C12] G {m.distinct} (configuration, target) states enumerated; {len(chosen)} configurations x {len(tl)} targets = {len(jobs)} check runs from the codebase root, {t.s()}s")
    # agreement under lists outside the modelled classes, and under a sample of the modelled ones
    dir_targets = [x for x in tl if x[0] == "dir"]
    ajobs = [(b["depth"], pl, sl, dir_targets) for pl, sl in NEG_LISTS] + [(b["depth"], list(k[0]), list(k[1]), dir_targets) for k in chosen[:6]]
    ares = pmap(observe_agree, ajobs, timeout=1800, chunk=1)
    n_model = len(events)
    aowner = []
    for aj, ar in zip(ajobs, ares):
        if ar[0] != "ok":
            events.append({"kind": "agree", "pats": [], "present": [], "target_kind": "dir", "target": [], "exc": ar[1] if ar[0] == "exc" else "timeout", "checked": [], "scanned": [], "same_as_scan": True})
            aowner.append((aj, None))
            continue
        for run_ in ar[1]["runs"]:
            events.append({"kind": "agree", "pats": [], "present": [], "target_kind": "dir", "target": tla_path(run_["target"][1]), "exc": "",
                           "checked": [tla_path(x.split("/")) for x in run_["checked"]], "scanned": [tla_path(x.split("/")) for x in ar[1]["scanned"]], "same_as_scan": run_["same_as_scan"]})
            aowner.append((aj, run_))
    log(f"[C12] G agreement: {len(ajobs)} configurations ({len(NEG_LISTS)} with negated patterns) scanned and checked on {len(dir_targets)} directory targets each, {t.s()}s")
    rejected = accept(wd, events, b["depth"], name="c12_trace")
    for n in [x for x in sorted(rejected) if x >= n_model]:
        aj, run_ = aowner[n - n_model]
        rep.fail({"clause": rejected[n], "patterns": [U.pattern_text(p) for p in aj[1]], "sources": aj[2], "target": run_["target"] if run_ else None, "site": "agreement"},
                 {"kind": "agree", "depth": aj[0], "patterns": [list(p) for p in aj[1]], "sources": aj[2], "target": run_["target"] if run_ else None, "observed": run_})
    rejected = {k: v for k, v in rejected.items() if k < n_model}
    for n, clause in sorted(rejected.items()):
        j, r = jobs[n], res[n]
        rep.fail({"clause": clause, "patterns": [U.pattern_text(p) for p in j[1]], "sources": j[2], "target": [j[3][0], "/".join(j[3][1]), j[3][2]]},
                 {"depth": j[0], "patterns": [list(p) for p in j[1]], "sources": j[2], "target": [j[3][0], list(j[3][1]), j[3][2]], "observed": r[1] if r[0] == "ok" else list(r)})
    n_listed = sum(1 for r in res if r[0] == "ok" and r[1]["checked"])
    log(f"[C12] A accepted {len(events) - len(rejected)}/{len(events)} check runs ({n_listed} looked at one file or more), {t.s()}s")
    rc = rep.finish()
    evidence.write(
        PROP, tier, level="model_checking", wall_s=t.s(), violations=rep.n_violations,
        coverage={
            "states": m.distinct, "transitions": m.transitions, "traces_validated_against_impl": len(jobs), "exhaustive": False,
            "samples": [{"patterns": [U.pattern_text(p) for p in jobs[i][1]], "sources": jobs[i][2], "target": [jobs[i][3][0], "/".join(jobs[i][3][1]), jobs[i][3][2]],
                         "checked": (res[i][1]["checked"][:5] if res[i][0] == "ok" else list(res[i]))} for i in (0, len(jobs) // 2, len(jobs) - 1)],
            "bounds": {"universe_depth": b["depth"], "universe_files": len(files), "targets": len(tl), "directory_targets": len(tdirs) * 2, "file_targets": len(tfiles), "configurations_run": len(chosen),
                       "states_enumerated": m.distinct, "agreement_configurations": len(ajobs), "agreement_with_negated_patterns": len(NEG_LISTS), "agreement_runs": len(events) - n_model},
            "model": {"module": "Selection.tla (+ generated SelectionRun.tla)", "actions": m.coverage},
            "acceptor": {"module": "SelectionTrace.tla", "events": len(events), "rejected": len(rejected)},
            "model_drift": rep.drift, "known_findings_hit": sorted(rep.known),
        },
        assumptions=["run from the codebase root (cwd = root), as the property says", "the files check looks at are observed by wrapping CheckResult.add from the harness (no source hook)",
                     "what scan measures is taken from scan_path on the same tree without configured exclusions", "a hidden file or an absolute file path named directly is unconstrained"],
    )
    return rc


def replay(path: str) -> int:
    case = json.loads(open(path).read())
    pats = [tuple(p) for p in case["patterns"]]
    tgt = (case["target"][0], tuple(case["target"][1]), case["target"][2])
    if case.get("kind") == "agree":
        r = guarded(observe_agree, (case["depth"], pats, case["sources"], [tgt]), 900)
        print("observed:", str(r)[:1200])
        if r[0] == "ok":
            run_ = r[1]["runs"][0]
            ev = {"kind": "agree", "pats": [], "present": [], "target_kind": "dir", "target": tla_path(tgt[1]), "exc": "", "checked": [tla_path(x.split("/")) for x in run_["checked"]],
                  "scanned": [tla_path(x.split("/")) for x in r[1]["scanned"]], "same_as_scan": run_["same_as_scan"]}
        else:
            ev = {"kind": "agree", "pats": [], "present": [], "target_kind": "dir", "target": [], "exc": "x", "checked": [], "scanned": [], "same_as_scan": True}
        rej = accept(workdir(PROP, "replay"), [ev], case["depth"], name="replay")
        if rej:
            print(f"VIOLATION property={PROP} replay={path}")
            print("rejected clause:", rej[0])
            return 1
        print("accepted by SelectionTrace.tla")
        return 0
    r = guarded(observe_check, (case["depth"], pats, case["sources"], tgt), 900)
    print("observed:", str(r)[:1200])
    dirs, files = U.universe_paths(case["depth"])
    ev = {"kind": "check", "pats": [pat_json(p) for p in pats], "present": [tla_path(f) for f in files] if tgt[0] == "dir" else [tla_path(tgt[1])], "target_kind": tgt[0], "target": tla_path(tgt[1])}
    if r[0] == "ok":
        ev.update(exc="", checked=[tla_path(x.split("/")) for x in r[1]["checked"]], same_as_scan=r[1]["same_as_scan"])
    else:
        ev.update(exc="x", checked=[], same_as_scan=True)
    wd = workdir(PROP, "replay")
    rej = accept(wd, [ev], case["depth"], name="replay")
    if rej:
        print(f"VIOLATION property={PROP} replay={path}")
        print("rejected clause:", rej[0])
        return 1
    print("accepted by SelectionTrace.tla")
    return 0
