"""Generates /verif/MANIFEST.json from one table (run: /venv/bin/python -m vf.manifest)."""
from __future__ import annotations

import json

from .common import VERIF

BASE_NOTE = ("Trusted base: TLC 1.8.0 + CommunityModules JSON reader, Pygments as lexer, Python json as JSON oracle. "
             "Bounded: exhaustive up to the constants written into the evidence file, randomised beyond; no unbounded proof.")

# id -> dict(engine, text, note, technique, ref) ; absent => not yet claimed
CHECKS: dict[str, dict] = {
    "C13": dict(
        engine="spec/Thompson.tla, spec/Regex.tla, spec/RegexCases.tla, spec/MatcherTrace.tla",
        text="TLC checks the implementation-shaped model of the NFA construction, epsilon closure, subset stepping, match/nfa_match/starts_with "
             "(Thompson.tla) against the reference language semantics (Regex.tla) for every pattern up to N items x every word up to K letters; "
             "the same space with reference verdicts is exported and replayed into the real engine call by call (incl. that building terminates); "
             "random larger patterns are recorded from the real engine and accepted by TLC (MatcherTrace.tla).",
        note="Letters are distinct Identity predicates (pairwise disjoint). " + BASE_NOTE,
        technique="TLA+ model checked by TLC + exhaustive spec->code replay + TLC trace acceptance",
        ref="5-C13",
    ),
    "C14": dict(
        engine="spec/FindAll.tla, spec/Regex.tla, spec/RegexCases.tla, spec/MatcherTrace.tla, spec/HeaderCases.tla, spec/HeaderTrace.tla, spec/AutomatonSem.tla, spec/NestedSearch.tla, spec/NestedCases.tla, spec/NestedSearchTrace.tla",
        text="TLC checks the find_all loop as coded (FindAll.tla: one attempt at a time, leftmost first) clause by clause against the reference "
             "search semantics of Regex.tla for every non-nullable pattern up to N items x every word up to K; every (pattern, word) is replayed into the real "
             "find_all and every result that differs from the reference result is judged clause by clause by TLC (MatcherTrace.tla), as are random larger "
             "patterns; the built-in header shapes are covered by enumerating all token-class sequences over the header automata extracted from the running "
             "code (HeaderCases.tla) with BalancedEnd, replayed with concrete tokens and judged by HeaderTrace.tla; the header search above find_all "
             "(get_headers: candidates, followed_by, search inside rejected candidates) is modelled as coded in NestedSearch.tla (sound, sorted, disjoint, equal to its "
             "recursive definition, complete, terminating), every generated (pattern, followed_by, word) of NestedCases.tla is replayed into the real get_headers and "
             "differing or random calls are judged by NestedSearchTrace.tla.",
        note="Non-nullable patterns; letters are disjoint Identity predicates; header automata and predicate tables are extracted from the live code "
             "(predicates depend on a token only through kind/value and one nesting counter). " + BASE_NOTE,
        technique="TLA+ model checked by TLC + exhaustive spec->code replay + TLC trace acceptance",
        ref="5-C14",
    ),
    "C15": dict(
        engine="spec/TokenAutomaton.tla, spec/AutomatonSem.tla, generated AutomatonData.tla (vf/extract.py)",
        text="Finite and complete for the abstraction: the DFA of every header / follow-up expression of every language and the acceptance table of every "
             "predicate (token kind x distinguished value x nesting depth -1..8) are extracted from the running code; TLC explores every reachable "
             "(automaton, state, depth vector) under every token class and checks that at most one transition is enabled; every reachable configuration's "
             "witness path is replayed into a real Pattern and every token class fed to it (no ValueError, same successor and counters as the model). "
             "",
        note="Assumes predicates depend on a token only through (kind, value) and on history only through one nesting counter, uniform beyond depth 2 "
             "(both checked while probing); expressions are those extract_headers passes to find_all/starts_with on seed programs. " + BASE_NOTE,
        technique="TLC reachability over automata extracted from the code + replay of every configuration into the real matcher",
        ref="5-C15",
    ),
    "C19": dict(
        engine="spec/Percent.tla, spec/PercentTrace.tla, spec/LiveCodebase.tla",
        text="TLC checks the rounding algorithm as coded (exact integer arithmetic) against the property's clauses (range, sum 100, within two points, "
             "non-zero shown) in every reachable quality profile with total <= T; every such profile is fed to the real Report.quality_profile_percentage(), "
             "a sample also through both print_summary renderers (figures and verdict sentence parsed back) and through real measurement lists; all recorded "
             "calls plus random profiles with totals up to 10^7 are accepted by TLC against the property (PercentTrace.tla), not against the algorithm model. "
             "LiveCodebase.tla: every history of add_file calls (new paths and paths already present) on ONE live Codebase with reads in between; every read "
             "is accepted by PercentTrace.tla against the share of the entries held at that moment.",
        note="Profiles injected through report.quality_profile unless realisable; comparisons by cross-multiplication below 2^31. " + BASE_NOTE,
        technique="TLA+ model checked by TLC + exhaustive spec->code replay + TLC trace acceptance",
        ref="5-C19",
    ),
    "C02": dict(
        engine="spec/Thresholds.tla, spec/ThresholdTrace.tla, spec/LiveCodebase.tla",
        text="Thresholds.tla grows a codebase one function at a time over the boundary lengths {2,14..17,29..32,59..62} x 2 files/languages and carries the "
             "expected profile, counters, findings and check listing/count/exit/quiet behaviour as ghost state; every reachable state is rebuilt for real "
             "(Codebase/Report objects; real Python and C source files checked end-to-end by check_command) and compared; every single length 1..70 and "
             "large values is fed to the 16 places in the code that re-implement the comparison and TLC judges each against Category(L) (ThresholdTrace.tla). "
             "LiveCodebase.tla: every history of up to 3-4 add_file calls on ONE live Codebase with reads in between (profile, findings, counters, "
             "measurements compared with the ghost expectation of each read).",
        note="Generated functions have exactly the chosen length (asserted via names in the listing). Internal helpers that no longer exist are skipped, "
             "end-to-end outputs are always judged. " + BASE_NOTE,
        technique="TLA+ state machine enumerated by TLC, every state replayed into the code + TLC trace acceptance",
        ref="5-C02",
    ),
    "C07": dict(
        engine="spec/Codebase.tla, spec/CodebaseTrace.tla, spec/LengthCategories.tla",
        text="Codebase.tla models add_file / the recursive add_folder / aggregate as coded, with the property's clauses as invariants stated from per-file "
             "data only; TLC explores every insertion order of every set of up to N files over a path universe (2 directory names, depth <= 2, 2-3 file "
             "names, 3 measurement lists); every reachable state is rebuilt with a real Codebase (and ScanTotals, ReportWriter) and compared with the model "
             "state; final states, any disagreeing projection and random larger codebases (<= 12 files, depth <= 5) are judged by TLC against the reference "
             "clauses (CodebaseTrace.tla).",
        note="Distinct paths per codebase; loc = sum of function lengths; aggregate() called once. " + BASE_NOTE,
        technique="TLA+ model checked by TLC + every state replayed into the code + TLC trace acceptance",
        ref="5-C07",
    ),
    "C16": dict(
        engine="spec/Lexing.tla, spec/LexTrace.tla",
        text="Lexing.tla models the offset->(line, column) loop of lex and the filter rules; TLC checks the property's clauses in every loop state over every "
             "text up to N characters over {newline, blank, other} and every tokenisation step; a witness tokenisation for every loop state is replayed through "
             "the real lex() with a stub lexer; the real Pygments lexers of the 7 languages are run on the vendored corpus and on synthetic texts (tabs, CRLF, "
             "non-ASCII, multi-line tokens, missing trailing newline) and every returned token is judged by TLC (LexTrace.tla) against facts read off the raw text.",
        note="Whitespace token = type Text/Whitespace with empty or all-whitespace text; Pygments offsets assumed non-decreasing (checked per input). " + BASE_NOTE,
        technique="TLA+ model checked by TLC + spec->code replay through a stub lexer + TLC trace acceptance of real lexer runs",
        ref="5-C16",
    ),
    "C01": dict(
        engine="spec/Program.tla (+ vf/render.py), spec/Scopes.tla, spec/ScopesTrace.tla, spec/PySuite.tla",
        text="Program.tla is the canonical-fragment grammar as a state machine (one action per construct: function header in nine variants incl. multi-line, "
             "brace-on-next-line, throws / return-type tails on their own lines, class and call-wrapped anonymous class, control, else, anonymous function, close, "
             "statements incl. string literals with delimiters, multi-line initialiser, blank, comment) with the expected first "
             "line, last line and own length of every function per layout family as ghost state, and sanity invariants checked by TLC in every state. Every "
             "complete program of seven bounded configurations (breadth, nesting depth up to 4/5, mixed, call-wrapped classes one and two levels deep, body lengths "
             "across 15/30/60) is rendered in each of the 7 languages (where the construct exists) and analysed through the scanner's own file path; name, start "
             "line/column, end line/column, length, order and absence of extras are compared with the specification. Two implementation-shaped models are bound "
             "to the code underneath: Scopes.tla (pairing of headers and blocks, folding, counting; recorded build_scopes intermediates recomputed by TLC) and "
             "PySuite.tla (the Python suite finder as coded = the reference suite for every sequence of logical lines; every structure replayed into the real "
             "extract_blocks, valid ones cross-checked with CPython's parser).",
        note="Canonical fragment = the grammar of Program.tla as rendered by vf/render.py; expected lines from the specification, the two columns from the "
             "renderer's construction knowledge (rendered line numbers asserted equal to the specification's). " + BASE_NOTE,
        technique="TLC-enumerated derivations with ghost oracle, every terminal state replayed into the real analysis",
        ref="5-C01",
    ),
    "C04": dict(
        engine="spec/Edits.tla, spec/EditTrace.tla, spec/Program.tla",
        text="Edits.tla states what must be reported for an edited text as a function of what is reported for the base text (Shift) and enumerates edit "
             "scripts (simultaneous insertions of blank / whitespace-only / comment-only lines in every comment style, trailing comments, trailing "
             "whitespace) over abstract points; the points are bound to token-safe positions (decided from the raw Pygments stream) of rendered canonical "
             "programs in all 7 languages and of the vendored real-world corpus; TLC accepts every (base scan, script, edited scan) triple (EditTrace.tla): "
             "same functions, names, order, lengths, each line number shifted by the number of lines inserted above it.",
        note="Metamorphic (the base list is what the code reports); an edit that changes the non-comment token stream is skipped and counted; not exhaustive "
             "over positions in the quick tier (sampled, stratified), every safe boundary once in the thorough tier. " + BASE_NOTE,
        technique="TLC-enumerated edit scripts bound to real files + TLC trace acceptance of the metamorphic relation",
        ref="5-C04",
    ),
    "C17": dict(
        engine="spec/Edits.tla, spec/EditTrace.tla, spec/Program.tla",
        text="Edits.tla states Visible(Shift(base, script), marked) - the marked functions disappear, every other tuple is identical - and enumerates marking "
             "scripts (subsets of function slots x marker variants in every comment style, letter case and spacing, mixed with decoys: the word later in a "
             "comment, the marker on the line below or as a comment line above the name's line); slots are bound to eligible name lines (decided from the raw "
             "Pygments stream) of rendered canonical programs in all 7 languages and of the vendored corpus; TLC accepts every (base scan, script, edited "
             "scan) triple (EditTrace.tla) on full tuples (name, span, length).",
        note="Only functions that neither enclose nor are nested in another reported function are marked; metamorphic on the code's own base result; sampled "
             "subsets, not exhaustive over all subsets of all files. " + BASE_NOTE,
        technique="TLC-enumerated marking scripts bound to real files + TLC trace acceptance",
        ref="5-C17",
    ),
    "C03": dict(
        engine="spec/Mutations.tla, spec/CheckNaming.tla, spec/MeasureTrace.tla, spec/Program.tla",
        text="Mutations.tla makes the environment's choice of file content an explicit action: TLC enumerates the mutation graph over canonical base programs "
             "(every token prefix / suffix, character cuts, single line and token deletions, duplications and swaps, token soups over each language's lexical "
             "alphabet, deep nesting, non-UTF-8 bytes; chains of two in the thorough tier) and vf/mutate.py binds it to concrete texts of the 7 languages; "
             "CheckNaming.tla enumerates argument form x working directory x --quiet. Every input is analysed by the real scan_file under a watchdog, nasty "
             "files are scanned as a tree by scan_command and checked by check_command under every naming; MeasureTrace.tla has actions only for normal "
             "returns, so an exception, a time-out or an exit status other than 0/1 is a rejected event.",
        note="Positions are folded onto each base by modulo; a time-out counts only if it reproduces with ten times the budget; not a proof for all byte strings. " + BASE_NOTE,
        technique="TLC-enumerated mutation graph replayed into the code + TLC trace acceptance (normal returns only)",
        ref="5-C03",
    ),
    "C05": dict(
        engine="spec/Measure.tla, spec/MeasureTrace.tla, spec/Mutations.tla, spec/Program.tla",
        text="Same TLC-enumerated input space as C03 plus the canonical bases and the vendored corpus; for every analysed input the harness records the table "
             "of kept code tokens (start, end computed from the token text, identifier text), the line lengths and the measurement list, and TLC evaluates "
             "Measure.tla clause by clause: Lines, Columns, StartsAtToken, EndsAfterToken, NameInside, LengthBounds, SourceOrderDistinctStarts; a tree of sampled "
             "inputs is scanned through scan_path for FileTotalIsSumOfLengths.",
        note="Token positions are taken from codelimit's own lexing (their faithfulness is C16's subject). " + BASE_NOTE,
        technique="TLC-enumerated mutation graph replayed into the code + TLC evaluation of the well-formedness predicate on every result",
        ref="5-C05",
    ),
    "C09": dict(
        engine="spec/Workspace.tla, spec/WorkspaceTrace.tla",
        text="Workspace.tla models files, exclusions, the on-disk cache (none / readable report with version, entries, honesty / damaged) and the commands, with "
             "Scan as coded; TLC checks ScanEqualsFresh, ReuseOnlyIfUnchanged, ForeignNeverReused, RefuseForeign, ScanLeavesValidCache, DamagedCacheIsIgnored "
             "and CacheHonestUnlessTampered over every history of up to 6-7 operations (write, delete, rename, touch, swap, change exclusions, foreign-version "
             "cache, altered checksum / key, taint, damage, scan, report, findings). Every history of length 4 over all operations and every history of "
             "length 5 around the version guard is replayed on a real directory through scan_command / report_command / findings_command; cache reuse is "
             "observed by tainting entries; every step is judged by TLC on the projected state before and after it (WorkspaceTrace.tla), as are random longer histories.",
        note="Each command starts from an empty Configuration.exclude (fresh CLI process); three Python contents with distinct results; payload tampering that "
             "keeps the checksum is outside the property and used only as the reuse probe. " + BASE_NOTE,
        technique="TLA+ model checked by TLC + exhaustive replay of bounded histories on real directories + TLC trace validation",
        ref="5-C09",
    ),
    "C10": dict(
        engine="spec/Workspace.tla, spec/WorkspaceTrace.tla",
        text="Workspace.tla's Damage action interleaved with edits and scans is model-checked (ScanLeavesValidCache, DamagedCacheIsIgnored); on real directories "
             "the abstract damage is expanded to every byte offset at which the cache write can be cut short (two reference reports, about 2 200 offsets) and "
             "to about 1 100 structural variants (scalars, lists, every key removed at every level, every value replaced by wrong types) plus empty / "
             "whitespace / non-JSON files, cache directory without file or without marker files, stray partial files, and TLC-chosen sequences of faults, "
             "edits and scans; every step is judged by TLC (WorkspaceTrace.tla): the scan completes, equals the fresh scan and leaves a valid cache of this version.",
        note="A cut-short write leaves a prefix of the bytes; marker files need not be restored; a directory in place of the cache file is not in the property "
             "and not generated. " + BASE_NOTE,
        level="model_checking",
        technique="TLA+ model checked by TLC + exhaustive crash-point / fault enumeration on real directories + TLC trace validation",
        ref="5-C10",
    ),
    "C11": dict(
        engine="spec/Selection.tla, spec/SelectionTrace.tla (+ generated SelectionRun.tla)",
        text="Selection.tla defines Contributes(path, exclusions) (hidden rule, built-in exclusions, the five unambiguous gitignore pattern classes, supported "
             "extensions) and TLC enumerates the configurations (lists of <= 2 patterns x source of each pattern: config file / --exclude option / root "
             ".gitignore x root given relative / absolute / with '..') with the ghost set of contributing paths over a complete universe tree (all paths of "
             "depth <= 2 over 7 directory names x 14 file names: 657 files). Every single-pattern configuration and a seeded sample of two-pattern ones is run "
             "through the real `scan` entry point on that tree; analysed set, keys, language and checksum are compared; random sub-trees check that files do "
             "not influence each other; TLC judges recorded scans path by path (SelectionTrace.tla).",
        note="The pattern classes' reading is cross-checked against pathspec on the universe at run time; supported extensions are read off Pygments. " + BASE_NOTE,
        technique="TLC-enumerated configurations with ghost oracle over a complete path universe, replayed through the real scan + TLC trace acceptance",
        ref="5-C11",
    ),
    "C12": dict(
        engine="spec/Selection.tla, spec/SelectionTrace.tla (+ generated SelectionRun.tla)",
        text="Over the same universe tree (supported files hold functions of 10 / 31 / 61 lines, malformed text or Latin-1 bytes) TLC enumerates exclusion list x "
             "source x class of check target (root as '.' or absolute, directories of depth 1 / 2 relative and absolute, files by relative path); the harness "
             "expands each class to all its members and runs check_command from the codebase root; TLC judges every run (SelectionTrace.tla): the files check "
             "looks at are exactly the contributing files beneath the target, excluded never, hidden never below a directory, and what it lists for each file "
             "is exactly what scan measures above 30 lines (names, positions, lengths, decoding). A second phase judges agreement against the recorded scan of the same "
             "configuration, which also covers exclusion lists outside the modelled pattern classes (negated patterns).",
        note="Files looked at are observed by wrapping CheckResult.add from the harness; configurations are sampled, targets exhaustive for the sampled configurations. " + BASE_NOTE,
        technique="TLC-enumerated configurations and targets replayed through the real check + TLC trace acceptance against scan",
        ref="5-C12",
    ),
    "C08": dict(
        engine="spec/ReportDoc.tla, spec/ReportDocTrace.tla",
        text="ReportDoc.tla is a state machine that builds report values (files in insertion order at several tree positions, measurements, with / without "
             "repository, with / without version, root) whose string fields range over 12 string classes (quote, backslash, backslash-quote, newline, tab, "
             "control, non-ASCII, astral, trailing backslash, JSON-looking text, empty, plain) and states the round-trip laws; TLC enumerates every value with "
             "at most K non-plain fields; each is instantiated with concrete strings, written by the real ReportWriter (pretty and compact), parsed by Python's "
             "json, read back by ReportReader and rewritten; TLC judges the laws field by field on interned projections (ReportDocTrace.tla).",
        note="Structure coverage is exhaustive within the bounds; character-level coverage is per class with a few representatives and json as trusted oracle - "
             "that part is exploration, not model checking. " + BASE_NOTE,
        technique="TLC-enumerated report values instantiated and replayed through writer / json / reader + TLC acceptance of the round-trip laws",
        ref="5-C08",
    ),
    "C18": dict(
        engine="spec/Render.tla, spec/RenderTrace.tla (+ generated RenderRun.tla)",
        text="Render.tla abstracts a report to per-language figure profiles (a table read off real Report objects built through Codebase.add_file) and TLC "
             "enumerates pairs (current, optional previous) over 3 languages - languages added, removed, changed, unchanged, lines-of-code ties - and findings "
             "scenarios (0..13 functions above 30 lines around the 10-row cut, full or not, with or without repository). Every state is rendered by the real "
             "text and Markdown renderers on a recording console and parsed back; TLC judges each rendering (RenderTrace.tla): one row per language ordered "
             "by lines of code, stored figures, current minus previous exactly when they differ for languages present in both and for totals, text = Markdown, "
             "findings only above 30, longest first, at most ten unless full, exact number of omitted rows.",
        note="LC_ALL=C; for a language present only in the current report only the number is checked; a totals row may be absent with a single language. " + BASE_NOTE,
        technique="TLC-enumerated report pairs rendered by the real renderers + TLC trace acceptance",
        ref="5-C18",
    ),
    "C06": dict(
        engine="spec/Session.tla, spec/SessionTrace.tla",
        text="Session.tla enumerates the schedules (every sequence of analyses over a pool of canonical, nested, malformed, Latin-1 and formerly ambiguous "
             "files up to length L with repetitions: every permutation and prefix); they are executed in fresh subprocesses, one group per PYTHONHASHSEED, "
             "each process running its share back to back; whole trees (the vendored corpus, a generated tree) are scanned under permuted directory orders. "
             "SessionTrace.tla replays all logs with the state known[file]: an observation is accepted iff it equals the first digest ever seen for that file "
             "or tree, across processes, seeds and histories.",
        note="Functional consistency (first observation is the reference); identifier, timestamp, key order and order of entry lists of reports are ignored. " + BASE_NOTE,
        technique="TLC-enumerated schedules executed in fresh processes per hash seed + TLC trace validation of functional consistency",
        ref="5-C06",
    ),
}

NOT_YET = "check not built yet in this round (see DESIGN.md section 10 for the order of work)"


def build() -> dict:
    checks = []
    for pid in sorted(CHECKS):
        c = CHECKS[pid]
        checks.append({
            "property_id": pid,
            "quick_cmd": f"./check {pid} --tier quick",
            "thorough_cmd": f"./check {pid} --tier thorough",
            "evidence_file": f"/verif/evidence/{pid}.json",
            "replay_cmd_template": f"./check {pid} --replay {{path}}",
            "engine": c["engine"],
            "level_claimed": {"category": c.get("level", "model_checking"), "text": c["text"], "design_ref": "DESIGN.md section " + c["ref"]},
            "level_note": c["note"],
            "technique": c["technique"],
        })
    na = [{"property_id": f"C{n:02d}", "reason": NOT_YET} for n in range(1, 20) if f"C{n:02d}" not in CHECKS]
    engines = {}
    for pid, c in CHECKS.items():
        for e in c["engine"].split(", "):
            engines.setdefault(e, []).append(pid)
    return {
        "version": 1,
        "setup_cmd": "./check --setup",
        "hooks": {
            "guard": "CODELIMIT_VERIF",
            "enable": "none needed: every property is observed at the return of a public entry point of a sequential library; ./check exports CODELIMIT_VERIF=1 but no source hook reads it",
            "baseline_off_cmd": "cd /repo && /venv/bin/python -m pytest -ra -q -p no:cacheprovider --timeout=900 --continue-on-collection-errors",
            "source_commits": [],
            "add_only": True,
        },
        "engines": [{"name": e.split("/")[-1], "path": "/verif/" + e, "serves_properties": sorted(p), "kind_free_text": "TLA+ module checked with TLC"} for e, p in sorted(engines.items())],
        "checks": checks,
        "not_applicable": na,
        "notes": "Model-based verification with explicit TLA+ specifications (spec/*.tla) checked by TLC and bound to the code by spec->code replays "
                 "and code->spec trace acceptance (DESIGN.md). Genuine defects repaired by `fix:` commits are recorded in known_findings.json.",
    }


if __name__ == "__main__":
    (VERIF / "MANIFEST.json").write_text(json.dumps(build(), indent=1) + "\n")
    print("MANIFEST.json written:", len(build()["checks"]), "checks")
