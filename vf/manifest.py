"""Generates /verif/MANIFEST.json from one table (run: /venv/bin/python -m vf.manifest)."""
from __future__ import annotations

import json

from .common import VERIF

BASE_NOTE = ("Trusted base: TLC 1.8.0 + CommunityModules JSON reader, Pygments as lexer, Python json as JSON oracle. "
             "Bounded: exhaustive up to the constants written into the evidence file, randomised beyond; no unbounded proof.")

# id -> dict(engine, text, note, technique, ref) ; absent => not yet claimed
CHECKS: dict[str, dict] = {
    "C13": dict(
        engine="spec/Thompson.tla, spec/Regex.tla, spec/RegexCases.tla, spec/MatcherTrace.tla",
        text="TLC checks the implementation-shaped model of the NFA construction, epsilon closure, subset stepping, match/nfa_match/starts_with "
             "(Thompson.tla) against the reference language semantics (Regex.tla) for every pattern up to N items x every word up to K letters; "
             "the same space with reference verdicts is exported and replayed into the real engine call by call (incl. that building terminates); "
             "random larger patterns are recorded from the real engine and accepted by TLC (MatcherTrace.tla).",
        note="Letters are distinct Identity predicates (pairwise disjoint). " + BASE_NOTE,
        technique="TLA+ model checked by TLC + exhaustive spec->code replay + TLC trace acceptance",
        ref="5-C13",
    ),
    "C14": dict(
        engine="spec/FindAll.tla, spec/Regex.tla, spec/RegexCases.tla, spec/MatcherTrace.tla, spec/HeaderCases.tla, spec/HeaderTrace.tla, spec/AutomatonSem.tla",
        text="TLC checks the find_all loop as coded (FindAll.tla: parallel attempts, overlap guard, tail loop) clause by clause against the reference "
             "search semantics of Regex.tla for every non-nullable pattern up to N items x every word up to K; every (pattern, word) is replayed into the real "
             "find_all and every result that differs from the reference result is judged clause by clause by TLC (MatcherTrace.tla), as are random larger "
             "patterns; the built-in header shapes are covered by enumerating all token-class sequences over the header automata extracted from the running "
             "code (HeaderCases.tla) with BalancedEnd, replayed with concrete tokens and judged by HeaderTrace.tla. One open finding (eviction of an enclosing attempt).",
        note="Non-nullable patterns; letters are disjoint Identity predicates; header automata and predicate tables are extracted from the live code "
             "(predicates depend on a token only through kind/value and one nesting counter). " + BASE_NOTE,
        technique="TLA+ model checked by TLC + exhaustive spec->code replay + TLC trace acceptance",
        ref="5-C14",
    ),
    "C15": dict(
        engine="spec/TokenAutomaton.tla, spec/AutomatonSem.tla, generated AutomatonData.tla (vf/extract.py)",
        text="Finite and complete for the abstraction: the DFA of every header / follow-up expression of every language and the acceptance table of every "
             "predicate (token kind x distinguished value x nesting depth -1..8) are extracted from the running code; TLC explores every reachable "
             "(automaton, state, depth vector) under every token class and checks that at most one transition is enabled; every reachable configuration's "
             "witness path is replayed into a real Pattern and every token class fed to it (no ValueError, same successor and counters as the model). "
             "One open finding (JS/TS arrow pattern, '=>' inside a parenthesis group).",
        note="Assumes predicates depend on a token only through (kind, value) and on history only through one nesting counter, uniform beyond depth 2 "
             "(both checked while probing); expressions are those extract_headers passes to find_all/starts_with on seed programs. " + BASE_NOTE,
        technique="TLC reachability over automata extracted from the code + replay of every configuration into the real matcher",
        ref="5-C15",
    ),
}

NOT_YET = "check not built yet in this round (see DESIGN.md section 10 for the order of work)"


def build() -> dict:
    checks = []
    for pid in sorted(CHECKS):
        c = CHECKS[pid]
        checks.append({
            "property_id": pid,
            "quick_cmd": f"./check {pid} --tier quick",
            "thorough_cmd": f"./check {pid} --tier thorough",
            "evidence_file": f"/verif/evidence/{pid}.json",
            "replay_cmd_template": f"./check {pid} --replay {{path}}",
            "engine": c["engine"],
            "level_claimed": {"category": c.get("level", "model_checking"), "text": c["text"], "design_ref": "DESIGN.md section " + c["ref"]},
            "level_note": c["note"],
            "technique": c["technique"],
        })
    na = [{"property_id": f"C{n:02d}", "reason": NOT_YET} for n in range(1, 20) if f"C{n:02d}" not in CHECKS]
    engines = {}
    for pid, c in CHECKS.items():
        for e in c["engine"].split(", "):
            engines.setdefault(e, []).append(pid)
    return {
        "version": 1,
        "setup_cmd": "./check --setup",
        "hooks": {
            "guard": "CODELIMIT_VERIF",
            "enable": "none needed: every property is observed at the return of a public entry point of a sequential library; ./check exports CODELIMIT_VERIF=1 but no source hook reads it",
            "baseline_off_cmd": "cd /repo && /venv/bin/python -m pytest -ra -q -p no:cacheprovider --timeout=900 --continue-on-collection-errors",
            "source_commits": [],
            "add_only": True,
        },
        "engines": [{"name": e.split("/")[-1], "path": "/verif/" + e, "serves_properties": sorted(p), "kind_free_text": "TLA+ module checked with TLC"} for e, p in sorted(engines.items())],
        "checks": checks,
        "not_applicable": na,
        "notes": "Model-based verification with explicit TLA+ specifications (spec/*.tla) checked by TLC and bound to the code by spec->code replays "
                 "and code->spec trace acceptance (DESIGN.md). Genuine defects repaired by `fix:` commits are recorded in known_findings.json.",
    }


if __name__ == "__main__":
    (VERIF / "MANIFEST.json").write_text(json.dumps(build(), indent=1) + "\n")
    print("MANIFEST.json written:", len(build()["checks"]), "checks")
