"""Evidence writer: every check rewrites /verif/evidence/<id>.json, schema-validated before writing."""
from __future__ import annotations

import json
import subprocess
from pathlib import Path

from .common import EVIDENCE, MachineryError, seed

SCHEMA = Path("/root/.vp/EVIDENCE.schema.json")
SCHEMA_FALLBACK = Path(__file__).resolve().parent / "EVIDENCE.schema.json"

_VALIDATE = r"""
import json, sys, jsonschema
schema = json.load(open(sys.argv[1])); doc = json.load(open(sys.argv[2]))
jsonschema.Draft202012Validator(schema).validate(doc)
"""


def validate(doc_path: Path):
    schema = SCHEMA if SCHEMA.exists() else SCHEMA_FALLBACK
    try:
        p = subprocess.run(["python3-vt", "-c", _VALIDATE, str(schema), str(doc_path)], capture_output=True, text=True, timeout=60)
    except FileNotFoundError:
        return _mini_validate(json.loads(doc_path.read_text()))
    if p.returncode != 0:
        raise MachineryError("evidence does not validate: " + p.stderr[-800:])


def _mini_validate(doc):
    for k in ("property_id", "tier", "seed", "level", "coverage", "wall_s"):
        if k not in doc:
            raise MachineryError(f"evidence lacks {k}")
    cov = doc["coverage"]
    if doc["level"] == "model_checking":
        for k in ("states", "transitions", "traces_validated_against_impl", "samples"):
            if k not in cov:
                raise MachineryError(f"model_checking evidence lacks coverage.{k}")
        if cov["states"] < 1 or cov["transitions"] < 1 or not cov["samples"]:
            raise MachineryError("model_checking evidence has empty coverage")


def write(prop: str, tier: str, *, level: str, coverage: dict, wall_s: float, violations: int, assumptions=(), extra: dict | None = None):
    EVIDENCE.mkdir(exist_ok=True)
    doc = {
        "property_id": prop,
        "tier": tier,
        "seed": seed(),
        "level": level,
        "coverage": coverage,
        "assumptions": list(assumptions),
        "wall_s": float(wall_s),
        "violations": int(violations),
    }
    if extra:
        doc.update(extra)
    tmp = EVIDENCE / f".{prop}.json.tmp"
    tmp.write_text(json.dumps(doc, indent=1, default=str) + "\n")
    validate(tmp)
    tmp.replace(EVIDENCE / f"{prop}.json")
    return doc
