"""Shared plumbing: paths, seeds, scratch directories, a watchdog-protected process pool."""
from __future__ import annotations

import hashlib
import json
import multiprocessing as mp
import os
import shutil
import signal
import sys
import tempfile
import time
from pathlib import Path

VERIF = Path(__file__).resolve().parent.parent
SPEC = VERIF / "spec"
# VERIF_SANDBOX redirects everything a run writes (used when the checks are pointed at a scratch copy of
# the repository, e.g. a seeded change, so that /verif/evidence keeps describing /repo itself)
_OUT = Path(os.environ["VERIF_SANDBOX"]).resolve() if os.environ.get("VERIF_SANDBOX") else VERIF
WORK = _OUT / ".work"
REPLAYS = _OUT / "replays"
EVIDENCE = _OUT / "evidence"
REPO = Path(os.environ.get("VERIF_REPO", "/repo")).resolve()
NCPU = min(16, os.cpu_count() or 4)


def seed() -> int:
    try:
        return int(os.environ.get("VERIF_SEED", "0"))
    except ValueError:
        return 0


def assert_repo_binding():
    """The code under test must be the working tree of $VERIF_REPO (editable install)."""
    import codelimit

    f = Path(codelimit.__file__).resolve()
    if not str(f).startswith(str(REPO) + os.sep):
        raise MachineryError(f"codelimit resolves to {f}, not under {REPO}")


class MachineryError(Exception):
    """Something in the verification machinery (not in the code under test) failed -> exit 2."""


def workdir(prop: str, name: str = "") -> Path:
    d = WORK / prop / name if name else WORK / prop
    if d.exists():
        shutil.rmtree(d, ignore_errors=True)
    d.mkdir(parents=True, exist_ok=True)
    return d


def cleanup_work(prop: str):
    shutil.rmtree(WORK / prop, ignore_errors=True)


def scratch_dir(prefix: str = "vf") -> Path:
    """A realpath-resolved scratch directory outside /repo and /verif; caller removes it."""
    base = os.environ.get("VERIF_SCRATCH") or tempfile.gettempdir()
    os.makedirs(base, exist_ok=True)
    return Path(tempfile.mkdtemp(prefix=prefix + "-", dir=base)).resolve()


_PER_PROCESS = {}


def per_process(key, factory):
    """A value created once per PROCESS: pool workers are forked, so a module-level cache filled in the parent would
    be shared by all of them - fatal for scratch directories that jobs write into concurrently."""
    pid = os.getpid()
    if _PER_PROCESS.get("pid") != pid:
        _PER_PROCESS.clear()
        _PER_PROCESS["pid"] = pid
    if key not in _PER_PROCESS:
        _PER_PROCESS[key] = factory()
    return _PER_PROCESS[key]


def sha(obj) -> str:
    return hashlib.sha1(json.dumps(obj, sort_keys=True, default=str).encode()).hexdigest()[:12]


def write_replay(prop: str, case: dict) -> Path:
    d = REPLAYS / prop
    d.mkdir(parents=True, exist_ok=True)
    p = d / (sha(case) + ".json")
    p.write_text(json.dumps(case, indent=1, sort_keys=True, default=str))
    return p


# ----------------------------------------------------------------------------------------------
# watchdog pool


class CallTimeout(Exception):
    pass


def _alarm(signum, frame):
    raise CallTimeout()


def guarded(fn, arg, timeout: float):
    """Run fn(arg) under SIGALRM; returns ("ok", value) | ("exc", class name, text) | ("timeout",)."""
    old = signal.signal(signal.SIGALRM, _alarm)
    signal.setitimer(signal.ITIMER_REAL, timeout)
    try:
        return ("ok", fn(arg))
    except CallTimeout:
        return ("timeout",)
    except RecursionError as e:
        return ("exc", "RecursionError", str(e)[:200])
    except BaseException as e:  # noqa: BLE001 - an observation, not a crash of the harness
        if isinstance(e, (KeyboardInterrupt,)):
            raise
        return ("exc", type(e).__name__, str(e)[:300])
    finally:
        signal.setitimer(signal.ITIMER_REAL, 0)
        signal.signal(signal.SIGALRM, old)


_FN = None
_TIMEOUT = 30.0


def _init(fn, timeout, hashseed):
    global _FN, _TIMEOUT
    _FN = fn
    _TIMEOUT = timeout


def _run(arg):
    return guarded(_FN, arg, _TIMEOUT)


def _run_chunk(args):
    return [guarded(_FN, a, _TIMEOUT) for a in args]


def pmap(fn, items, timeout: float = 30.0, workers: int | None = None, chunk: int = 64):
    """Ordered parallel map with a per-call watchdog. fn must be a module-level function."""
    items = list(items)
    if not items:
        return []
    workers = workers or NCPU
    if len(items) < 4 * chunk or workers == 1:
        _init(fn, timeout, None)
        if workers == 1 or len(items) < 32:
            return [_run(a) for a in items]
        chunk = max(1, len(items) // (workers * 2))
    chunks = [items[i : i + chunk] for i in range(0, len(items), chunk)]
    ctx = mp.get_context("fork")
    with ctx.Pool(workers, initializer=_init, initargs=(fn, timeout, None)) as pool:
        out = []
        for part in pool.imap(_run_chunk, chunks):
            out.extend(part)
    # a watchdog that fires on a loaded machine says nothing about the code: the first few time-outs are asked again, alone
    # and with ten times the budget, before they count
    late = [i for i, r in enumerate(out) if r == ("timeout",)]
    for i in late[:5]:
        out[i] = guarded(fn, items[i], timeout * 10)
    return out


class Timer:
    def __init__(self):
        self.t0 = time.time()

    def s(self) -> float:
        return round(time.time() - self.t0, 2)


def log(*a):
    print(*a, file=sys.stderr, flush=True)
