"""Binding of Edits.tla's abstract edit scripts to concrete texts (C04, C17).

Token-safety is decided from the raw Pygments stream, never by codelimit:
  - a line boundary is safe for inserting a line when no non-whitespace token spans the newline before
    it and the preceding line does not end in a continuation;
  - a line may take a trailing comment when it carries no comment token yet, its end is not inside a
    multi-line token, and it does not end in a continuation;
  - the edited text must yield the same sequence of non-empty, non-comment, non-whitespace tokens
    (type, text) as the original, otherwise the case is skipped (lexer context effects).
"""
from __future__ import annotations

import bisect

from .langs import LANGS, lexer_for

MARKER_VARIANTS = {
    "#": ["# nocl", "#nocl", "#  NOCL", "# NoCl: generated code", "# nocl because reasons", "#      nocl", "#\tnocl", "#        NOCL see above"],
    "//": ["// nocl", "//nocl", "/* nocl */", "// NOCL", "/* NoCl generated */", "//  nocl: legacy", "//      nocl", "/*       nocl */", "//\t\tnocl", "/*nocl*/", "/* nocl */ // generated code", "/*NOCL*/ /* second comment */", "/* first comment */ // nocl"],
}
DECOY_VARIANTS = {
    # the marker must follow the comment LEADER (#, //, /*) directly: a second leader character in between makes
    # it a comment that merely contains the word
    "#": ["# see nocl", "# this is not nocl", "# TODO nocl?", "## nocl", "#; nocl", "#: nocl generated"],
    "//": ["// see nocl", "/* not a nocl marker */", "// x nocl", "/// nocl", "/** nocl */", "//* nocl", "/* * nocl */"],
}


def styles(lang):
    d = LANGS[lang]
    out = [d["line"] + " note 1"]
    if d["block"]:
        out.append(f"{d['block'][0]} note 2 {d['block'][1]}")
        out.append("/** doc note */")
        out.append("/** nocl is only a word here */")  # not the marker: the leader is /*, the text starts with *
        out.append("/// nocl as a word")
        out.append("// see @endcode, @end and [values count]")            # text that looks like another language
        out.append("/* mail dev1@163.com @\"x\" @protocol [self init] */")
    else:
        out.append(d["line"] + "note-without-space")
        out.append(d["line"] * 2 + " nocl as a word")    # "## nocl ..": after the leader # comes another #
    return out


def code_stream(lexer, text):
    from pygments.token import Comment

    out = []
    for _off, tt, v in lexer.get_tokens_unprocessed(text):
        if tt in Comment or v.strip() == "":
            continue
        out.append((str(tt), v))
    return out


class Doc:
    """A text with what the raw token stream says about its lines."""

    def __init__(self, lang, text):
        from pygments.token import Comment

        self.lang, self.text = lang, text
        self.lexer = lexer_for(lang)
        self.lines = text.split("\n")
        if self.lines and self.lines[-1] == "":
            self.lines.pop()
            self.trailing_nl = True
        else:
            self.trailing_nl = False
        starts = [0]
        for ln in self.lines[:-1]:
            starts.append(starts[-1] + len(ln) + 1)
        self.starts = starts
        raw = list(self.lexer.get_tokens_unprocessed(text))
        self.stream = [(str(tt), v) for _o, tt, v in raw if tt not in Comment and v.strip() != ""]
        unsafe = set()      # 1-based line numbers L such that inserting before L is unsafe
        inside_end = set()  # lines whose end lies inside a multi-line token
        comment_lines = set()
        for off, tt, v in raw:
            first = bisect.bisect_right(starts, off)  # 1-based line of the token start
            nl = v.count("\n")
            if tt in Comment:
                for k in range(first, first + nl + 1):
                    comment_lines.add(k)
            if v.strip() != "" and "\n" in v[:-1]:
                inner = v[:-1].count("\n")
                for k in range(1, inner + 1):
                    unsafe.add(first + k)
                    inside_end.add(first + k - 1)
        self.comment_lines = comment_lines
        n = len(self.lines)
        self.safe_insert = [L for L in range(1, n + 2) if L not in unsafe and not (L >= 2 and L - 1 <= n and self.lines[L - 2].rstrip().endswith("\\"))]
        self.can_trail = [L for L in range(1, n + 1) if L not in comment_lines and L not in inside_end and not self.lines[L - 1].rstrip().endswith("\\")
                          and self.lines[L - 1].strip() != ""]

    def apply(self, script):
        """script = [(kind, line, text)] in original 1-based line coordinates, applied simultaneously."""
        before = {}
        inplace = {}
        lead = {}
        for kind, at, payload in script:
            if kind in ("blank", "spaces", "comment"):
                before.setdefault(at, []).append(payload)
            elif kind == "lead":  # a comment in front of the code of the line (behind its indentation)
                lead[at] = lead.get(at, "") + payload.strip() + " "
            else:
                inplace[at] = inplace.get(at, "") + payload
        out = []
        for L, ln in enumerate(self.lines, 1):
            out.extend(before.get(L, []))
            if L in lead:
                ind = len(ln) - len(ln.lstrip())
                ln = ln[:ind] + lead[L] + ln[ind:]
            out.append(ln + inplace.get(L, ""))
        out.extend(before.get(len(self.lines) + 1, []))
        return "\n".join(out) + ("\n" if self.trailing_nl or before.get(len(self.lines) + 1) else "")

    def stable(self, new_text):
        return code_stream(self.lexer, new_text) == self.stream


SPACE_LINES = ["    ", " \t ", "\x0c", " \x0b ", "\t\t", "\u00a0", "  \u2003 ", "\u3000\u3000", " \x1c"]            # whitespace-only lines, incl. a ^L page break
TRAIL_WS = ["   ", "\t", " \x0c", " \x0b", "  \t ", " \u00a0", "\u3000"]


def payload_for(lang, kind, style_idx, indent="", salt=0):
    """Concrete text for an abstract edit; `salt` (the line) rotates through the variants so that a run with
    few abstract styles still uses all of them."""
    st = styles(lang) + [LANGS[lang]["line"] + " page\x0cbreak \x0b in a comment"]
    v = style_idx - 1 + salt
    if kind == "blank":
        return ""
    if kind == "spaces":
        return SPACE_LINES[v % len(SPACE_LINES)]
    if kind == "comment" and v % 7 != 3:
        return indent + st[v % len(st)]
    if kind == "trail_comment":
        # now and then far to the right (aligned comment columns, a banner): where a comment starts says nothing about the code
        return ("  " if v % 5 else " " * 1100) + st[v % len(st)]
    if kind == "comment" and v % 7 == 3:
        return " " * 1100 + st[v % len(st)]
    if kind == "trail_ws":
        return TRAIL_WS[v % len(TRAIL_WS)]
    raise ValueError(kind)
