"""Runs a list of analysis schedules in THIS process (one process = one PYTHONHASHSEED = one history) and
logs a digest of every result.  usage: python -m vf.session_worker <in.json> <out.ndjson>"""
from __future__ import annotations

import hashlib
import json
import os
import random
import sys


def digest(obj) -> str:
    return hashlib.sha1(json.dumps(obj, sort_keys=True).encode()).hexdigest()[:16]


def norm_report(doc):
    """A report without identifier / timestamp and with file order (lists of entries, key order) ignored."""
    cb = doc["codebase"]
    return {
        "version": doc.get("version"), "root": doc.get("root"),
        "files": {k: v for k, v in sorted(cb["files"].items())},
        "totals": {k: v for k, v in sorted(cb["totals"].items())},
        "tree": {k: {"entries": sorted(v["entries"]), "profile": v["profile"]} for k, v in sorted(cb["tree"].items())},
    }


def main():
    spec = json.loads(open(sys.argv[1]).read())
    out = open(sys.argv[2], "w")
    from vf.langs import analyse

    pool = spec["pool"]
    proc, seed = spec["proc"], os.environ.get("PYTHONHASHSEED", "")
    for sched in spec["schedules"]:
        for f in sched:
            lang, text = pool[f]
            try:
                d = digest(analyse(lang, text))
            except Exception as e:  # noqa: BLE001 - the exception class is the observation
                d = "exc:" + type(e).__name__
            out.write(json.dumps({"kind": "analyze", "proc": proc, "seed": seed, "file": f, "digest": d}) + "\n")
    # whole-tree scans under a permuted directory traversal order
    if spec.get("trees"):
        import io
        import contextlib
        from pathlib import Path

        from codelimit.common.report.Report import Report
        from codelimit.common.report.ReportWriter import ReportWriter
        from codelimit.common.Configuration import Configuration
        from codelimit.common.Scanner import scan_path

        real_walk = os.walk
        for tname, root, order_seed in spec["trees"]:
            rng = random.Random(order_seed)

            def walk(top, *a, **kw):
                for r, dirs, files in real_walk(top, *a, **kw):
                    rng.shuffle(dirs)
                    rng.shuffle(files)
                    yield r, dirs, files

            os.walk = walk
            try:
                Configuration.exclude = []
                with contextlib.redirect_stdout(io.StringIO()):
                    cb = scan_path(Path(root))
                cb.aggregate()
                doc = json.loads(ReportWriter(Report(cb)).to_json())
                d = digest(norm_report(doc))
                # every file's entry, as seen in the company of its neighbours under this traversal order
                for rel, v in sorted(doc["codebase"]["files"].items()):
                    out.write(json.dumps({"kind": "tree", "proc": proc, "seed": seed, "file": f"entry:{tname}:{rel}", "digest": digest(v)}) + "\n")
            except Exception as e:  # noqa: BLE001
                d = "exc:" + type(e).__name__
            finally:
                os.walk = real_walk
            out.write(json.dumps({"kind": "tree", "proc": proc, "seed": seed, "file": "tree:" + tname, "digest": d}) + "\n")
        # isolation: every file of a small tree scanned alone (same relative path, no neighbours)
        import shutil
        import tempfile

        for tname, root in spec.get("alone", []):
            for dirpath, _dirs, fnames in real_walk(root):
                for fn in sorted(fnames):
                    src = os.path.join(dirpath, fn)
                    rel = os.path.relpath(src, root)
                    tmp = tempfile.mkdtemp(prefix="alone-", dir=os.path.dirname(root))
                    try:
                        dst = os.path.join(tmp, rel)
                        os.makedirs(os.path.dirname(dst), exist_ok=True)
                        shutil.copyfile(src, dst)
                        Configuration.exclude = []
                        cb = scan_path(Path(tmp))
                        cb.aggregate()
                        doc = json.loads(ReportWriter(Report(cb)).to_json())
                        for r2, v in doc["codebase"]["files"].items():
                            out.write(json.dumps({"kind": "tree", "proc": proc, "seed": seed, "file": f"entry:{tname}:{r2}", "digest": digest(v)}) + "\n")
                    except Exception as e:  # noqa: BLE001
                        out.write(json.dumps({"kind": "tree", "proc": proc, "seed": seed, "file": f"entry:{tname}:{rel}", "digest": "exc:" + type(e).__name__}) + "\n")
                    finally:
                        shutil.rmtree(tmp, ignore_errors=True)
    out.close()


if __name__ == "__main__":
    main()
