"""Run TLC / SANY on the specification and parse what it reports."""
from __future__ import annotations

import os
import re
import shutil
import subprocess
from dataclasses import dataclass, field
from pathlib import Path

from .common import NCPU, SPEC, MachineryError, log

JAR = "/opt/veriftools/tla/tla2tools.jar:/opt/veriftools/tla/CommunityModules-deps.jar"


@dataclass
class TlcResult:
    rc: int
    generated: int = 0
    distinct: int = 0
    depth: int = 0
    violated: list = field(default_factory=list)  # [(kind, name)]
    trace: list = field(default_factory=list)  # counterexample states as raw text
    prints: list = field(default_factory=list)  # raw PrintT payloads (strings)
    coverage: dict = field(default_factory=dict)  # action -> [distinct, generated]
    out: str = ""
    wall_s: float = 0.0
    dump: Path | None = None

    @property
    def ok(self):
        return self.rc == 0 and not self.violated

    @property
    def transitions(self):
        return max(self.generated, 1)

    def never_taken(self):
        return sorted(a for a, (d, g) in self.coverage.items() if g == 0 and a != "Init")


def stage(wd: Path, extra: dict | None = None):
    """Copy the specification tree (and generated modules) into the run directory."""
    for f in SPEC.glob("*.tla"):
        shutil.copy(f, wd / f.name)
    for name, text in (extra or {}).items():
        (wd / name).write_text(text)


def run(
    module: str,
    cfg: str,
    wd: Path,
    *,
    workers: int | str | None = None,
    dump: bool = False,
    simulate: str | None = None,
    depth: int | None = None,
    env: dict | None = None,
    timeout: float = 1800,
    coverage: bool = True,
    extra: dict | None = None,
    seed: int | None = None,
    java_opts: list | None = None,
    cfgname: str | None = None,
) -> TlcResult:
    import time

    stage(wd, extra)
    cfgname = cfgname or (module + "_run.cfg")
    (wd / cfgname).write_text(cfg)
    meta = wd / ("meta_" + cfgname.replace(".cfg", ""))
    shutil.rmtree(meta, ignore_errors=True)
    cmd = ["java", "-XX:+UseParallelGC", "-Xmx12g"]
    if os.environ.get("VERIF_SCRATCH"):
        os.makedirs(os.environ["VERIF_SCRATCH"], exist_ok=True)
        cmd.append("-Djava.io.tmpdir=" + os.environ["VERIF_SCRATCH"])  # TLC unpacks its standard modules there
    cmd += java_opts or []
    cmd += ["-cp", JAR, "tlc2.TLC", "-config", cfgname, "-metadir", str(meta), "-noGenerateSpecTE"]
    cmd += ["-workers", str(workers or NCPU)]
    if coverage and not simulate:
        cmd += ["-coverage", "1"]
    dump_path = None
    if dump:
        dump_path = wd / (cfgname.replace(".cfg", "") + "_dump")
        cmd += ["-dump", str(dump_path)]
    if simulate:
        cmd += ["-simulate", simulate]
    if depth is not None:
        cmd += ["-depth", str(depth)]
    if seed is not None:
        cmd += ["-seed", str(seed)]
    cmd += [module + ".tla"]
    e = dict(os.environ)
    e.update({k: str(v) for k, v in (env or {}).items()})
    t0 = time.time()
    try:
        p = subprocess.run(cmd, cwd=wd, env=e, capture_output=True, text=True, timeout=timeout)
    except subprocess.TimeoutExpired as ex:
        raise MachineryError(f"TLC timed out after {timeout}s on {module}/{cfgname}") from ex
    out = p.stdout + ("\n" + p.stderr if p.stderr.strip() else "")
    (wd / (cfgname + ".out")).write_text(out)
    r = parse_output(out, p.returncode)
    r.wall_s = round(time.time() - t0, 2)
    if dump_path is not None:
        r.dump = Path(str(dump_path) + ".dump")
    shutil.rmtree(meta, ignore_errors=True)
    if r.rc not in (0, 12, 13) or "Parsing or semantic analysis failed" in out:
        tail = "\n".join(out.splitlines()[-40:])
        raise MachineryError(f"TLC failed (rc={p.returncode}) on {module}/{cfgname}:\n{tail}")
    return r


_GEN = re.compile(r"(\d+) states generated, (\d+) distinct states found")
_SIMGEN = re.compile(r"The number of states generated: (\d+)")
_DEPTH = re.compile(r"The depth of the complete state graph search is (\d+)")
_COV = re.compile(r"^<(\w+) line \d+, col \d+ to line \d+, col \d+ of module (\w+)>: (\d+):(\d+)")
_VIOL = re.compile(r"Error: (Invariant|Action property|Temporal properties|Property) ?(\w+)? ?(?:is|were) violated")


def parse_output(out: str, rc: int) -> TlcResult:
    r = TlcResult(rc=rc, out=out)
    for m in _GEN.finditer(out):
        r.generated, r.distinct = int(m.group(1)), int(m.group(2))
    m = _SIMGEN.search(out)
    if m and not r.generated:
        r.generated = r.distinct = int(m.group(1))
    m = _DEPTH.search(out)
    if m:
        r.depth = int(m.group(1))
    lines = out.splitlines()
    for ln in lines:
        m = _COV.match(ln)
        if m:
            name = m.group(1)
            d, g = int(m.group(3)), int(m.group(4))
            if name in r.coverage:
                r.coverage[name][0] += d
                r.coverage[name][1] += g
            else:
                r.coverage[name] = [d, g]
        m = _VIOL.search(ln)
        if m:
            r.violated.append((m.group(1), m.group(2) or ""))
        if "Error: Deadlock reached" in ln:
            r.violated.append(("Deadlock", ""))
    # counterexample states
    cur = None
    for ln in lines:
        if re.match(r"^State \d+: ", ln):
            if cur is not None:
                r.trace.append("\n".join(cur))
            cur = [ln]
        elif cur is not None:
            if ln.startswith(("/\\", "  ", "\t")) or (ln and ln[0] in "<[({\""):
                cur.append(ln)
            elif ln.strip() == "":
                r.trace.append("\n".join(cur))
                cur = None
    if cur is not None:
        r.trace.append("\n".join(cur))
    r.prints = extract_prints(out)
    return r


def extract_prints(out: str) -> list:
    """PrintT payloads of the form <<"TAG", ...>> (possibly wrapped over lines / interleaved)."""
    res = []
    i = 0
    n = len(out)
    while True:
        j = out.find('<<"', i)
        if j < 0:
            break
        if j > 0 and out[j - 1] not in "\n\r":
            i = j + 3
            continue
        depth = 0
        k = j
        instr = False
        while k < n:
            c = out[k]
            if instr:
                if c == "\\":
                    k += 1
                elif c == '"':
                    instr = False
            elif c == '"':
                instr = True
            elif out.startswith("<<", k):
                depth += 1
                k += 1
            elif out.startswith(">>", k):
                depth -= 1
                k += 1
                if depth == 0:
                    break
            k += 1
        res.append(out[j : k + 1].replace("\n", " "))
        i = k + 1
    return res


def sany(module_path: Path) -> tuple[bool, str]:
    p = subprocess.run(
        ["java"] + (["-Djava.io.tmpdir=" + os.environ["VERIF_SCRATCH"]] if os.environ.get("VERIF_SCRATCH") else []) + ["-cp", JAR, "tla2sany.SANY", module_path.name],
        cwd=module_path.parent,
        capture_output=True,
        text=True,
        timeout=120,
    )
    out = p.stdout + p.stderr
    ok = p.returncode == 0 and "Semantic errors" not in out and "Fatal errors" not in out and "*** Errors" not in out and "Could not parse" not in out
    return ok, out


def tla_str(s: str) -> str:
    return '"' + s.replace("\\", "\\\\").replace('"', '\\"') + '"'


def tla_set(xs) -> str:
    return "{" + ", ".join(xs) + "}"


def cfg(constants: dict | None = None, *, spec: str | None = None, init="Init", next="Next", invariants=(), properties=(),
        constraints=(), action_constraints=(), view: str | None = None, postcondition: str | None = None, deadlock=False) -> str:
    out = []
    if spec:
        out.append(f"SPECIFICATION {spec}")
    else:
        out.append(f"INIT {init}")
        out.append(f"NEXT {next}")
    if constants:
        out.append("CONSTANTS")
        for k, v in constants.items():
            out.append(f"  {k} = {v}")
    for i in invariants:
        out.append(f"INVARIANT {i}")
    for p in properties:
        out.append(f"PROPERTY {p}")
    for c in constraints:
        out.append(f"CONSTRAINT {c}")
    for c in action_constraints:
        out.append(f"ACTION_CONSTRAINT {c}")
    if view:
        out.append(f"VIEW {view}")
    if postcondition:
        out.append(f"POSTCONDITION {postcondition}")
    out.append("CHECK_DEADLOCK " + ("TRUE" if deadlock else "FALSE"))
    return "\n".join(out) + "\n"
