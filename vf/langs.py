"""The seven languages: names, file names, comment styles, corpus access (shared by several drivers)."""
from __future__ import annotations

from pathlib import Path

from .common import VERIF

CORPUS = VERIF / "corpus"

LANGS = {
    # name (Languages.by_name key): file name, corpus dir, line comment, block comment, family
    "Python": dict(file="m.py", dir="python", line="#", block=None, family="indent"),
    "C": dict(file="m.c", dir="c", line="//", block=("/*", "*/"), family="brace"),
    "C++": dict(file="m.cpp", dir="cpp", line="//", block=("/*", "*/"), family="brace"),
    "C#": dict(file="m.cs", dir="csharp", line="//", block=("/*", "*/"), family="brace"),
    "Java": dict(file="M.java", dir="java", line="//", block=("/*", "*/"), family="brace"),
    "JavaScript": dict(file="m.js", dir="javascript", line="//", block=("/*", "*/"), family="brace"),
    "TypeScript": dict(file="m.ts", dir="typescript", line="//", block=("/*", "*/"), family="brace"),
}


def lexer_for(lang: str):
    from pygments.lexers import get_lexer_for_filename

    return get_lexer_for_filename(LANGS[lang]["file"])


def language(lang: str):
    from codelimit.languages import Languages

    return Languages.by_name[lang]


def read_text(path: Path) -> str:
    """As Scanner._read_file does: UTF-8, Latin-1 fallback."""
    try:
        return path.read_text()
    except UnicodeDecodeError:
        return path.read_text(encoding="latin-1")


def corpus_files(lang: str | None = None):
    """[(language, path, text)] of the vendored corpus."""
    out = []
    for name, d in LANGS.items():
        if lang is not None and name != lang:
            continue
        for p in sorted((CORPUS / d["dir"]).iterdir()):
            if p.is_file():
                out.append((name, p, read_text(p)))
    return out


def analyse(lang: str, text: str):
    """scan_file on a text: [(name, start line, start col, end line, end col, length)]."""
    from codelimit.common.lexer_utils import lex
    from codelimit.common.Scanner import scan_file

    ms = scan_file(lex(lexer_for(lang), text, False), language(lang))
    return [(m.unit_name, m.start.line, m.start.column, m.end.line, m.end.column, m.value) for m in ms]
