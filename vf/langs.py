"""The seven languages: names, file names, comment styles, corpus access (shared by several drivers)."""
from __future__ import annotations

from pathlib import Path

from .common import VERIF, per_process

CORPUS = VERIF / "corpus"

LANGS = {
    # name (Languages.by_name key): file name, corpus dir, line comment, block comment, family
    "Python": dict(file="m.py", dir="python", line="#", block=None, family="indent"),
    "C": dict(file="m.c", dir="c", line="//", block=("/*", "*/"), family="brace"),
    "C++": dict(file="m.cpp", dir="cpp", line="//", block=("/*", "*/"), family="brace"),
    "C#": dict(file="m.cs", dir="csharp", line="//", block=("/*", "*/"), family="brace"),
    "Java": dict(file="M.java", dir="java", line="//", block=("/*", "*/"), family="brace"),
    "JavaScript": dict(file="m.js", dir="javascript", line="//", block=("/*", "*/"), family="brace"),
    "TypeScript": dict(file="m.ts", dir="typescript", line="//", block=("/*", "*/"), family="brace"),
}


def lexer_for(lang: str):
    from pygments.lexers import get_lexer_for_filename

    return get_lexer_for_filename(LANGS[lang]["file"])


def language(lang: str):
    from codelimit.languages import Languages

    return Languages.by_name[lang]


def read_text(path: Path) -> str:
    """As Scanner._read_file does: UTF-8, Latin-1 fallback."""
    try:
        return path.read_text()
    except UnicodeDecodeError:
        return path.read_text(encoding="latin-1")


def corpus_files(lang: str | None = None):
    """[(language, path, text)] of the vendored corpus."""
    out = []
    for name, d in LANGS.items():
        if lang is not None and name != lang:
            continue
        for p in sorted((CORPUS / d["dir"]).iterdir()):
            if p.is_file():
                out.append((name, p, read_text(p)))
    return out


_SCR = {}


def _scratch() -> Path:
    """One scratch directory per PROCESS (pool workers are forked and would otherwise share the parent's)."""
    import os

    pid = os.getpid()
    if pid not in _SCR:
        from .common import scratch_dir

        _SCR.clear()
        _SCR[pid] = scratch_dir("an")  # lives under the run's scratch root, removed with it
    return _SCR[pid]


def file_safe(text: str) -> bool:
    """Does a file holding `text` read back as `text` (no newline translation, no decoding surprise)?"""
    return "\r" not in text and text.isascii()


def analyse(lang: str, text: str, via_file: bool = True, fname: str | None = None):
    """What the scanner reports for a file holding `text`: [(name, start line, start col, end line, end col, length)].
    The text goes through the scanner's own file path (scan_path on a scratch directory: reading, lexer by file
    name, lex, scan_file) whenever a file holding it reads back unchanged; otherwise lex + scan_file on the string."""
    if via_file and file_safe(text):
        from codelimit.common.Scanner import scan_path

        d = _scratch() / lang.replace("+", "p").replace("#", "s")
        d.mkdir(exist_ok=True)
        name = fname or LANGS[lang]["file"]  # fname: another file name of the same language (a C header, say)
        for old in d.iterdir():
            if old.is_file() and old.name != name:
                old.unlink()
        with open(d / name, "w", newline="") as f:
            f.write(text)
        # like a second `codelimit scan` in the same folder: the report of the previous analysis in this directory
        # is handed to the scanner as its cache (the file was "edited" in between)
        from codelimit.common.report.Report import Report

        prev = per_process(("analyse-prev", lang, name), dict)
        cb = scan_path(d, prev.get("report"))
        prev["report"] = Report(cb)
        if list(cb.files) != [name]:
            raise RuntimeError(f"scan_path did not analyse {name}: {list(cb.files)}")
        if cb.files[name].language != lang:
            raise RuntimeError(f"{name} analysed as {cb.files[name].language}, not {lang}")
        ms = cb.files[name].measurements()
    else:
        from codelimit.common.lexer_utils import lex
        from codelimit.common.Scanner import scan_file

        ms = scan_file(lex(lexer_for(lang), text, False), language(lang))
    return [(m.unit_name, m.start.line, m.start.column, m.end.line, m.end.column, m.value) for m in ms]


_HARVEST = None


def harvested_texts():
    """[(language, origin, text)]: every source text the repository's own tests pass to lex(), collected by running
    the test-suite of the tree under test with the vf.pytest_harvest plugin (no repository file is touched).
    An empty list if the suite cannot be run - the drivers then simply have fewer base texts."""
    global _HARVEST
    if _HARVEST is not None:
        return _HARVEST
    import json
    import os
    import subprocess
    import sys

    import codelimit

    from .common import log, scratch_dir

    repo = Path(codelimit.__file__).resolve().parent.parent
    out = scratch_dir("harvest") / "texts.json"
    env = dict(os.environ, VERIF_HARVEST_OUT=str(out), PYTHONDONTWRITEBYTECODE="1")
    env["PYTHONPATH"] = os.pathsep.join([str(repo), str(VERIF)] + [x for x in env.get("PYTHONPATH", "").split(os.pathsep) if x])
    _HARVEST = []
    try:
        subprocess.run([sys.executable, "-m", "pytest", "-q", "-x", "-p", "no:cacheprovider", "-p", "vf.pytest_harvest", "tests"], cwd=repo, env=env, capture_output=True, text=True, timeout=600)
        for lexer_name, text in json.loads(out.read_text()):
            if lexer_name in LANGS and text.strip():
                _HARVEST.append((lexer_name, f"tests#{len(_HARVEST)}", text))
    except Exception as e:  # noqa: BLE001
        log(f"[harvest] the repository's tests could not be harvested ({type(e).__name__}: {e}); continuing without them")
    return _HARVEST


def code_table(lang, text):
    """The code tokens of a text, from the RAW Pygments stream (not through codelimit's lex / filter_tokens / Token): every
    token that is neither a comment nor a blank text token, with the line / column where it starts and just past its end,
    and its text if it is an identifier.  C05's clauses are judged against this table."""
    from pygments.token import Comment, Name, Text

    out = []
    for off, ty, v in lexer_for(lang).get_tokens_unprocessed(text):
        if ty in Comment or (ty in Text and (v == "" or v.isspace())):
            continue
        line = text.count("\n", 0, off) + 1
        col = off - text.rfind("\n", 0, off)
        nl = v.count("\n")
        out.append({"l": line, "c": col, "el": line + nl, "ec": (len(v) - v.rfind("\n")) if nl else col + len(v), "name": v if ty in Name else ""})
    return out


def far_texts():
    """[(language, origin, text)]: well-formed functions far out - behind 70000 blanks on their line, around a 66000-character
    literal, below a 70000-line comment.  Columns and lines beyond 2^16 are ordinary positions."""
    out = []
    for lang in LANGS:
        if lang == "Python":
            wide = "if x:\n" + " " * 70000 + "def far(a):\n" + " " * 70004 + "return a\n"
            lit = "def lit(a):\n    s = \"" + "a" * 66000 + "\"; t = 1\n    return a\n"
            tall = '"""' + "\n" * 70000 + '"""\ndef low(a):\n    return a\n'
        else:
            hdr = {"JavaScript": "function NAME(a) {", "TypeScript": "function NAME(a: number): number {"}.get(lang, "int NAME(int a) {")
            pre, post = ("class K {\n", "}\n") if lang in ("Java", "C#") else ("", "")
            wide = pre + " " * 70000 + hdr.replace("NAME", "far") + "\n  return a;\n}\n" + post
            lit = pre + hdr.replace("NAME", "lit") + "\n  s = \"" + "a" * 66000 + "\"; t = 1;\n  return a;\n}\n" + post
            tall = "/*" + "\n" * 70000 + "*/ " + pre + hdr.replace("NAME", "low") + "\n  return a;\n}\n" + post
        out += [(lang, "far/wide", wide), (lang, "far/literal", lit), (lang, "far/tall", tall)]
    return out
