"""Binding of Mutations.tla's abstract operations to concrete texts (C03, C05)."""
from __future__ import annotations

from .langs import LANGS, lexer_for

PY_ALPHABET = ["def", "f", "(", ")", ":", "\n", "    ", "x", "=", "1", "async", "class", "# c\n", "'s'", "\\\n", ",", "->", "lambda", "@"]
BRACE_ALPHABET = ["int", "f", "(", ")", "{", "}", ";", "\n", "=", "=>", "function", "const", "async", "// c\n", "\"s\"", "throws", ":", "let", "var"]

EXTRA_BASES = {
    "Python": [
        "def half(n):\n    return n // 2\n\ndef quarter(n):\n    x = n // 4  # q\n    return x // 1\n",   # `//` starts a comment next door
        'def f():\n    """doc\n    string"""\n',
        "class K:\n    @staticmethod\n    def m(a, b=(1, 2)):\n        return a\n\n    async def n(self):\n        pass\nx = lambda q: q\n",
        "def g(a,\n      b):\n    if a:\n        return b\n    else:\n        return a \\\n            + b\n",
        "import x\n\nasync \\\ndef h(a):\n    return a\n\n@deco \\\n  (1)\ndef k():\n    pass\n",
        'def d():\n    """doc\x0cwith form feed\u2028and separator\n    end"""\n\ndef e():\n    x = 1\x0c\n    return x\n',
        # identifiers a normalisation would rewrite (ligature, micro sign, full-width letter): a name is the text of its token
        "def \ufb01le_size(p):\n    return len(p)\n\ndef to_\u00b5s(x):\n    y = x * 1000\n    return y\n\ndef \uff46oo(a):\n    return a\n",
    ],
    "C": ["static int first(int a, int b) {\n  return a + b;\n}\n\nint table[] = { 1, 2, 3 };\n\nvoid second() {\n  report(combine(alpha, beta, gamma, delta));\n  log(wrap(inner(x), y), z);\n}\nstruct point origin = { 0, 0 };\n",
          "#include <stdio.h>\n#define X(a) \\\n  (a)\nint main(int argc, char **argv) {\n  for (;;) { break; }\n  return 0;\n}\n",
          "static int f(void);\nstruct s { int a; };\nint f(void)\n{\n  return g(1)(2);\n}\n"],
    "C++": ["namespace n {\nclass K {\n public:\n  K() : a(1) {}\n  int m() const { return a; }\n  int a;\n};\n}\ntemplate <typename T> T id(T t) { return t; }\n"],
    "C#": ["using System;\nnamespace N {\n  class K {\n    public int P { get; set; }\n    public int M(int a) => a;\n    void F() { Action a = () => { }; }\n  }\n}\n"],
    "Java": ["package p;\nclass K {\n  void f(int a) throws E, F {\n    run(new R() {\n      public void g() { }\n    });\n  }\n  abstract int h();\n  record P(int x) { }\n}\n"],
    "JavaScript": ["function \ufb01le(a) {\n  return a;\n}\nfunction to_\u00b5s(b) {\n  return b;\n}\n", "function type(a) {\n  return a;\n}\nfunction declare(b) {\n  return b;\n}\nfunction of(c) {\n  return c;\n}\n",   # names that are keywords next door (TypeScript)
                   "const handler = (wrap)((event) => {\n  return event;\n});\nconst twice = (compose)(x => x * 2);\nconst third = (a)(b)((c) => (d) => {\n  return d;\n});\nfunction plain(a) {\n  return a;\n}\n",
                   "const f = (a, b) => {\n  return a;\n};\nconst g = async (cb = () => 0) => {\n  await cb();\n};\nclass K {\n  m(a) { return `t ${a}\n  x`; }\n}\n"],
    "TypeScript": ["const handler = (wrap)((event: Event) => {\n  return event;\n});\nconst twice = (compose)((x: number) => x * 2);\nfunction plain(a: number): number {\n  return a;\n}\n",
                   "function f(a: number): number {\n  return a;\n}\nconst g = (a: string): void => {\n};\ninterface I { m(a: number): void; }\nexport class K<T> {\n  m(a: T): T { return a; }\n}\n"],
}


def alphabet(lang):
    return PY_ALPHABET if lang == "Python" else BRACE_ALPHABET


def raw_tokens(lang, text):
    """[(start, end)] of non-whitespace raw Pygments tokens."""
    out = []
    for off, _tt, v in lexer_for(lang).get_tokens_unprocessed(text):
        if v.strip() != "":
            out.append((off, off + len(v)))
    return out


def apply_op(lang, text, op):
    k, a = op["k"], op["a"]
    if k in ("Prefix", "Suffix", "DelToken", "DupToken", "SwapTokens", "BreakLine", "OddSpace"):
        toks = raw_tokens(lang, text)
        n = len(toks)
        if n == 0:
            return text
        if k == "Prefix":
            i = a % (n + 1)
            return text[: toks[i][0]] if i < n else text
        if k == "Suffix":
            return text[toks[a % n][0]:]
        i = a % n
        s, e = toks[i]
        if k == "BreakLine":
            return text[:s] + "\\\n" + text[s:]
        if k == "OddSpace":
            # blanks that are not ASCII blanks, three ways: in front of the token, as a line of its own above the token's line,
            # and behind the token (trailing, or the last thing of the text)
            odd = ["\x0c", "\x0b", "\r", "\u2028", "\x85", "\x1c", "\u2029", "\u00a0", "\u3000"]
            own = ["\u00a0", "\u3000", "\u2028", "\x85", "\x1c", "\x0c", "\u2003", "\x1f"]
            ls = text.rfind("\n", 0, s) + 1
            return [text[:s] + odd[a % len(odd)] + text[s:], text[:ls] + own[a % len(own)] + "\n" + text[ls:], text[:e] + own[(a // 2) % len(own)] + text[e:]]
        if k == "DelToken":
            return text[:s] + text[e:]
        if k == "DupToken":
            return text[:e] + " " + text[s:e] + text[e:]
        if n < 2:
            return text
        i = a % (n - 1)
        (s1, e1), (s2, e2) = toks[i], toks[i + 1]
        return text[:s1] + text[s2:e2] + text[e1:s2] + text[s1:e1] + text[e2:]
    if k == "CutChars":
        if not text:
            return text
        return text[: (a * 37) % (len(text) + 1)]
    if k in ("DelLine", "DupLine", "SwapLines", "JoinLines", "Flatten"):
        lines = text.split("\n")
        n = len(lines)
        i = a % n
        if k == "Flatten":
            i = a % n
            return "\n".join(lines[:i] + [" ".join(x.strip() for x in lines[i:] if x.strip())]) + "\n"
        if k == "JoinLines":
            if n < 2:
                return text
            i = a % (n - 1)
            return "\n".join(lines[:i] + [lines[i] + " " + lines[i + 1].lstrip()] + lines[i + 2:])
        if k == "DelLine":
            return "\n".join(lines[:i] + lines[i + 1:])
        if k == "DupLine":
            return "\n".join(lines[: i + 1] + [lines[i]] + lines[i + 1:])
        if n < 2:
            return text
        i = a % (n - 1)
        lines[i], lines[i + 1] = lines[i + 1], lines[i]
        return "\n".join(lines)
    if k == "Soup":
        al = alphabet(lang)
        return " ".join(al[(x - 1) % len(al)] for x in a)
    if k == "DeepNest":
        n = a
        if lang == "Python":
            variants = ["".join(" " * i + f"def f{i}():\n" for i in range(n)) + " " * n + "pass\n", "x = " + "(" * n + "1" + ")" * (n // 2) + "\n", "def f" + "(" * n + "):\n    pass\n"]
        else:
            variants = ["".join(f"int f{i}(int a) {{\n" for i in range(n)) + "}\n" * (n // 2), "int f" + "(" * n + ") {\n}\n", "{" * n + "int f(void) { }" + "}" * n + "\n",
                        # calls nested n deep: every `f(` is a header candidate without a body around the next one
                        "int g(int x) {\n  return " + "f(" * n + "x" + ")" * n + ";\n}\n",
                        "int g(int x) {\n  return " + "f(" * n + "x" + ")" * (n // 2) + ";\n}\n"]
        return variants
    raise ValueError(k)


BYTE_KINDS = ["latin1_identifier", "latin1_comment", "lone_continuation", "nul", "bom", "utf16", "every_high_byte", "c1_string", "all_bytes_tail", "utf16_cut", "utf16_surrogate", "cr_endings", "lone_cr", "crcrlf"]


def apply_bytes(lang, text, kind):
    cm = LANGS[lang]["line"]
    if kind == "latin1_identifier":
        return (text + "\ncaf\xe9 = 1\n").encode("latin-1", "replace")
    if kind == "latin1_comment":
        return (cm + " r\xe9sum\xe9 \xfc\n" + text).encode("latin-1", "replace")
    if kind == "lone_continuation":
        b = text.encode("utf-8")
        return b[: len(b) // 2] + b"\x80\xbf" + b[len(b) // 2:]
    if kind == "nul":
        b = text.encode("utf-8")
        return b[: len(b) // 3] + b"\x00" + b[len(b) // 3:]
    if kind == "bom":
        return b"\xef\xbb\xbf" + text.encode("utf-8")
    if kind == "utf16":
        return text.encode("utf-16")
    if kind == "utf16_cut":        # a UTF-16 file (byte order mark first) cut in the middle of a code unit
        b = text.encode("utf-16")
        return b[: max(3, (len(b) // 2) | 1)]
    if kind == "utf16_surrogate":  # byte order mark, then a lone low surrogate among the code units
        b = text.encode("utf-16")
        return b[:2] + b"\x00\xdc" + b[2:]
    if kind == "cr_endings":       # classic Mac line endings: every line break is a bare carriage return
        return text.replace("\n", "\r").encode("utf-8")
    if kind == "lone_cr":          # one stray carriage return in an LF file, before the second half
        b = text.encode("utf-8")
        cut = b.find(b"\n", len(b) // 2) + 1
        return b[:cut] + b"int stray;\r" + b[cut:]
    if kind == "crcrlf":           # the double-conversion artefact \r\r\n
        return text.replace("\n", "\r\r\n").encode("utf-8")
    if kind == "every_high_byte":  # each of 0x80..0xFF once, in a comment: no 8-bit codec with holes survives this
        return cm.encode() + b" " + bytes(range(0x80, 0x100)) + b"\n" + text.encode("utf-8")
    if kind == "c1_string":  # the C1 control range inside a string literal in the middle of the text
        b = text.encode("utf-8")
        cut = b.find(b"\n", len(b) // 2) + 1
        return b[:cut] + b's = "' + bytes(range(0x80, 0xa0)) + b'"\n' + b[cut:]
    if kind == "all_bytes_tail":  # every byte value but the line breaks, after the text
        return text.encode("utf-8") + b"\n" + bytes(x for x in range(256) if x not in (10, 13)) + b"\n"
    raise ValueError(kind)


def mutate(lang, base_text, ops):
    """Apply a chain. Returns a list of results (DeepNest yields several variants); each is str or bytes."""
    cur = [base_text]
    for op in ops:
        nxt = []
        for t in cur:
            if op["k"] == "Bytes":
                if isinstance(t, bytes):
                    nxt.append(t)
                else:
                    nxt.append(apply_bytes(lang, t, BYTE_KINDS[(op["a"] - 1) % len(BYTE_KINDS)]))
            elif isinstance(t, bytes):
                nxt.append(t)
            else:
                r = apply_op(lang, t, op)
                nxt.extend(r if isinstance(r, list) else [r])
        cur = nxt
    return cur
