"""pytest plugin (loaded with -p vf.pytest_harvest): records every (lexer, source text) the repository's own
tests hand to codelimit's lex(), without touching the repository. The texts are the shapes the maintainers
themselves document as recognised; the drivers use them as additional base texts."""
import json
import os

import codelimit.common.lexer_utils as LU

_SEEN = {}
_orig = LU.lex


def _lex(lexer, code, *a, **kw):
    try:
        if isinstance(code, str):
            _SEEN.setdefault((lexer.__class__.name, code), len(_SEEN))
    except Exception:  # noqa: BLE001 - never disturb the test run
        pass
    return _orig(lexer, code, *a, **kw)


LU.lex = _lex


def pytest_sessionfinish(session, exitstatus):
    out = os.environ.get("VERIF_HARVEST_OUT")
    if out:
        with open(out, "w") as f:
            json.dump([[k[0], k[1]] for k in sorted(_SEEN, key=_SEEN.get)], f)
