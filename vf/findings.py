"""Known findings (committed file, never written at run time) and the verdict reporter."""
from __future__ import annotations

import json

from .common import VERIF, write_replay

FILE = VERIF / "known_findings.json"


def load():
    if not FILE.exists():
        return []
    return json.loads(FILE.read_text())["findings"]


def match(prop: str, sig: dict):
    """An open finding whose signature is contained in `sig` (all listed keys equal)."""
    for f in load():
        if f.get("property") != prop or f.get("status") != "open":
            continue
        want = f["signature"]
        if all(sig.get(k) == v for k, v in want.items()):
            return f
    return None


class Reporter:
    """Collects property-level disagreements of one check run and prints the verdict lines."""

    def __init__(self, prop: str, max_replays: int = 8):
        self.prop = prop
        self.violations = []  # (signature, case)
        self.known = {}  # finding id -> [finding, count]
        self.drift = []
        self.max_replays = max_replays

    def fail(self, sig: dict, case: dict):
        """A case where the real code contradicts the property. sig = minimal signature."""
        f = match(self.prop, sig)
        if f is not None:
            self.known.setdefault(f["id"], [f, 0])[1] += 1
        else:
            self.violations.append((sig, case))

    def model_drift(self, what: str):
        if len(self.drift) < 50:
            self.drift.append(what)

    @property
    def n_violations(self):
        return len(self.violations)

    def finish(self) -> int:
        import collections
        from .common import log

        c = collections.Counter(str(sig.get("clause", sig.get("kind", "?"))) for sig, _ in self.violations)
        if c:
            log(f"[{self.prop}] unlisted disagreements by clause: {dict(c.most_common(12))}")
        for fid, (f, n) in sorted(self.known.items()):
            print(f"KNOWN-FINDING: property={self.prop} {f['what']} [{fid}, {n} case(s) this run]")
        seen = set()
        shown = 0
        for sig, case in self.violations:
            key = json.dumps(sig, sort_keys=True, default=str)
            if key in seen:
                continue
            seen.add(key)
            if shown >= self.max_replays:
                continue
            shown += 1
            p = write_replay(self.prop, {"property": self.prop, "signature": sig, **case})
            print(f"VIOLATION property={self.prop} replay={p}")
        if self.violations and len(seen) > shown:
            print(f"# {len(seen) - shown} further distinct violating signatures not written out ({len(self.violations)} cases in total)")
        return 1 if self.violations else 0
