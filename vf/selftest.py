"""./check --selftest : the machinery judged against changes whose verdict is known.

  mutants/*.patch      header line `# expect: silent` (a property-preserving refactoring: every listed check must
                       exit 0 without VIOLATION) or `# expect: C02 C12` (at least these checks must report);
                       optional `# checks: C01 C05 ...` restricts which checks are run (default: all 19).
  seeded/<id>/         independent property-breaking changes; meta.json's detected_by must be reproduced.
Each change is applied to a scratch worktree of /repo (outside /repo and /verif), the repository's tests must
still pass, the checks run against it through VERIF_REPO / VERIF_SANDBOX, and the worktree is removed.
Usage: ./check --selftest            (everything)      SELFTEST_ONLY=P1,C02a ./check --selftest
"""
from __future__ import annotations

import json
import os
import shutil
import subprocess
import tempfile
import time
from pathlib import Path

from .common import VERIF, log

ALL = [f"C{n:02d}" for n in range(1, 20)]


def sh(cmd, **kw):
    return subprocess.run(cmd, shell=isinstance(cmd, str), capture_output=True, text=True, **kw)


def run_case(name, patch: Path, expect, checks):
    base = Path(tempfile.mkdtemp(prefix=f"selftest-{name}-"))
    wt = base / "wt"
    res = {"name": name, "expect": expect, "checks": {}}
    try:
        r = sh(f"git -C /repo worktree add -q --detach {wt} HEAD")
        if r.returncode != 0:
            return dict(res, error="worktree: " + r.stderr)
        body = "".join(ln for ln in patch.read_text().splitlines(True) if not ln.startswith("# "))
        tmp = base / "p.diff"
        tmp.write_text(body)
        r = sh(f"git -C {wt} apply {tmp}")
        if r.returncode != 0:
            return dict(res, error="patch does not apply: " + r.stderr[-300:])
        env = dict(os.environ, PYTHONPATH=str(wt), PYTHONDONTWRITEBYTECODE="1")
        r = sh("/venv/bin/python -m pytest -q -p no:cacheprovider 2>&1 | tail -1", cwd=wt, env=env)
        res["tests"] = r.stdout.strip()
        demo = patch.parent / "demo.py"
        if demo.exists():
            r = sh(["/venv/bin/python", str(demo)], cwd=base, env=env)
            res["demo_with_change_rc"] = r.returncode
        sb = base / "sb"
        sb.mkdir()
        for c in checks:
            t0 = time.time()
            r = sh([str(VERIF / "check"), c, "--tier", "quick"], cwd=VERIF, env={k: v for k, v in dict(os.environ, VERIF_REPO=str(wt), VERIF_SANDBOX=str(sb)).items() if k != "VERIF_SCRATCH"})
            nv = sum(1 for ln in r.stdout.splitlines() if ln.startswith("VIOLATION"))
            res["checks"][c] = {"rc": r.returncode, "violations": nv, "wall_s": round(time.time() - t0, 1)}
            if r.returncode == 2:
                res["checks"][c]["stderr"] = r.stderr.splitlines()[-5:]
    finally:
        sh(f"git -C /repo worktree remove --force {wt}")
        shutil.rmtree(base, ignore_errors=True)
    alarmed = sorted(c for c, v in res["checks"].items() if v["rc"] == 1 and v["violations"] > 0)
    broken = sorted(c for c, v in res["checks"].items() if v["rc"] not in (0, 1))
    res["alarmed"], res["broken"] = alarmed, broken
    if res.get("demo_with_change_rc") == 0:
        res["verdict"] = "STALE SEED (its demonstration passes with the change on the current tree: later repairs removed the precondition)"
        res["stale"] = True
    elif "157 passed" not in res.get("tests", ""):
        res["verdict"] = "INVALID (repository tests do not pass with the change)"
    elif expect == ["silent"]:
        res["verdict"] = "ok" if not alarmed and not broken else "FALSE ALARM" if alarmed else "BROKEN CHECK"
    else:
        missing = [c for c in expect if c not in alarmed]
        res["verdict"] = "ok" if not missing and not broken else ("MISSED by " + ",".join(missing) if missing else "BROKEN CHECK")
    return res


def main() -> int:
    only = set(filter(None, os.environ.get("SELFTEST_ONLY", "").split(",")))
    cases = []
    obsolete = {}
    for p in sorted((VERIF / "mutants").glob("*.patch")):
        head = [ln[2:].strip() for ln in p.read_text().splitlines() if ln.startswith("# ")]
        expect = next((h.split(":", 1)[1].split() for h in head if h.startswith("expect:")), ["silent"])
        checks = next((h.split(":", 1)[1].split() for h in head if h.startswith("checks:")), None)
        name = p.stem.split("_")[0]
        cases.append((name, p, expect, checks or (ALL if expect == ["silent"] else expect)))
    for d in sorted((VERIF / "seeded").iterdir()):
        if d.is_dir() and (d / "patch.diff").exists():
            meta = json.loads((d / "meta.json").read_text())
            exp = meta.get("detected_by") or [meta.get("property")]
            if meta.get("obsolete"):
                obsolete[d.name] = meta["obsolete"]
            cases.append((d.name, d / "patch.diff", exp, exp))
    out = []
    bad = 0
    for name, patch, expect, checks in cases:
        if only and name not in only:
            continue
        if name in obsolete:
            r = {"name": name, "expect": expect, "verdict": "OBSOLETE SEED (" + obsolete[name] + ")", "stale": True}
        else:
            r = run_case(name, patch, expect, checks)
        out.append(r)
        ok = r.get("verdict") == "ok" or r.get("stale")
        bad += not ok
        log(f"[selftest] {name:8s} expect={' '.join(expect):14s} alarmed={','.join(r.get('alarmed', [])) or '-':20s} {r.get('verdict', r.get('error'))}")
    res_file = VERIF / "selftest_result.json"
    merged = {}
    if only and res_file.exists():  # a partial run updates the cases it ran and keeps the others
        try:
            merged = {r["name"]: r for r in json.loads(res_file.read_text())}
        except (ValueError, KeyError, TypeError):
            merged = {}
    merged.update({r["name"]: r for r in out})
    res_file.write_text(json.dumps([merged[k] for k in sorted(merged)], indent=1))
    log(f"[selftest] {len(out) - bad}/{len(out)} cases as expected")
    return 0 if bad == 0 else 1
