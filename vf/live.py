"""LiveCodebase.tla - one live Codebase object: add_file / replacing add_file interleaved with reads.

TLC enumerates every history of up to MaxOps operations over NPaths paths (the dump is the set of
behaviours, `hist`, with one ghost expectation per read, `exp`); each is replayed into ONE real
Codebase object, asking a fresh Report after every operation that carries a read.  The observations
are returned to the caller: C02 judges profile / findings / counters, C19 the percentages and the
verdict (through PercentTrace.tla).
"""
from __future__ import annotations

import io

from . import tlc
from .common import MachineryError, log, pmap
from .tlaval import read_dump

PATHS = {1: ("a.py", "Python"), 2: ("src/b.c", "C"), 3: ("src/a.py", "Python")}
BOUNDS = {"quick": dict(paths=3, lists="StdLiveLists", ops=3), "thorough": dict(paths=3, lists="StdLiveLists3", ops=4)}
INVS = ["ReadsCount", "DistinctPaths", "ObservationPartitions"]
PROPS = ["ReadIsNotWrite", "ReplaceKeepsPlace"]


def entry(pid, lens, gen):
    from codelimit.common.Location import Location
    from codelimit.common.Measurement import Measurement
    from codelimit.common.SourceFileEntry import SourceFileEntry

    path, lang = PATHS[pid]
    ms, line = [], 1
    for i, L in enumerate(lens):
        ms.append(Measurement(f"fn{i}_{L}", Location(line, 1), Location(line + L - 1, 2), L))
        line += L + 1
    return SourceFileEntry(path, f"sum{gen}", lang, sum(lens), ms)


def read(cb, render):
    from rich.console import Console

    from codelimit.common.report import format_markdown, format_text
    from codelimit.common.report.Report import Report

    rep = Report(cb)
    o = {"measurements": [m.value for m in cb.all_measurements()], "profile": list(rep.quality_profile()),
         "pct": [x if type(x) is int else (int(x) if type(x) is float and x == int(x) else -1) for x in rep.quality_profile_percentage()],
         "findings": [u.measurement.value for u in rep.all_report_units_sorted_by_length_asc(30)],
         "hard": sum(t.hard_to_maintain for t in cb.totals.values()), "unm": sum(t.unmaintainable for t in cb.totals.values()),
         "files": [[p, [m.value for m in e.measurements()]] for p, e in cb.files.items()], "figs": [], "necessary": []}
    if render:
        from .props.c19 import parse_summary

        for fmt in (format_text, format_markdown):
            con = Console(record=True, width=300, file=io.StringIO(), force_terminal=False, color_system=None)
            fmt.print_summary(con, rep)
            f, n = parse_summary(con.export_text())
            o["figs"].append(f)
            o["necessary"].append(n)
    return o


def replay_history(hist):
    """hist = ((pid, lens, read?), ...) -> list of observations, one per read (the last operation is read in any case)."""
    from codelimit.common.Codebase import Codebase

    cb = Codebase("/")
    out = []
    for k, (pid, lens, r) in enumerate(hist):
        if pid == 0:
            cb.aggregate()
        else:
            cb.add_file(entry(pid, lens, k))
        if r:
            out.append(read(cb, render=(k == len(hist) - 1)))
    return out


def behaviours(tier, wd, cfgname="LiveCodebase.cfg"):
    b = BOUNDS[tier]
    cfg = tlc.cfg({"NPaths": b["paths"], "MaxOps": b["ops"]}, spec="Spec", invariants=INVS, properties=PROPS)
    cfg = cfg.replace("CONSTANTS\n", f"CONSTANTS\n  MeasLists <- {b['lists']}\n")  # a .cfg cannot write sequences
    m = tlc.run("LiveCodebase", cfg, wd, dump=True, cfgname=cfgname)
    if m.violated:
        raise MachineryError(f"reference sanity invariant violated in LiveCodebase.tla: {m.violated}")
    out = []
    for st in read_dump(m.dump):
        hist = tuple((int(p), tuple(int(x) for x in ls), bool(r)) for p, ls, r in st["hist"])
        if not hist or not hist[-1][2]:
            continue  # histories that end with a read; the others are their prefixes
        out.append((hist, list(st["exp"]), bool(st["pure"])))
    return m, out


def run(tier, wd, tag):
    """-> (tlc result, [(hist, expectations, pure, ('ok', observations) | ('exc'|'timeout', ..))])"""
    m, bs = behaviours(tier, wd)
    res = pmap(replay_history, [h for h, _, _ in bs], timeout=60, chunk=256)
    log(f"[{tag}] L replayed {len(bs)} histories of a live Codebase ({sum(len(e) for _, e, _ in bs)} reads) from LiveCodebase.tla")
    return m, [(h, e, p, r) for (h, e, p), r in zip(bs, res)]


def clause_c02(exp, pure, obs):
    """First C02 clause on which a read disagrees with its expectation, or None."""
    if len(obs) != len(exp):
        return "Live:ReadCount"
    for k, (e, o) in enumerate(zip(exp, obs)):
        if o["measurements"] != list(e["measurements"]):
            return "Live:MeasurementsOfHeldFiles"
        if o["profile"] != list(e["profile"]):
            return "Live:QualityProfile"
        if o["findings"] != list(e["findings"]):
            return "Live:FindingsList"
        if pure and (o["hard"] != e["hard"] or o["unm"] != e["unm"]):
            return "Live:Counters"
    return None
