/*
 * Socket functions used in rsync.
 *
 * Copyright (C) 1992-2001 Andrew Tridgell <tridge@samba.org>
 * Copyright (C) 2001, 2002 Martin Pool <mbp@samba.org>
 * Copyright (C) 2003-2020 Wayne Davison
 *
 * This program is free software; you can redistribute it and/or modify
 * it under the terms of the GNU General Public License as published by
 * the Free Software Foundation; either version 3 of the License, or
 * (at your option) any later version.
 *
 * This program is distributed in the hope that it will be useful,
 * but WITHOUT ANY WARRANTY; without even the implied warranty of
 * MERCHANTABILITY or FITNESS FOR A PARTICULAR PURPOSE.  See the
 * GNU General Public License for more details.
 *
 * You should have received a copy of the GNU General Public License along
 * with this program; if not, visit the http://fsf.org website.
 */

/* This file is now converted to use the new-style getaddrinfo()
 * interface, which supports IPv6 but is also supported on recent
 * IPv4-only machines.  On systems that don't have that interface, we
 * emulate it using the KAME implementation. */

#include "rsync.h"
#include "itypes.h"
#include "ifuncs.h"
#ifdef HAVE_NETINET_IN_SYSTM_H
#include <netinet/in_systm.h>
#endif
#ifdef HAVE_NETINET_IP_H
#include <netinet/ip.h>
#endif
#include <netinet/tcp.h>

extern char *bind_address;
extern char *sockopts;
extern int default_af_hint;
extern int connect_timeout;
extern int pid_file_fd;

#ifdef HAVE_SIGACTION
static struct sigaction sigact;
#endif

static int sock_exec(const char *prog);

/* Establish a proxy connection on an open socket to a web proxy by using the
 * CONNECT method.  If proxy_user and proxy_pass are not NULL, they are used to
 * authenticate to the proxy using the "Basic" proxy-authorization protocol. */
static int establish_proxy_connection(int fd, char *host, int port, char *proxy_user, char *proxy_pass)
{
	char *cp, buffer[1024];
	char *authhdr, authbuf[1024];
	int len;

	if (proxy_user && proxy_pass) {
		stringjoin(buffer, sizeof buffer,
			 proxy_user, ":", proxy_pass, NULL);
		len = strlen(buffer);

		if ((len*8 + 5) / 6 >= (int)sizeof authbuf - 3) {
			rprintf(FERROR,
				"authentication information is too long\n");
			return -1;
		}

		base64_encode(buffer, len, authbuf, 1);
		authhdr = "\r\nProxy-Authorization: Basic ";
	} else {
		*authbuf = '\0';
		authhdr = "";
	}

	len = snprintf(buffer, sizeof buffer, "CONNECT %s:%d HTTP/1.0%s%s\r\n\r\n", host, port, authhdr, authbuf);
	assert(len > 0 && len < (int)sizeof buffer);
	if (write(fd, buffer, len) != len) {
		rsyserr(FERROR, errno, "failed to write to proxy");
		return -1;
	}

	for (cp = buffer; cp < &buffer[sizeof buffer - 1]; cp++) {
		if (read(fd, cp, 1) != 1) {
			rsyserr(FERROR, errno, "failed to read from proxy");
			return -1;
		}
		if (*cp == '\n')
			break;
	}

	if (*cp != '\n')
		cp++;
	*cp-- = '\0';
	if (*cp == '\r')
		*cp = '\0';
	if (strncmp(buffer, "HTTP/", 5) != 0) {
		rprintf(FERROR, "bad response from proxy -- %s\n",
			buffer);
		return -1;
	}
	for (cp = &buffer[5]; isDigit(cp) || *cp == '.'; cp++) {}
	while (*cp == ' ')
		cp++;
	if (*cp != '2') {
		rprintf(FERROR, "bad response from proxy -- %s\n",
			buffer);
		return -1;
	}
	/* throw away the rest of the HTTP header */
	while (1) {
		for (cp = buffer; cp < &buffer[sizeof buffer - 1]; cp++) {
			if (read(fd, cp, 1) != 1) {
				rsyserr(FERROR, errno,
					"failed to read from proxy");
				return -1;
			}
			if (*cp == '\n')
				break;
		}
		if (cp > buffer && *cp == '\n')
			cp--;
		if (cp == buffer && (*cp == '\n' || *cp == '\r'))
			break;
	}
	return 0;
}


/* Try to set the local address for a newly-created socket.
 * Return -1 if this fails. */
int try_bind_local(int s, int ai_family, int ai_socktype,
		   const char *bind_addr)
{
	int error;
	struct addrinfo bhints, *bres_all, *r;

	memset(&bhints, 0, sizeof bhints);
	bhints.ai_family = ai_family;
	bhints.ai_socktype = ai_socktype;
	bhints.ai_flags = AI_PASSIVE;
	if ((error = getaddrinfo(bind_addr, NULL, &bhints, &bres_all))) {
		rprintf(FERROR, RSYNC_NAME ": getaddrinfo %s: %s\n",
			bind_addr, gai_strerror(error));
		return -1;
	}

	for (r = bres_all; r; r = r->ai_next) {
		if (bind(s, r->ai_addr, r->ai_addrlen) == -1)
			continue;
		freeaddrinfo(bres_all);
		return s;
	}

	/* no error message; there might be some problem that allows
	 * creation of the socket but not binding, perhaps if the
	 * machine has no ipv6 address of this name. */
	freeaddrinfo(bres_all);
	return -1;
}

/* connect() timeout handler based on alarm() */
static void contimeout_handler(UNUSED(int val))
{
	connect_timeout = -1;
}

/* Open a socket to a tcp remote host with the specified port.
 *
 * Based on code from Warren.  Proxy support by Stephen Rothwell.
 * getaddrinfo() rewrite contributed by KAME.net.
 *
 * Now that we support IPv6 we need to look up the remote machine's address
 * first, using af_hint to set a preference for the type of address.  Then
 * depending on whether it has v4 or v6 addresses we try to open a connection.
 *
 * The loop allows for machines with some addresses which may not be reachable,
 * perhaps because we can't e.g. route ipv6 to that network but we can get ip4
 * packets through.
 *
 * bind_addr: local address to use.  Normally NULL to bind the wildcard address.
 *
 * af_hint: address family, e.g. AF_INET or AF_INET6. */
int open_socket_out(char *host, int port, const char *bind_addr, int af_hint)
{
	int type = SOCK_STREAM;
	int error, s, j, addr_cnt, *errnos;
	struct addrinfo hints, *res0, *res;
	char portbuf[10];
	char *h, *cp;
	int proxied = 0;
	char buffer[1024];
	char *proxy_user = NULL, *proxy_pass = NULL;

	/* if we have a RSYNC_PROXY env variable then redirect our
	 * connection via a web proxy at the given address. */
	h = getenv("RSYNC_PROXY");
	proxied = h != NULL && *h != '\0';

	if (proxied) {
		strlcpy(buffer, h, sizeof buffer);

		/* Is the USER:PASS@ prefix present? */
		if ((cp = strrchr(buffer, '@')) != NULL) {
			*cp++ = '\0';
			/* The remainder is the HOST:PORT part. */
			h = cp;

			if ((cp = strchr(buffer, ':')) == NULL) {
				rprintf(FERROR,
					"invalid proxy specification: should be USER:PASS@HOST:PORT\n");
				return -1;
			}
			*cp++ = '\0';

			proxy_user = buffer;
			proxy_pass = cp;
		} else {
			/* The whole buffer is the HOST:PORT part. */
			h = buffer;
		}

		if ((cp = strchr(h, ':')) == NULL) {
			rprintf(FERROR,
				"invalid proxy specification: should be HOST:PORT\n");
			return -1;
		}
		*cp++ = '\0';
		strlcpy(portbuf, cp, sizeof portbuf);
		if (DEBUG_GTE(CONNECT, 1)) {
			rprintf(FINFO, "connection via http proxy %s port %s\n",
				h, portbuf);
		}
	} else {
		snprintf(portbuf, sizeof portbuf, "%d", port);
		h = host;
	}

	memset(&hints, 0, sizeof hints);
	hints.ai_family = af_hint;
	hints.ai_socktype = type;
	error = getaddrinfo(h, portbuf, &hints, &res0);
	if (error) {
		rprintf(FERROR, RSYNC_NAME ": getaddrinfo: %s %s: %s\n",
			h, portbuf, gai_strerror(error));
		return -1;
	}

	for (res = res0, addr_cnt = 0; res; res = res->ai_next, addr_cnt++) {}
	errnos = new_array0(int, addr_cnt);

	s = -1;
	/* Try to connect to all addresses for this machine until we get
	 * through.  It might e.g. be multi-homed, or have both IPv4 and IPv6
	 * addresses.  We need to create a socket for each record, since the
	 * address record tells us what protocol to use to try to connect. */
	for (res = res0, j = 0; res; res = res->ai_next, j++) {
		s = socket(res->ai_family, res->ai_socktype, res->ai_protocol);
		if (s < 0)
			continue;

		if (bind_addr
		 && try_bind_local(s, res->ai_family, type,
				   bind_addr) == -1) {
			close(s);
			s = -1;
			continue;
		}
		if (connect_timeout > 0) {
			SIGACTION(SIGALRM, contimeout_handler);
			alarm(connect_timeout);
		}

		set_socket_options(s, sockopts);
		while (connect(s, res->ai_addr, res->ai_addrlen) < 0) {
			if (connect_timeout < 0)
				exit_cleanup(RERR_CONTIMEOUT);
			if (errno == EINTR)
				continue;
			close(s);
			s = -1;
			break;
		}

		if (connect_timeout > 0)
			alarm(0);

		if (s < 0) {
			errnos[j] = errno;
			continue;
		}

		if (proxied && establish_proxy_connection(s, host, port, proxy_user, proxy_pass) != 0) {
			close(s);
			s = -1;
			continue;
		}
		if (DEBUG_GTE(CONNECT, 2)) {
			char buf[2048];
			if ((error = getnameinfo(res->ai_addr, res->ai_addrlen, buf, sizeof buf, NULL, 0, NI_NUMERICHOST)) != 0)
				snprintf(buf, sizeof buf, "*getnameinfo failure: %s*", gai_strerror(error));
			rprintf(FINFO, "Connected to %s (%s)\n", h, buf);
		}
		break;
	}

	if (s < 0 || DEBUG_GTE(CONNECT, 2)) {
		char buf[2048];
		for (res = res0, j = 0; res; res = res->ai_next, j++) {
			if (errnos[j] == 0)
				continue;
			if ((error = getnameinfo(res->ai_addr, res->ai_addrlen, buf, sizeof buf, NULL, 0, NI_NUMERICHOST)) != 0)
				snprintf(buf, sizeof buf, "*getnameinfo failure: %s*", gai_strerror(error));
			rsyserr(FERROR, errnos[j], "failed to connect to %s (%s)", h, buf);
		}
		if (s < 0)
			s = -1;
	}

	freeaddrinfo(res0);
	free(errnos);

	return s;
}


/* Open an outgoing socket, but allow for it to be intercepted by
 * $RSYNC_CONNECT_PROG, which will execute a program across a TCP
 * socketpair rather than really opening a socket.
 *
 * We use this primarily in testing to detect TCP flow bugs, but not
 * cause security problems by really opening remote connections.
 *
 * This is based on the Samba LIBSMB_PROG feature.
 *
 * bind_addr: local address to use.  Normally NULL to get the stack default. */
int open_socket_out_wrapped(char *host, int port, const char *bind_addr, int af_hint)
{
	char *prog = getenv("RSYNC_CONNECT_PROG");

	if (prog && strchr(prog, '%')) {
		int hlen = strlen(host);
		int len = strlen(prog) + 1;
		char *f, *t;
		for (f = prog; *f; f++) {
			if (*f != '%')
				continue;
			/* Compute more than enough room. */
			if (f[1] == '%')
				f++;
			else
				len += hlen;
		}
		f = prog;
		prog = new_array(char, len);
		for (t = prog; *f; f++) {
			if (*f == '%') {
				switch (*++f) {
				case '%':
					/* Just skips the extra '%'. */
					break;
				case 'H':
					memcpy(t, host, hlen);
					t += hlen;
					continue;
				default:
					f--; /* pass % through */
					break;
				}
			}
			*t++ = *f;
		}
		*t = '\0';
	}

	if (DEBUG_GTE(CONNECT, 1)) {
		rprintf(FINFO, "%sopening tcp connection to %s port %d\n",
			prog ? "Using RSYNC_CONNECT_PROG instead of " : "",
			host, port);
	}
	if (prog)
		return sock_exec(prog);
	return open_socket_out(host, port, bind_addr, af_hint);
}


/* Open one or more sockets for incoming data using the specified type,
 * port, and address.
 *
 * The getaddrinfo() call may return several address results, e.g. for
 * the machine's IPv4 and IPv6 name.
 *
 * We return an array of file-descriptors to the sockets, with a trailing
 * -1 value to indicate the end of the list.
 *
 * bind_addr: local address to bind, or NULL to allow it to default. */
static int *open_socket_in(int type, int port, const char *bind_addr,
			   int af_hint)
{
	int one = 1;
	int s, *socks, maxs, i, ecnt;
	struct addrinfo hints, *all_ai, *resp;
	char portbuf[10], **errmsgs;
	int error;

	memset(&hints, 0, sizeof hints);
	hints.ai_family = af_hint;
	hints.ai_socktype = type;
	hints.ai_flags = AI_PASSIVE;
	snprintf(portbuf, sizeof portbuf, "%d", port);
	error = getaddrinfo(bind_addr, portbuf, &hints, &all_ai);
	if (error) {
		rprintf(FERROR, RSYNC_NAME ": getaddrinfo: bind address %s: %s\n",
			bind_addr, gai_strerror(error));
		return NULL;
	}

	/* Count max number of sockets we might open. */
	for (maxs = 0, resp = all_ai; resp; resp = resp->ai_next, maxs++) {}

	socks = new_array(int, maxs + 1);
	errmsgs = new_array(char *, maxs);

	/* We may not be able to create the socket, if for example the
	 * machine knows about IPv6 in the C library, but not in the
	 * kernel. */
	for (resp = all_ai, i = ecnt = 0; resp; resp = resp->ai_next) {
		s = socket(resp->ai_family, resp->ai_socktype,
			   resp->ai_protocol);

		if (s == -1) {
			int r = asprintf(&errmsgs[ecnt++],
				"socket(%d,%d,%d) failed: %s\n",
				(int)resp->ai_family, (int)resp->ai_socktype,
				(int)resp->ai_protocol, strerror(errno));
			if (r < 0)
				out_of_memory("open_socket_in");
			/* See if there's another address that will work... */
			continue;
		}

		setsockopt(s, SOL_SOCKET, SO_REUSEADDR,
			   (char *)&one, sizeof one);
		if (sockopts)
			set_socket_options(s, sockopts);
		else
			set_socket_options(s, lp_socket_options());

#ifdef IPV6_V6ONLY
		if (resp->ai_family == AF_INET6) {
			if (setsockopt(s, IPPROTO_IPV6, IPV6_V6ONLY, (char *)&one, sizeof one) < 0
			 && default_af_hint != AF_INET6) {
				close(s);
				continue;
			}
		}
#endif

		/* Now we've got a socket - we need to bind it. */
		if (bind(s, resp->ai_addr, resp->ai_addrlen) < 0) {
			/* Nope, try another */
			int r = asprintf(&errmsgs[ecnt++],
				"bind() failed: %s (address-family %d)\n",
				strerror(errno), (int)resp->ai_family);
			if (r < 0)
				out_of_memory("open_socket_in");
			close(s);
			continue;
		}

		socks[i++] = s;
	}
	socks[i] = -1;

	if (all_ai)
		freeaddrinfo(all_ai);

	/* Only output the socket()/bind() messages if we were totally
	 * unsuccessful, or if the daemon is being run with -vv. */
	for (s = 0; s < ecnt; s++) {
		if (!i || DEBUG_GTE(BIND, 1))
			rwrite(FLOG, errmsgs[s], strlen(errmsgs[s]), 0);
		free(errmsgs[s]);
	}
	free(errmsgs);

	if (!i) {
		rprintf(FERROR,
			"unable to bind any inbound sockets on port %d\n",
			port);
		free(socks);
		return NULL;
	}
	return socks;
}


/* Determine if a file descriptor is in fact a socket. */
int is_a_socket(int fd)
{
	int v;
	socklen_t l = sizeof (int);

	/* Parameters to getsockopt, setsockopt etc are very
	 * unstandardized across platforms, so don't be surprised if
	 * there are compiler warnings on e.g. SCO OpenSwerver or AIX.
	 * It seems they all eventually get the right idea.
	 *
	 * Debian says: ``The fifth argument of getsockopt and
	 * setsockopt is in reality an int [*] (and this is what BSD
	 * 4.* and libc4 and libc5 have).  Some POSIX confusion
	 * resulted in the present socklen_t.  The draft standard has
	 * not been adopted yet, but glibc2 already follows it and
	 * also has socklen_t [*]. See also accept(2).''
	 *
	 * We now return to your regularly scheduled programming.  */
	return getsockopt(fd, SOL_SOCKET, SO_TYPE, (char *)&v, &l) == 0;
}


static void sigchld_handler(UNUSED(int val))
{
#ifdef WNOHANG
	while (waitpid(-1, NULL, WNOHANG) > 0) {}
#endif
#ifndef HAVE_SIGACTION
	signal(SIGCHLD, sigchld_handler);
#endif
}


void start_accept_loop(int port, int (*fn)(int, int))
{
	fd_set deffds;
	int *sp, maxfd, i;

#ifdef HAVE_SIGACTION
	sigact.sa_flags = SA_NOCLDSTOP;
#endif

	/* open an incoming socket */
	sp = open_socket_in(SOCK_STREAM, port, bind_address, default_af_hint);
	if (sp == NULL)
		exit_cleanup(RERR_SOCKETIO);

	/* ready to listen */
	FD_ZERO(&deffds);
	for (i = 0, maxfd = -1; sp[i] >= 0; i++) {
		if (listen(sp[i], lp_listen_backlog()) < 0) {
			rsyserr(FERROR, errno, "listen() on socket failed");
#ifdef INET6
			if (errno == EADDRINUSE && i > 0) {
				rprintf(FINFO, "Try using --ipv4 or --ipv6 to avoid this listen() error.\n");
			}
#endif
			exit_cleanup(RERR_SOCKETIO);
		}
		FD_SET(sp[i], &deffds);
		if (maxfd < sp[i])
			maxfd = sp[i];
	}

	/* now accept incoming connections - forking a new process
	 * for each incoming connection */
	while (1) {
		fd_set fds;
		pid_t pid;
		int fd;
		struct sockaddr_storage addr;
		socklen_t addrlen = sizeof addr;

		/* close log file before the potentially very long select so
		 * file can be trimmed by another process instead of growing
		 * forever */
		logfile_close();

#ifdef FD_COPY
		FD_COPY(&deffds, &fds);
#else
		fds = deffds;
#endif

		if (select(maxfd + 1, &fds, NULL, NULL, NULL) < 1)
			continue;

		for (i = 0, fd = -1; sp[i] >= 0; i++) {
			if (FD_ISSET(sp[i], &fds)) {
				fd = accept(sp[i], (struct sockaddr *)&addr, &addrlen);
				break;
			}
		}

		if (fd < 0)
			continue;

		SIGACTION(SIGCHLD, sigchld_handler);

		if ((pid = fork()) == 0) {
			int ret;
			if (pid_file_fd >= 0)
				close(pid_file_fd);
			for (i = 0; sp[i] >= 0; i++)
				close(sp[i]);
			/* Re-open log file in child before possibly giving
			 * up privileges (see logfile_close() above). */
			logfile_reopen();
			ret = fn(fd, fd);
			close_all();
			_exit(ret);
		} else if (pid < 0) {
			rsyserr(FERROR, errno,
				"could not create child server process");
			close(fd);
			/* This might have happened because we're
			 * overloaded.  Sleep briefly before trying to
			 * accept again. */
			sleep(2);
		} else {
			/* Parent doesn't need this fd anymore. */
			close(fd);
		}
	}
}


enum SOCK_OPT_TYPES {OPT_BOOL,OPT_INT,OPT_ON};

struct
{
  char *name;
  int level;
  int option;
  int value;
  int opttype;
} socket_options[] = {
  {"SO_KEEPALIVE",      SOL_SOCKET,    SO_KEEPALIVE,    0,                 OPT_BOOL},
  {"SO_REUSEADDR",      SOL_SOCKET,    SO_REUSEADDR,    0,                 OPT_BOOL},
#ifdef SO_BROADCAST
  {"SO_BROADCAST",      SOL_SOCKET,    SO_BROADCAST,    0,                 OPT_BOOL},
#endif
#ifdef TCP_NODELAY
  {"TCP_NODELAY",       IPPROTO_TCP,   TCP_NODELAY,     0,                 OPT_BOOL},
#endif
#ifdef IPTOS_LOWDELAY
  {"IPTOS_LOWDELAY",    IPPROTO_IP,    IP_TOS,          IPTOS_LOWDELAY,    OPT_ON},
#endif
#ifdef IPTOS_THROUGHPUT
  {"IPTOS_THROUGHPUT",  IPPROTO_IP,    IP_TOS,          IPTOS_THROUGHPUT,  OPT_ON},
#endif
#ifdef SO_SNDBUF
  {"SO_SNDBUF",         SOL_SOCKET,    SO_SNDBUF,       0,                 OPT_INT},
#endif
#ifdef SO_RCVBUF
  {"SO_RCVBUF",         SOL_SOCKET,    SO_RCVBUF,       0,                 OPT_INT},
#endif
#ifdef SO_SNDLOWAT
  {"SO_SNDLOWAT",       SOL_SOCKET,    SO_SNDLOWAT,     0,                 OPT_INT},
#endif
#ifdef SO_RCVLOWAT
  {"SO_RCVLOWAT",       SOL_SOCKET,    SO_RCVLOWAT,     0,                 OPT_INT},
#endif
#ifdef SO_SNDTIMEO
  {"SO_SNDTIMEO",       SOL_SOCKET,    SO_SNDTIMEO,     0,                 OPT_INT},
#endif
#ifdef SO_RCVTIMEO
  {"SO_RCVTIMEO",       SOL_SOCKET,    SO_RCVTIMEO,     0,                 OPT_INT},
#endif
  {NULL,0,0,0,0}
};


/* Set user socket options. */
void set_socket_options(int fd, char *options)
{
	char *tok;

	if (!options || !*options)
		return;

	options = strdup(options);

	for (tok = strtok(options, " \t,"); tok; tok = strtok(NULL," \t,")) {
		int ret=0,i;
		int value = 1;
		char *p;
		int got_value = 0;

		if ((p = strchr(tok,'='))) {
			*p = 0;
			value = atoi(p+1);
			got_value = 1;
		}

		for (i = 0; socket_options[i].name; i++) {
			if (strcmp(socket_options[i].name,tok)==0)
				break;
		}

		if (!socket_options[i].name) {
			rprintf(FERROR,"Unknown socket option %s\n",tok);
			continue;
		}

		switch (socket_options[i].opttype) {
		case OPT_BOOL:
		case OPT_INT:
			ret = setsockopt(fd,socket_options[i].level,
					 socket_options[i].option,
					 (char *)&value, sizeof (int));
			break;

		case OPT_ON:
			if (got_value)
				rprintf(FERROR,"syntax error -- %s does not take a value\n",tok);

			{
				int on = socket_options[i].value;
				ret = setsockopt(fd,socket_options[i].level,
						 socket_options[i].option,
						 (char *)&on, sizeof (int));
			}
			break;
		}

		if (ret != 0) {
			rsyserr(FERROR, errno,
				"failed to set socket option %s", tok);
		}
	}

	free(options);
}


/* This is like socketpair but uses tcp.  The function guarantees that nobody
 * else can attach to the socket, or if they do that this function fails and
 * the socket gets closed.  Returns 0 on success, -1 on failure.  The resulting
 * file descriptors are symmetrical.  Currently only for RSYNC_CONNECT_PROG. */
static int socketpair_tcp(int fd[2])
{
	int listener;
	struct sockaddr_in sock;
	struct sockaddr_in sock2;
	socklen_t socklen = sizeof sock;
	int connect_done = 0;

	fd[0] = fd[1] = listener = -1;

	memset(&sock, 0, sizeof sock);

	if ((listener = socket(PF_INET, SOCK_STREAM, 0)) == -1)
		goto failed;

	memset(&sock2, 0, sizeof sock2);
#ifdef HAVE_SOCKADDR_IN_LEN
	sock2.sin_len = sizeof sock2;
#endif
	sock2.sin_family = PF_INET;
	sock2.sin_addr.s_addr = htonl(INADDR_LOOPBACK);

	if (bind(listener, (struct sockaddr *)&sock2, sizeof sock2) != 0
	 || listen(listener, 1) != 0
	 || getsockname(listener, (struct sockaddr *)&sock, &socklen) != 0
	 || (fd[1] = socket(PF_INET, SOCK_STREAM, 0)) == -1)
		goto failed;

	set_nonblocking(fd[1]);

	sock.sin_addr.s_addr = htonl(INADDR_LOOPBACK);

	if (connect(fd[1], (struct sockaddr *)&sock, sizeof sock) == -1) {
		if (errno != EINPROGRESS)
			goto failed;
	} else
		connect_done = 1;

	if ((fd[0] = accept(listener, (struct sockaddr *)&sock2, &socklen)) == -1)
		goto failed;

	close(listener);
	listener = -1;

	set_blocking(fd[1]);

	if (connect_done == 0) {
		if (connect(fd[1], (struct sockaddr *)&sock, sizeof sock) != 0 && errno != EISCONN)
			goto failed;
	}

	/* all OK! */
	return 0;

 failed:
	if (fd[0] != -1)
		close(fd[0]);
	if (fd[1] != -1)
		close(fd[1]);
	if (listener != -1)
		close(listener);
	return -1;
}


/* Run a program on a local tcp socket, so that we can talk to it's stdin and
 * stdout.  This is used to fake a connection to a daemon for testing -- not
 * for the normal case of running SSH.
 *
 * Returns a socket which is attached to a subprocess running "prog". stdin and
 * stdout are attached. stderr is left attached to the original stderr. */
static int sock_exec(const char *prog)
{
	pid_t pid;
	int fd[2];

	if (socketpair_tcp(fd) != 0) {
		rsyserr(FERROR, errno, "socketpair_tcp failed");
		return -1;
	}
	if (DEBUG_GTE(CMD, 1))
		rprintf(FINFO, "Running socket program: \"%s\"\n", prog);

	pid = fork();
	if (pid < 0) {
		rsyserr(FERROR, errno, "fork");
		exit_cleanup(RERR_IPC);
	}

	if (pid == 0) {
		close(fd[0]);
		if (dup2(fd[1], STDIN_FILENO) < 0
		 || dup2(fd[1], STDOUT_FILENO) < 0) {
			fprintf(stderr, "Failed to run \"%s\"\n", prog);
			exit(1);
		}
		exit(shell_exec(prog));
	}

	close(fd[1]);
	return fd[0];
}
