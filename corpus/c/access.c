/*
 * Routines to authenticate access to a daemon (hosts allow/deny).
 *
 * Copyright (C) 1998 Andrew Tridgell
 * Copyright (C) 2004-2022 Wayne Davison
 *
 * This program is free software; you can redistribute it and/or modify
 * it under the terms of the GNU General Public License as published by
 * the Free Software Foundation; either version 3 of the License, or
 * (at your option) any later version.
 *
 * This program is distributed in the hope that it will be useful,
 * but WITHOUT ANY WARRANTY; without even the implied warranty of
 * MERCHANTABILITY or FITNESS FOR A PARTICULAR PURPOSE.  See the
 * GNU General Public License for more details.
 *
 * You should have received a copy of the GNU General Public License along
 * with this program; if not, visit the http://fsf.org website.
 */

#include "rsync.h"
#include "ifuncs.h"
#ifdef HAVE_NETGROUP_H
#include <netgroup.h>
#endif

static int allow_forward_dns;

extern const char undetermined_hostname[];

static int match_hostname(const char **host_ptr, const char *addr, const char *tok)
{
	struct hostent *hp;
	unsigned int i;
	const char *host = *host_ptr;

	if (!host || !*host)
		return 0;

#ifdef HAVE_INNETGR
	if (*tok == '@' && tok[1])
		return innetgr(tok + 1, host, NULL, NULL);
#endif

	/* First check if the reverse-DNS-determined hostname matches. */
	if (iwildmatch(tok, host))
		return 1;

	if (!allow_forward_dns)
		return 0;

	/* Fail quietly if tok is an address or wildcarded entry, not a simple hostname. */
	if (!tok[strspn(tok, ".0123456789")] || tok[strcspn(tok, ":/*?[")])
		return 0;

	/* Now try forward-DNS on the token (config-specified hostname) and see if the IP matches. */
	if (!(hp = gethostbyname(tok)))
		return 0;

	for (i = 0; hp->h_addr_list[i] != NULL; i++) {
		if (strcmp(addr, inet_ntoa(*(struct in_addr*)(hp->h_addr_list[i]))) == 0) {
			/* If reverse lookups are off, we'll use the conf-specified
			 * hostname in preference to UNDETERMINED. */
			if (host == undetermined_hostname)
				*host_ptr = strdup(tok);
			return 1;
		}
	}

	return 0;
}

static int match_binary(const char *b1, const char *b2, const char *mask, int addrlen)
{
	int i;

	for (i = 0; i < addrlen; i++) {
		if ((b1[i] ^ b2[i]) & mask[i])
			return 0;
	}

	return 1;
}

static void make_mask(char *mask, int plen, int addrlen)
{
	int w, b;

	w = plen >> 3;
	b = plen & 0x7;

	if (w)
		memset(mask, 0xff, w);
	if (w < addrlen)
		mask[w] = 0xff & (0xff<<(8-b));
	if (w+1 < addrlen)
		memset(mask+w+1, 0, addrlen-w-1);

	return;
}

static int match_address(const char *addr, const char *tok)
{
	char *p;
	struct addrinfo hints, *resa, *rest;
	int gai;
	int ret = 0;
	int addrlen = 0;
#ifdef HAVE_STRTOL
	long int bits;
#else
	int bits;
#endif
	char mask[16];
	char *a = NULL, *t = NULL;

	if (!addr || !*addr)
		return 0;

	p = strchr(tok,'/');
	if (p)
		*p = '\0';

	/* Fail quietly if tok is a hostname, not an address. */
	if (tok[strspn(tok, ".0123456789")] && strchr(tok, ':') == NULL) {
		if (p)
			*p = '/';
		return 0;
	}

	memset(&hints, 0, sizeof(hints));
	hints.ai_family = PF_UNSPEC;
	hints.ai_socktype = SOCK_STREAM;
#ifdef AI_NUMERICHOST
	hints.ai_flags = AI_NUMERICHOST;
#endif

	if (getaddrinfo(addr, NULL, &hints, &resa) != 0) {
		if (p)
			*p = '/';
		return 0;
	}

	gai = getaddrinfo(tok, NULL, &hints, &rest);
	if (p)
		*p++ = '/';
	if (gai != 0) {
		rprintf(FLOG, "error matching address %s: %s\n",
			tok, gai_strerror(gai));
		freeaddrinfo(resa);
		return 0;
	}

	if (rest->ai_family != resa->ai_family) {
		ret = 0;
		goto out;
	}

	switch(resa->ai_family) {
	case PF_INET:
		a = (char *)&((struct sockaddr_in *)resa->ai_addr)->sin_addr;
		t = (char *)&((struct sockaddr_in *)rest->ai_addr)->sin_addr;
		addrlen = 4;

		break;

#ifdef INET6
	case PF_INET6: {
		struct sockaddr_in6 *sin6a, *sin6t;

		sin6a = (struct sockaddr_in6 *)resa->ai_addr;
		sin6t = (struct sockaddr_in6 *)rest->ai_addr;

		a = (char *)&sin6a->sin6_addr;
		t = (char *)&sin6t->sin6_addr;

		addrlen = 16;

#ifdef HAVE_SOCKADDR_IN6_SCOPE_ID
		if (sin6t->sin6_scope_id && sin6a->sin6_scope_id != sin6t->sin6_scope_id) {
			ret = 0;
			goto out;
		}
#endif

		break;
	}
#endif
	default:
		rprintf(FLOG, "unknown family %u\n", rest->ai_family);
		ret = 0;
		goto out;
	}

	bits = -1;
	if (p) {
		if (inet_pton(resa->ai_addr->sa_family, p, mask) <= 0) {
#ifdef HAVE_STRTOL
			char *ep = NULL;
#else
			unsigned char *pp;
#endif

#ifdef HAVE_STRTOL
			bits = strtol(p, &ep, 10);
			if (!*p || *ep) {
				rprintf(FLOG, "malformed mask in %s\n", tok);
				ret = 0;
				goto out;
			}
#else
			for (pp = (unsigned char *)p; *pp; pp++) {
				if (!isascii(*pp) || !isdigit(*pp)) {
					rprintf(FLOG, "malformed mask in %s\n", tok);
					ret = 0;
					goto out;
				}
			}
			bits = atoi(p);
#endif
			if (bits == 0) {
				ret = 1;
				goto out;
			}
			if (bits < 0 || bits > (addrlen << 3)) {
				rprintf(FLOG, "malformed mask in %s\n", tok);
				ret = 0;
				goto out;
			}
		}
	} else {
		bits = 128;
	}

	if (bits >= 0)
		make_mask(mask, bits, addrlen);

	ret = match_binary(a, t, mask, addrlen);

  out:
	freeaddrinfo(resa);
	freeaddrinfo(rest);
	return ret;
}

static int access_match(const char *list, const char *addr, const char **host_ptr)
{
	char *tok;
	char *list2 = strdup(list);

	strlower(list2);

	for (tok = strtok(list2, " ,\t"); tok; tok = strtok(NULL, " ,\t")) {
		if (match_hostname(host_ptr, addr, tok) || match_address(addr, tok)) {
			free(list2);
			return 1;
		}
	}

	free(list2);
	return 0;
}

int allow_access(const char *addr, const char **host_ptr, int i)
{
	const char *allow_list = lp_hosts_allow(i);
	const char *deny_list = lp_hosts_deny(i);

	if (allow_list && !*allow_list)
		allow_list = NULL;
	if (deny_list && !*deny_list)
		deny_list = NULL;

	allow_forward_dns = lp_forward_lookup(i);

	/* If we match an allow-list item, we always allow access. */
	if (allow_list) {
		if (access_match(allow_list, addr, host_ptr))
			return 1;
		/* For an allow-list w/o a deny-list, disallow non-matches. */
		if (!deny_list)
			return 0;
	}

	/* If we match a deny-list item (and got past any allow-list
	 * items), we always disallow access. */
	if (deny_list && access_match(deny_list, addr, host_ptr))
		return 0;

	/* Allow all other access. */
	return 1;
}
