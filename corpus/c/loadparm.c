/*
 * This program is free software; you can redistribute it and/or modify
 * it under the terms of the GNU General Public License as published by
 * the Free Software Foundation; either version 3 of the License, or
 * (at your option) any later version.
 *
 * This program is distributed in the hope that it will be useful,
 * but WITHOUT ANY WARRANTY; without even the implied warranty of
 * MERCHANTABILITY or FITNESS FOR A PARTICULAR PURPOSE.  See the
 * GNU General Public License for more details.
 *
 * You should have received a copy of the GNU General Public License along
 * with this program; if not, visit the http://fsf.org website.
 *
 * This is based on loadparm.c from Samba, written by Andrew Tridgell
 * and Karl Auer.  Some of the changes are:
 *
 * Copyright (C) 2001, 2002 Martin Pool <mbp@samba.org>
 * Copyright (C) 2003-2020 Wayne Davison
 */

/* Load parameters.
 *
 *  This module provides suitable callback functions for the params
 *  module. It builds the internal table of section details which is
 *  then used by the rest of the server.
 *
 * To add a parameter:
 *
 * 1) add it to the global_vars or local_vars structure definition
 * 2) add it to the parm_table
 * 3) add it to the list of available functions (eg: using FN_GLOBAL_STRING())
 * 4) initialise it in the Defaults static structure
 *
 * Notes:
 *   The configuration file is processed sequentially for speed. For this
 *   reason, there is a fair bit of sequence-dependent code here - ie., code
 *   which assumes that certain things happen before others. In particular, the
 *   code which happens at the boundary between sections is delicately poised,
 *   so be careful!
 */

#include "rsync.h"
#include "itypes.h"
#include "ifuncs.h"
#include "default-dont-compress.h"

extern item_list dparam_list;

#define strequal(a, b) (strcasecmp(a, b)==0)

#ifndef LOG_DAEMON
#define LOG_DAEMON 0
#endif

/* the following are used by loadparm for option lists */
typedef enum {
	P_BOOL, P_BOOLREV, P_BOOL3, P_CHAR, P_INTEGER,
	P_OCTAL, P_PATH, P_STRING, P_ENUM
} parm_type;

typedef enum {
	P_LOCAL, P_GLOBAL, P_NONE
} parm_class;

struct enum_list {
	int value;
	char *name;
};

struct parm_struct {
	char *label;
	parm_type type;
	parm_class class;
	void *ptr;
	struct enum_list *enum_list;
	unsigned flags;
};

#ifndef GLOBAL_NAME
#define GLOBAL_NAME "global"
#endif

/* some helpful bits */
#define iSECTION(i) ((local_vars*)section_list.items)[i]
#define LP_SNUM_OK(i) ((i) >= 0 && (i) < (int)section_list.count)
#define SECTION_PTR(s, p) (((char*)(s)) + (ptrdiff_t)(((char*)(p))-(char*)&Vars.l))

/* Stack of "Vars" values used by the &include directive. */
static item_list Vars_stack = EMPTY_ITEM_LIST;

/* The array of section values that holds all the defined modules. */
static item_list section_list = EMPTY_ITEM_LIST;

static int iSectionIndex = -1;
static BOOL bInGlobalSection = True;

static struct enum_list enum_syslog_facility[] = {
#ifdef LOG_AUTH
	{ LOG_AUTH, "auth" },
#endif
#ifdef LOG_AUTHPRIV
	{ LOG_AUTHPRIV, "authpriv" },
#endif
#ifdef LOG_CRON
	{ LOG_CRON, "cron" },
#endif
#ifdef LOG_DAEMON
	{ LOG_DAEMON, "daemon" },
#endif
#ifdef LOG_FTP
	{ LOG_FTP, "ftp" },
#endif
#ifdef LOG_KERN
	{ LOG_KERN, "kern" },
#endif
#ifdef LOG_LPR
	{ LOG_LPR, "lpr" },
#endif
#ifdef LOG_MAIL
	{ LOG_MAIL, "mail" },
#endif
#ifdef LOG_NEWS
	{ LOG_NEWS, "news" },
#endif
#ifdef LOG_AUTH
	{ LOG_AUTH, "security" },
#endif
#ifdef LOG_SYSLOG
	{ LOG_SYSLOG, "syslog" },
#endif
#ifdef LOG_USER
	{ LOG_USER, "user" },
#endif
#ifdef LOG_UUCP
	{ LOG_UUCP, "uucp" },
#endif
#ifdef LOG_LOCAL0
	{ LOG_LOCAL0, "local0" },
#endif
#ifdef LOG_LOCAL1
	{ LOG_LOCAL1, "local1" },
#endif
#ifdef LOG_LOCAL2
	{ LOG_LOCAL2, "local2" },
#endif
#ifdef LOG_LOCAL3
	{ LOG_LOCAL3, "local3" },
#endif
#ifdef LOG_LOCAL4
	{ LOG_LOCAL4, "local4" },
#endif
#ifdef LOG_LOCAL5
	{ LOG_LOCAL5, "local5" },
#endif
#ifdef LOG_LOCAL6
	{ LOG_LOCAL6, "local6" },
#endif
#ifdef LOG_LOCAL7
	{ LOG_LOCAL7, "local7" },
#endif
	{ -1, NULL }
};

/* Expand %VAR% references.  Any unknown vars or unrecognized
 * syntax leaves the raw chars unchanged. */
static char *expand_vars(const char *str)
{
	char *buf, *t;
	const char *f;
	int bufsize;

	if (!str || !strchr(str, '%'))
		return (char *)str; /* TODO change return value to const char* at some point. */

	bufsize = strlen(str) + 2048;
	buf = new_array(char, bufsize+1); /* +1 for trailing '\0' */

	for (t = buf, f = str; bufsize && *f; ) {
		if (*f == '%' && isUpper(f+1)) {
			char *percent = strchr(f+1, '%');
			if (percent && percent - f < bufsize) {
				char *val;
				strlcpy(t, f+1, percent - f);
				val = getenv(t);
				if (val) {
					int len = strlcpy(t, val, bufsize+1);
					if (len > bufsize)
						break;
					bufsize -= len;
					t += len;
					f = percent + 1;
					continue;
				}
			}
		}
		*t++ = *f++;
		bufsize--;
	}
	*t = '\0';

	if (*f) {
		rprintf(FLOG, "Overflowed buf in expand_vars() trying to expand: %s\n", str);
		exit_cleanup(RERR_MALLOC);
	}

	if (bufsize && (buf = realloc(buf, t - buf + 1)) == NULL)
		out_of_memory("expand_vars");

	return buf;
}

/* Each "char* foo" has an associated "BOOL foo_EXP" that tracks if the string has been expanded yet or not. */

/* NOTE: use this function and all the FN_{GLOBAL,LOCAL} ones WITHOUT a trailing semicolon! */
#define RETURN_EXPANDED(val) {if (!val ## _EXP) {val = expand_vars(val); val ## _EXP = True;} return val ? val : "";}

/* In this section all the functions that are used to access the
 * parameters from the rest of the program are defined. */

#define FN_GLOBAL_STRING(fn_name, val) \
 char *fn_name(void) RETURN_EXPANDED(Vars.g.val)
#define FN_GLOBAL_BOOL(fn_name, val) \
 BOOL fn_name(void) {return Vars.g.val;}
#define FN_GLOBAL_CHAR(fn_name, val) \
 char fn_name(void) {return Vars.g.val;}
#define FN_GLOBAL_INTEGER(fn_name, val) \
 int fn_name(void) {return Vars.g.val;}

#define FN_LOCAL_STRING(fn_name, val) \
 char *fn_name(int i) {if (LP_SNUM_OK(i) && iSECTION(i).val) RETURN_EXPANDED(iSECTION(i).val) else RETURN_EXPANDED(Vars.l.val)}
#define FN_LOCAL_BOOL(fn_name, val) \
 BOOL fn_name(int i) {return LP_SNUM_OK(i)? iSECTION(i).val : Vars.l.val;}
#define FN_LOCAL_CHAR(fn_name, val) \
 char fn_name(int i) {return LP_SNUM_OK(i)? iSECTION(i).val : Vars.l.val;}
#define FN_LOCAL_INTEGER(fn_name, val) \
 int fn_name(int i) {return LP_SNUM_OK(i)? iSECTION(i).val : Vars.l.val;}

/* The following include file contains:
 *
 * typedef global_vars - describes global (ie., server-wide) parameters.
 * typedef local_vars - describes a single section.
 * typedef all_vars - a combination of global_vars & local_vars.
 * all_vars Defaults - the default values for all the variables.
 * all_vars Vars - the currently configured values for all the variables.
 * struct parm_struct parm_table - the strings & variables for the parser.
 * FN_{LOCAL,GLOBAL}_{TYPE}() definition for all the lp_var_name() accessors.
 */

#include "daemon-parm.h"

/* Initialise the Default all_vars structure. */
void reset_daemon_vars(void)
{
	memcpy(&Vars, &Defaults, sizeof Vars);
}

/* Assign a copy of v to *s.  Handles NULL strings.  We don't worry
 * about overwriting a malloc'd string because the long-running
 * (port-listening) daemon only loads the config file once, and the
 * per-job (forked or xinitd-ran) daemon only re-reads the file at
 * the start, so any lost memory is inconsequential. */
static inline void string_set(char **s, const char *v)
{
	*s = v ? strdup(v) : NULL;
}

/* Copy local_vars into a new section. No need to strdup since we don't free. */
static void copy_section(local_vars *psectionDest, local_vars *psectionSource)
{
	memcpy(psectionDest, psectionSource, sizeof psectionDest[0]);
}

/* Initialise a section to the defaults. */
static void init_section(local_vars *psection)
{
	memset(psection, 0, sizeof (local_vars));
	copy_section(psection, &Vars.l);
}

/* Do a case-insensitive, whitespace-ignoring string equality check. */
static int strwiEQ(char *psz1, char *psz2)
{
	/* If one or both strings are NULL, we return equality right away. */
	if (psz1 == psz2)
		return 1;
	if (psz1 == NULL || psz2 == NULL)
		return 0;

	/* sync the strings on first non-whitespace */
	while (1) {
		while (isSpace(psz1))
			psz1++;
		while (isSpace(psz2))
			psz2++;
		if (*psz1 == '\0' || *psz2 == '\0')
			break;
		if (toUpper(psz1) != toUpper(psz2))
			break;
		psz1++;
		psz2++;
	}
	return *psz1 == *psz2;
}

/* Find a section by name. Otherwise works like get_section. */
static int getsectionbyname(char *name)
{
	int i;

	for (i = section_list.count - 1; i >= 0; i--) {
		if (strwiEQ(iSECTION(i).name, name))
			break;
	}

	return i;
}

/* Add a new section to the sections array w/the default values. */
static int add_a_section(char *name)
{
	int i;
	local_vars *s;

	/* it might already exist */
	if (name) {
		i = getsectionbyname(name);
		if (i >= 0)
			return i;
	}

	i = section_list.count;
	s = EXPAND_ITEM_LIST(&section_list, local_vars, 2);

	init_section(s);
	if (name)
		string_set(&s->name, name);

	return i;
}

/* Map a parameter's string representation to something we can use.
 * Returns False if the parameter string is not recognised, else TRUE. */
static int map_parameter(char *parmname)
{
	int iIndex;

	if (*parmname == '-')
		return -1;

	for (iIndex = 0; parm_table[iIndex].label; iIndex++) {
		if (strwiEQ(parm_table[iIndex].label, parmname))
			return iIndex;
	}

	rprintf(FLOG, "Unknown Parameter encountered: \"%s\"\n", parmname);
	return -1;
}

/* Set a boolean variable from the text value stored in the passed string.
 * Returns True in success, False if the passed string does not correctly
 * represent a boolean. */
static BOOL set_boolean(BOOL *pb, char *parmvalue, int allow_unset)
{
	if (strwiEQ(parmvalue, "yes") || strwiEQ(parmvalue, "true") || strwiEQ(parmvalue, "1"))
		*pb = True;
	else if (strwiEQ(parmvalue, "no") || strwiEQ(parmvalue, "false") || strwiEQ(parmvalue, "0"))
		*pb = False;
	else if (allow_unset && (strwiEQ(parmvalue, "unset") || strwiEQ(parmvalue, "-1")))
		*pb = Unset;
	else {
		rprintf(FLOG, "Badly formed boolean in configuration file: \"%s\".\n", parmvalue);
		return False;
	}
	return True;
}

/* Process a parameter. */
static BOOL do_parameter(char *parmname, char *parmvalue)
{
	int parmnum, i;
	void *parm_ptr; /* where we are going to store the result */
	void *def_ptr;
	char *cp;

	parmnum = map_parameter(parmname);

	if (parmnum < 0) {
		rprintf(FLOG, "IGNORING unknown parameter \"%s\"\n", parmname);
		return True;
	}

	def_ptr = parm_table[parmnum].ptr;

	if (bInGlobalSection)
		parm_ptr = def_ptr;
	else {
		if (parm_table[parmnum].class == P_GLOBAL) {
			rprintf(FLOG, "Global parameter %s found in module section!\n", parmname);
			return True;
		}
		parm_ptr = SECTION_PTR(&iSECTION(iSectionIndex), def_ptr);
	}

	/* now switch on the type of variable it is */
	switch (parm_table[parmnum].type) {
	case P_PATH:
	case P_STRING:
		/* delay expansion of %VAR% strings */
		break;
	default:
		/* expand any %VAR% strings now */
		parmvalue = expand_vars(parmvalue);
		break;
	}

	switch (parm_table[parmnum].type) {
	case P_BOOL:
		set_boolean(parm_ptr, parmvalue, False);
		break;

	case P_BOOL3:
		set_boolean(parm_ptr, parmvalue, True);
		break;

	case P_BOOLREV:
		set_boolean(parm_ptr, parmvalue, False);
		*(BOOL *)parm_ptr = ! *(BOOL *)parm_ptr;
		break;

	case P_INTEGER:
		*(int *)parm_ptr = atoi(parmvalue);
		break;

	case P_CHAR:
		*(char *)parm_ptr = *parmvalue;
		break;

	case P_OCTAL:
		sscanf(parmvalue, "%o", (unsigned int *)parm_ptr);
		break;

	case P_PATH:
		string_set(parm_ptr, parmvalue);
		if ((cp = *(char**)parm_ptr) != NULL) {
			int len = strlen(cp);
			while (len > 1 && cp[len-1] == '/') len--;
			cp[len] = '\0';
		}
		break;

	case P_STRING:
		string_set(parm_ptr, parmvalue);
		break;

	case P_ENUM:
		for (i=0; parm_table[parmnum].enum_list[i].name; i++) {
			if (strequal(parmvalue, parm_table[parmnum].enum_list[i].name)) {
				*(int *)parm_ptr = parm_table[parmnum].enum_list[i].value;
				break;
			}
		}
		if (!parm_table[parmnum].enum_list[i].name) {
			if (atoi(parmvalue) > 0)
				*(int *)parm_ptr = atoi(parmvalue);
		}
		break;
	}

	return True;
}

/* Process a new section (rsync module).
 * Returns True on success, False on failure. */
static BOOL do_section(char *sectionname)
{
	BOOL isglobal;

	if (*sectionname == ']') { /* A special push/pop/reset directive from params.c */
		bInGlobalSection = 1;
		if (strcmp(sectionname+1, "push") == 0) {
			all_vars *vp = EXPAND_ITEM_LIST(&Vars_stack, all_vars, 2);
			memcpy(vp, &Vars, sizeof Vars);
		} else if (strcmp(sectionname+1, "pop") == 0
		 || strcmp(sectionname+1, "reset") == 0) {
			all_vars *vp = ((all_vars*)Vars_stack.items) + Vars_stack.count - 1;
			if (!Vars_stack.count)
				return False;
			memcpy(&Vars, vp, sizeof Vars);
			if (sectionname[1] == 'p')
				Vars_stack.count--;
		} else
			return False;
		return True;
	}

	isglobal = strwiEQ(sectionname, GLOBAL_NAME);

	/* At the end of the global section, add any --dparam items. */
	if (bInGlobalSection && !isglobal) {
		if (!section_list.count)
			set_dparams(0);
	}

	/* if we've just struck a global section, note the fact. */
	bInGlobalSection = isglobal;

	/* check for multiple global sections */
	if (bInGlobalSection)
		return True;

#if 0
	/* If we have a current section, tidy it up before moving on. */
	if (iSectionIndex >= 0) {
		/* Add any tidy work as needed ... */
		if (problem)
			return False;
	}
#endif

	if (strchr(sectionname, '/') != NULL) {
		rprintf(FLOG, "Warning: invalid section name in configuration file: %s\n", sectionname);
		return False;
	}

	if ((iSectionIndex = add_a_section(sectionname)) < 0) {
		rprintf(FLOG, "Failed to add a new module\n");
		bInGlobalSection = True;
		return False;
	}

	return True;
}

/* Load the modules from the config file. Return True on success,
 * False on failure. */
int lp_load(char *pszFname, int globals_only)
{
	bInGlobalSection = True;

	reset_daemon_vars();

	/* We get sections first, so have to start 'behind' to make up. */
	iSectionIndex = -1;
	return pm_process(pszFname, globals_only ? NULL : do_section, do_parameter);
}

BOOL set_dparams(int syntax_check_only)
{
	char *equal, *val, **params = dparam_list.items;
	unsigned j;

	for (j = 0; j < dparam_list.count; j++) {
		equal = strchr(params[j], '='); /* options.c verified this */
		*equal = '\0';
		if (syntax_check_only) {
			if (map_parameter(params[j]) < 0) {
				rprintf(FERROR, "Unknown parameter \"%s\"\n", params[j]);
				*equal = '=';
				return False;
			}
		} else {
			for (val = equal+1; isSpace(val); val++) {}
			do_parameter(params[j], val);
		}
		*equal = '=';
	}

	return True;
}

/* Return the max number of modules (sections). */
int lp_num_modules(void)
{
	return section_list.count;
}

/* Return the number of the module with the given name, or -1 if it doesn't
 * exist. Note that this is a DIFFERENT ANIMAL from the internal function
 * getsectionbyname()! This works ONLY if all sections have been loaded,
 * and does not copy the found section. */
int lp_number(char *name)
{
	int i;

	for (i = section_list.count - 1; i >= 0; i--) {
		if (strcmp(lp_name(i), name) == 0)
			break;
	}

	return i;
}
