/*
 * End-of-run cleanup routines.
 *
 * Copyright (C) 1996-2000 Andrew Tridgell
 * Copyright (C) 1996 Paul Mackerras
 * Copyright (C) 2002 Martin Pool
 * Copyright (C) 2003-2020 Wayne Davison
 *
 * This program is free software; you can redistribute it and/or modify
 * it under the terms of the GNU General Public License as published by
 * the Free Software Foundation; either version 3 of the License, or
 * (at your option) any later version.
 *
 * This program is distributed in the hope that it will be useful,
 * but WITHOUT ANY WARRANTY; without even the implied warranty of
 * MERCHANTABILITY or FITNESS FOR A PARTICULAR PURPOSE.  See the
 * GNU General Public License for more details.
 *
 * You should have received a copy of the GNU General Public License along
 * with this program; if not, visit the http://fsf.org website.
 */

#include "rsync.h"

extern int dry_run;
extern int am_server;
extern int am_daemon;
extern int am_receiver;
extern int am_sender;
extern int io_error;
extern int keep_partial;
extern int got_xfer_error;
extern int protocol_version;
extern int output_needs_newline;
extern char *partial_dir;
extern char *logfile_name;

int called_from_signal_handler = 0;
BOOL shutting_down = False;
BOOL flush_ok_after_signal = False;

#ifdef HAVE_SIGACTION
static struct sigaction sigact;
#endif

/**
 * Close all open sockets and files, allowing a (somewhat) graceful
 * shutdown() of socket connections.  This eliminates the abortive
 * TCP RST sent by a Winsock-based system when the close() occurs.
 **/
void close_all(void)
{
#ifdef SHUTDOWN_ALL_SOCKETS
	int max_fd;
	int fd;
	int ret;
	STRUCT_STAT st;

	max_fd = sysconf(_SC_OPEN_MAX) - 1;
	for (fd = max_fd; fd >= 0; fd--) {
		if ((ret = do_fstat(fd, &st)) == 0) {
			if (is_a_socket(fd))
				ret = shutdown(fd, 2);
			ret = close(fd);
		}
	}
#endif
}

/**
 * @file cleanup.c
 *
 * Code for handling interrupted transfers.  Depending on the @c
 * --partial option, we may either delete the temporary file, or go
 * ahead and overwrite the destination.  This second behaviour only
 * occurs if we've sent literal data and therefore hopefully made
 * progress on the transfer.
 **/

/**
 * Set to True once literal data has been sent across the link for the
 * current file. (????)
 *
 * Handling the cleanup when a transfer is interrupted is tricky when
 * --partial is selected.  We need to ensure that the partial file is
 * kept if any real data has been transferred.
 **/
int cleanup_got_literal = 0;

static const char *cleanup_fname;
static const char *cleanup_new_fname;
static struct file_struct *cleanup_file;
static int cleanup_fd_r = -1, cleanup_fd_w = -1;
static pid_t cleanup_pid = 0;

pid_t cleanup_child_pid = -1;

/**
 * Eventually calls exit(), passing @p code, therefore does not return.
 *
 * @param code one of the RERR_* codes from errcode.h.
 **/
NORETURN void _exit_cleanup(int code, const char *file, int line)
{
	static int switch_step = 0;
	static int exit_code = 0, exit_line = 0;
	static const char *exit_file = NULL;
	static int first_code = 0;

	SIGACTION(SIGUSR1, SIG_IGN);
	SIGACTION(SIGUSR2, SIG_IGN);

	if (!exit_code) { /* Preserve first error exit info when recursing. */
		exit_code = code;
		exit_file = file;
		exit_line = line < 0 ? -line : line;
	}

	/* If this is the exit at the end of the run, the server side
	 * should not attempt to output a message (see log_exit()). */
	if (am_server && code == 0)
		am_server = 2;

	/* Some of our actions might cause a recursive call back here, so we
	 * keep track of where we are in the cleanup and never repeat a step. */
	switch (switch_step) {
#include "case_N.h" /* case 0: */
		switch_step++;

		first_code = code;

		if (output_needs_newline) {
			fputc('\n', stdout);
			output_needs_newline = 0;
		}

		if (DEBUG_GTE(EXIT, 2)) {
			rprintf(FINFO,
				"[%s] _exit_cleanup(code=%d, file=%s, line=%d): entered\n",
				who_am_i(), code, src_file(file), line);
		}

#include "case_N.h"
		switch_step++;

		if (cleanup_child_pid != -1) {
			int status;
			int pid = wait_process(cleanup_child_pid, &status, WNOHANG);
			if (pid == cleanup_child_pid) {
				status = WEXITSTATUS(status);
				if (status > exit_code)
					exit_code = status;
			}
		}

#include "case_N.h"
		switch_step++;

		if (cleanup_got_literal && (cleanup_fname || cleanup_fd_w != -1)) {
			if (cleanup_fd_r != -1) {
				close(cleanup_fd_r);
				cleanup_fd_r = -1;
			}
			if (cleanup_fd_w != -1) {
				flush_write_file(cleanup_fd_w);
				close(cleanup_fd_w);
				cleanup_fd_w = -1;
			}
			if (cleanup_fname && cleanup_new_fname && keep_partial
			 && handle_partial_dir(cleanup_new_fname, PDIR_CREATE)) {
				int tweak_modtime = 0;
				const char *fname = cleanup_fname;
				cleanup_fname = NULL;
				if (!partial_dir) {
					/* We don't want to leave a partial file with a modern time or it
					 * could be skipped via --update.  Setting the time to something
					 * really old also helps it to stand out as unfinished in an ls. */
					tweak_modtime = 1;
					cleanup_file->modtime = 0;
				}
				finish_transfer(cleanup_new_fname, fname, NULL, NULL,
						cleanup_file, tweak_modtime, !partial_dir);
			}
		}

#include "case_N.h"
		switch_step++;

		if (flush_ok_after_signal) {
			flush_ok_after_signal = False;
			if (code == RERR_SIGNAL)
				io_flush(FULL_FLUSH);
		}
		if (!exit_code && !code)
			io_flush(FULL_FLUSH);

#include "case_N.h"
		switch_step++;

		if (cleanup_fname)
			do_unlink(cleanup_fname);
		if (exit_code)
			kill_all(SIGUSR1);
		if (cleanup_pid && cleanup_pid == getpid()) {
			char *pidf = lp_pid_file();
			if (pidf && *pidf)
				unlink(lp_pid_file());
		}

		if (exit_code == 0) {
			if (code)
				exit_code = code;
			if (io_error & IOERR_DEL_LIMIT)
				exit_code = RERR_DEL_LIMIT;
			if (io_error & IOERR_VANISHED)
				exit_code = RERR_VANISHED;
			if (io_error & IOERR_GENERAL || got_xfer_error)
				exit_code = RERR_PARTIAL;
		}

		/* If line < 0, this exit is after a MSG_ERROR_EXIT event, so
		 * we don't want to output a duplicate error. */
		if ((exit_code && line > 0)
		 || am_daemon || (logfile_name && (am_server || !INFO_GTE(STATS, 1)))) {
			log_exit(exit_code, exit_file, exit_line);
		}

#include "case_N.h"
		switch_step++;

		if (DEBUG_GTE(EXIT, 1)) {
			rprintf(FINFO,
				"[%s] _exit_cleanup(code=%d, file=%s, line=%d): "
				"about to call exit(%d)%s\n",
				who_am_i(), first_code, exit_file, exit_line, exit_code,
				dry_run ? " (DRY RUN)" : "");
		}

#include "case_N.h"
		switch_step++;

		if (exit_code && exit_code != RERR_SOCKETIO && exit_code != RERR_STREAMIO && exit_code != RERR_SIGNAL1
		 && exit_code != RERR_TIMEOUT && !shutting_down) {
			if (protocol_version >= 31 || am_receiver) {
				if (line > 0) {
					if (DEBUG_GTE(EXIT, 3)) {
						rprintf(FINFO, "[%s] sending MSG_ERROR_EXIT with exit_code %d\n",
							who_am_i(), exit_code);
					}
					send_msg_int(MSG_ERROR_EXIT, exit_code);
				}
				if (!am_sender)
					io_flush(MSG_FLUSH); /* Be sure to send all messages */
				noop_io_until_death();
			}
			else if (!am_sender)
				io_flush(MSG_FLUSH); /* Be sure to send all messages */
		}

#include "case_N.h"
		switch_step++;

		if (am_server && exit_code)
			msleep(100);
		close_all();

		/* FALLTHROUGH */
	default:
		break;
	}

	if (called_from_signal_handler)
		_exit(exit_code);
	exit(exit_code);
}

void cleanup_disable(void)
{
	cleanup_fname = cleanup_new_fname = NULL;
	cleanup_fd_r = cleanup_fd_w = -1;
	cleanup_got_literal = 0;
}


void cleanup_set(const char *fnametmp, const char *fname, struct file_struct *file,
		 int fd_r, int fd_w)
{
	cleanup_fname = fnametmp;
	cleanup_new_fname = fname; /* can be NULL on a partial-dir failure */
	cleanup_file = file;
	cleanup_fd_r = fd_r;
	cleanup_fd_w = fd_w;
}

void cleanup_set_pid(pid_t pid)
{
	cleanup_pid = pid;
}
