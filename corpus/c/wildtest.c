/*
 * Test suite for the wildmatch code.
 *
 * Copyright (C) 2003-2019 Wayne Davison
 *
 * This program is free software; you can redistribute it and/or modify
 * it under the terms of the GNU General Public License as published by
 * the Free Software Foundation; either version 3 of the License, or
 * (at your option) any later version.
 *
 * This program is distributed in the hope that it will be useful,
 * but WITHOUT ANY WARRANTY; without even the implied warranty of
 * MERCHANTABILITY or FITNESS FOR A PARTICULAR PURPOSE.  See the
 * GNU General Public License for more details.
 *
 * You should have received a copy of the GNU General Public License along
 * with this program; if not, visit the http://fsf.org website.
 */

/*#define COMPARE_WITH_FNMATCH*/

#define WILD_TEST_ITERATIONS
#include "lib/wildmatch.c"

#include <popt.h>

#ifdef COMPARE_WITH_FNMATCH
#include <fnmatch.h>

int fnmatch_errors = 0;
#endif

int wildmatch_errors = 0;

typedef char bool;

int output_iterations = 0;
int explode_mod = 0;
int empties_mod = 0;
int empty_at_start = 0;
int empty_at_end = 0;

static struct poptOption long_options[] = {
  /* longName, shortName, argInfo, argPtr, value, descrip, argDesc */
  {"iterations",     'i', POPT_ARG_NONE,   &output_iterations, 0, 0, 0},
  {"empties",        'e', POPT_ARG_STRING, 0, 'e', 0, 0},
  {"explode",        'x', POPT_ARG_INT,    &explode_mod, 0, 0, 0},
  {0,0,0,0, 0, 0, 0}
};

/* match just at the start of string (anchored tests) */
static void
run_test(int line, bool matches,
#ifdef COMPARE_WITH_FNMATCH
	 bool same_as_fnmatch,
#endif
	 const char *text, const char *pattern)
{
    bool matched;
#ifdef COMPARE_WITH_FNMATCH
    bool fn_matched;
    int flags = strstr(pattern, "**")? 0 : FNM_PATHNAME;
#endif

    if (explode_mod) {
	char buf[MAXPATHLEN*2], *texts[MAXPATHLEN];
	int pos = 0, cnt = 0, ndx = 0, len = strlen(text);

	if (empty_at_start)
	    texts[ndx++] = "";
	/* An empty string must turn into at least one empty array item. */
	while (1) {
	    texts[ndx] = buf + ndx * (explode_mod + 1);
	    strlcpy(texts[ndx++], text + pos, explode_mod + 1);
	    if (pos + explode_mod >= len)
		break;
	    pos += explode_mod;
	    if (!(++cnt % empties_mod))
		texts[ndx++] = "";
	}
	if (empty_at_end)
	    texts[ndx++] = "";
	texts[ndx] = NULL;
	matched = wildmatch_array(pattern, (const char**)texts, 0);
    } else
	matched = wildmatch(pattern, text);
#ifdef COMPARE_WITH_FNMATCH
    fn_matched = !fnmatch(pattern, text, flags);
#endif
    if (matched != matches) {
	printf("wildmatch failure on line %d:\n  %s\n  %s\n  expected %s match\n",
	       line, text, pattern, matches? "a" : "NO");
	wildmatch_errors++;
    }
#ifdef COMPARE_WITH_FNMATCH
    if (fn_matched != (matches ^ !same_as_fnmatch)) {
	printf("fnmatch disagreement on line %d:\n  %s\n  %s\n  expected %s match\n",
	       line, text, pattern, matches ^ !same_as_fnmatch? "a" : "NO");
	fnmatch_errors++;
    }
#endif
    if (output_iterations) {
	printf("%d: \"%s\" iterations = %d\n", line, pattern,
	       wildmatch_iteration_count);
    }
}

int
main(int argc, char **argv)
{
    char buf[2048], *s, *string[2], *end[2];
    const char *arg;
    FILE *fp;
    int opt, line, i, flag[2];
    poptContext pc = poptGetContext("wildtest", argc, (const char**)argv,
				    long_options, 0);

    while ((opt = poptGetNextOpt(pc)) != -1) {
	switch (opt) {
	  case 'e':
	    arg = poptGetOptArg(pc);
	    empties_mod = atoi(arg);
	    if (strchr(arg, 's'))
		empty_at_start = 1;
	    if (strchr(arg, 'e'))
		empty_at_end = 1;
	    if (!explode_mod)
		explode_mod = 1024;
	    break;
	  default:
	    fprintf(stderr, "%s: %s\n",
		    poptBadOption(pc, POPT_BADOPTION_NOALIAS),
		    poptStrerror(opt));
	    exit(1);
	}
    }

    if (explode_mod && !empties_mod)
	empties_mod = 1024;

    argv = (char**)poptGetArgs(pc);
    if (!argv || argv[1]) {
	fprintf(stderr, "Usage: wildtest [OPTIONS] TESTFILE\n");
	exit(1);
    }

    if ((fp = fopen(*argv, "r")) == NULL) {
	fprintf(stderr, "Unable to open %s\n", *argv);
	exit(1);
    }

    line = 0;
    while (fgets(buf, sizeof buf, fp)) {
	line++;
	if (*buf == '#' || *buf == '\n')
	    continue;
	for (s = buf, i = 0; i <= 1; i++) {
	    if (*s == '1')
		flag[i] = 1;
	    else if (*s == '0')
		flag[i] = 0;
	    else
		flag[i] = -1;
	    if (*++s != ' ' && *s != '\t')
		flag[i] = -1;
	    if (flag[i] < 0) {
		fprintf(stderr, "Invalid flag syntax on line %d of %s:\n%s",
			line, *argv, buf);
		exit(1);
	    }
	    while (*++s == ' ' || *s == '\t') {}
	}
	for (i = 0; i <= 1; i++) {
	    if (*s == '\'' || *s == '"' || *s == '`') {
		char quote = *s++;
		string[i] = s;
		while (*s && *s != quote) s++;
		if (!*s) {
		    fprintf(stderr, "Unmatched quote on line %d of %s:\n%s",
			    line, *argv, buf);
		    exit(1);
		}
		end[i] = s;
	    }
	    else {
		if (!*s || *s == '\n') {
		    fprintf(stderr, "Not enough strings on line %d of %s:\n%s",
			    line, *argv, buf);
		    exit(1);
		}
		string[i] = s;
		while (*++s && *s != ' ' && *s != '\t' && *s != '\n') {}
		end[i] = s;
	    }
	    while (*++s == ' ' || *s == '\t') {}
	}
	*end[0] = *end[1] = '\0';
	run_test(line, flag[0],
#ifdef COMPARE_WITH_FNMATCH
		 flag[1],
#endif
		 string[0], string[1]);
    }

    if (!wildmatch_errors)
	fputs("No", stdout);
    else
	printf("%d", wildmatch_errors);
    printf(" wildmatch error%s found.\n", wildmatch_errors == 1? "" : "s");

#ifdef COMPARE_WITH_FNMATCH
    if (!fnmatch_errors)
	fputs("No", stdout);
    else
	printf("%d", fnmatch_errors);
    printf(" fnmatch error%s found.\n", fnmatch_errors == 1? "" : "s");

#endif

    return 0;
}
