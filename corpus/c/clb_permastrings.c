/*-----------------------------------------------------------------------

  File  : clb_permastrings.h

  Author: Stephan Schulz (schulz@eprover.org)

  Contents

  A simple registry maintaining permanent copies of strings until the
  registry is explicitly cleared.

  Copyright 2023 by the authors.
  This code is released under the GNU General Public Licence.
  See the file COPYING in the main CLIB directory for details.
  Run "eprover -h" for contact information.

  Created: Fri Nov 24 15:01:19 CET 2023

  -----------------------------------------------------------------------*/

#include "clb_permastrings.h"



/*---------------------------------------------------------------------*/
/*                        Global Variables                             */
/*---------------------------------------------------------------------*/

static StrTree_p perma_anchor = NULL;


/*---------------------------------------------------------------------*/
/*                      Forward Declarations                           */
/*---------------------------------------------------------------------*/


/*---------------------------------------------------------------------*/
/*                         Internal Functions                          */
/*---------------------------------------------------------------------*/



/*---------------------------------------------------------------------*/
/*                         Exported Functions                          */
/*---------------------------------------------------------------------*/

/*-----------------------------------------------------------------------
//
// Function: PermaString()
//
//   Register a string. Will return a pointer to a permanent (possibly
//   shared) copy of the string that is valid until PermaStringsFree()
//   is called.
//
// Global Variables: perma_anchor
//
// Side Effects    : Memory operations, reorganises stored tree.
//
/----------------------------------------------------------------------*/

char* PermaString(char* str)
{
   StrTree_p handle, old;
   char *res;

   if(!str)
   {
      return NULL;
   }
   handle = StrTreeCellAlloc();
   handle->key = SecureStrdup(str);
   assert(handle->key != str);
   handle->val1.i_val = 0;
   handle->val2.i_val = 0;

   old = StrTreeInsert(&perma_anchor, handle);

      if(!old)
   {
      res = handle->key;
      assert(res!=str);
   }
   else
   {
      FREE(handle->key);
      StrTreeCellFree(handle);
      res = old->key;
      assert(res!=str);
   }
   return res;
}


/*-----------------------------------------------------------------------
//
// Function: PermaStringStore()
//
//   As PermaString, but will FREE the original.
//
// Global Variables: perma_anchor
//
// Side Effects    : Memory operations, reorganises stored tree.
//
/----------------------------------------------------------------------*/

char* PermaStringStore(char* str)
{
   if(!str)
   {
      return str;
   }
   char* res = PermaString(str);
   FREE(str);

   return res;
}


/*-----------------------------------------------------------------------
//
// Function: PermaStringsFree()
//
//   Free all permastrings (and their admin data structure).
//
// Global Variables: perma_anchor
//
// Side Effects    : Memory operations
//
/----------------------------------------------------------------------*/

void  PermaStringsFree(void)
{
   StrTreeFree(perma_anchor);
   perma_anchor = NULL;
}


/*---------------------------------------------------------------------*/
/*                        End of File                                  */
/*---------------------------------------------------------------------*/
