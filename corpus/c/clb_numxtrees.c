/*-----------------------------------------------------------------------

File  : clb_numxtrees.c

Author: Stephan Schulz

Contents

  Functions for long-indexed splay trees with fixed-sized array of
  values.

Copyright 1998-2011 by the author.
  This code is released under the GNU General Public Licence and
  the GNU Lesser General Public License.
  See the file COPYING in the main E directory for details..
  Run "eprover -h" for contact information.

Changes (vastly incomplete, see CVS log)

<1> Mon Aug  1 11:03:32 CEST 2011
    New from clb_numtree.h

-----------------------------------------------------------------------*/

#include "clb_numxtrees.h"



/*---------------------------------------------------------------------*/
/*                        Global Variables                             */
/*---------------------------------------------------------------------*/


/*---------------------------------------------------------------------*/
/*                      Forward Declarations                           */
/*---------------------------------------------------------------------*/


/*---------------------------------------------------------------------*/
/*                         Internal Functions                          */
/*---------------------------------------------------------------------*/

/*-----------------------------------------------------------------------
//
// Function: splay_tree()
//
//   Perform the splay operation on tree at node with key.
//
// Global Variables: -
//
// Side Effects    : Changes tree
//
/----------------------------------------------------------------------*/

static NumXTree_p splay_tree(NumXTree_p tree, long key)
{
   NumXTree_p   left, right, tmp;
   NumXTreeCell newnode;

   if (!tree)
   {
      return tree;
   }

   newnode.lson = NULL;
   newnode.rson = NULL;
   left = &newnode;
   right = &newnode;

   for (;;)
   {
      long cmpres = key-tree->key;
      if (cmpres < 0)
      {
         if(!tree->lson)
         {
            break;
         }
         if((key- tree->lson->key) < 0)
         {
            tmp = tree->lson;
            tree->lson = tmp->rson;
            tmp->rson = tree;
            tree = tmp;
            if (!tree->lson)
            {
               break;
            }
         }
         right->lson = tree;
         right = tree;
         tree = tree->lson;
      }
      else if(cmpres > 0)
      {
         if (!tree->rson)
         {
            break;
         }
         if((key-tree->rson->key) > 0)
         {
            tmp = tree->rson;
            tree->rson = tmp->lson;
            tmp->lson = tree;
            tree = tmp;
            if (!tree->rson)
            {
               break;
            }
         }
         left->rson = tree;
         left = tree;
         tree = tree->rson;
      }
      else
      {
         break;
      }
   }
   left->rson = tree->lson;
   right->lson = tree->rson;
   tree->lson = newnode.rson;
   tree->rson = newnode.lson;

   return tree;
}





/*---------------------------------------------------------------------*/
/*                         Exported Functions                          */
/*---------------------------------------------------------------------*/

/*-----------------------------------------------------------------------
//
// Function: NumXTreeCellAllocEmpty()
//
//   Allocate a empty, initialized NumXTreeCell. Pointers to children
//   are NULL, int values are 0 (and pointer values in ANSI-World
//   undefined, in practice NULL on 32 bit machines)(This comment is
//   superfluous!). The balance field is (correctly) set to 0.
//
// Global Variables: -
//
// Side Effects    : Memory operations
//
/----------------------------------------------------------------------*/

NumXTree_p NumXTreeCellAllocEmpty(void)
{
   NumXTree_p handle = NumXTreeCellAlloc();
   int i;

   for(i=0; i<NUMXTREEVALUES; i++)
   {
      handle->vals[i].i_val = 0;
   }
   handle->lson = handle->rson       = NULL;

   return handle;
}

/*-----------------------------------------------------------------------
//
// Function: NumXTreeFree()
//
//   Free a numtree (including the keys, but not potential objects
//   pointed to in the val fields
//
// Global Variables: -
//
// Side Effects    : Memory operations
//
/----------------------------------------------------------------------*/

void NumXTreeFree(NumXTree_p junk)
{
   if(junk)
   {
      PStack_p stack = PStackAlloc();

      PStackPushP(stack, junk);

      while(!PStackEmpty(stack))
      {
         junk = PStackPopP(stack);
         if(junk->lson)
         {
            PStackPushP(stack, junk->lson);
         }
         if(junk->rson)
         {
            PStackPushP(stack, junk->rson);
         }
         NumXTreeCellFree(junk);
      }
      PStackFree(stack);
   }
}


/*-----------------------------------------------------------------------
//
// Function: NumXTreeInsert()
//
//   If an entry with key *newnode->key exists in the tree return a
//   pointer to it. Otherwise insert *newnode in the tree and return
//   NULL.
//
// Global Variables: -
//
// Side Effects    : Changes the tree
//
/----------------------------------------------------------------------*/

NumXTree_p NumXTreeInsert(NumXTree_p *root, NumXTree_p newnode)
{
   if (!*root)
   {
      newnode->lson = newnode->rson = NULL;
      *root = newnode;
      return NULL;
   }
   *root = splay_tree(*root, newnode->key);

   long cmpres = newnode->key-(*root)->key;

   if (cmpres < 0)
   {
      newnode->lson = (*root)->lson;
      newnode->rson = *root;
      (*root)->lson = NULL;
      *root = newnode;
      return NULL;
   }
   else if(cmpres > 0)
   {
      newnode->rson = (*root)->rson;
      newnode->lson = *root;
      (*root)->rson = NULL;
      *root = newnode;
      return NULL;
   }
   return *root;
}


/*-----------------------------------------------------------------------
//
// Function: NumXTreeStore()
//
//   Insert a cell associating key with val1 and val2 into the
//   tree. Return false if an entry for this key exists, true
//   otherwise. Values beyond the second are zero.
//
// Global Variables: -
//
// Side Effects    : Changes tree
//
/----------------------------------------------------------------------*/

bool NumXTreeStore(NumXTree_p *root, long key, IntOrP val1, IntOrP val2)
{
   NumXTree_p handle, newnode;

   handle = NumXTreeCellAlloc();
   handle->key = key;
   handle->vals[0] = val1;
   handle->vals[1] = val2;

   newnode = NumXTreeInsert(root, handle);

   if(newnode)
   {
      NumXTreeCellFree(handle);
      return false;
   }
   return true;
}


/*-----------------------------------------------------------------------
//
// Function: NumXTreeFind()
//
//   Find the entry with key key in the tree and return it. Return
//   NULL if no such key exists.
//
// Global Variables: -
//
// Side Effects    : -
//
/----------------------------------------------------------------------*/

NumXTree_p NumXTreeFind(NumXTree_p *root, long key)
{
   if(*root)
   {
      *root = splay_tree(*root, key);
      if(((*root)->key-key)==0)
      {
         return *root;
      }
   }
   return NULL;
}


/*-----------------------------------------------------------------------
//
// Function: NumXTreeExtractEntry()
//
//   Find the entry with key key, remove it from the tree, rebalance
//   the tree, and return the pointer to the removed element. Return
//   NULL if no matching element exists.
//
// Global Variables: -
//
// Side Effects    : Changes the tree
//
/----------------------------------------------------------------------*/


NumXTree_p NumXTreeExtractEntry(NumXTree_p *root, long key)
{
   NumXTree_p x, cell;

   if (!(*root))
   {
      return NULL;
   }
   *root = splay_tree(*root, key);
   if((key-(*root)->key)==0)
   {
      if (!(*root)->lson)
      {
         x = (*root)->rson;
      }
      else
      {
         x = splay_tree((*root)->lson, key);
         x->rson = (*root)->rson;
      }
      cell = *root;
      cell->lson = cell->rson = NULL;
      *root = x;
      return cell;
   }
   return NULL;
}


/*-----------------------------------------------------------------------
//
// Function: NumXTreeExtractRoot()
//
//   Extract the NumXTreeCell at the root of the tree and return it (or
//   NULL if the tree is empty).
//
// Global Variables:
//
// Side Effects    :
//
/----------------------------------------------------------------------*/

NumXTree_p NumXTreeExtractRoot(NumXTree_p *root)
{
   if(*root)
   {
      return NumXTreeExtractEntry(root, (*root)->key);
   }
   return NULL;
}


/*-----------------------------------------------------------------------
//
// Function: NumXTreeDeleteEntry()
//
//   Delete the entry with key key from the tree.
//
// Global Variables: -
//
// Side Effects    : By NumXTreeExtract(), memory operations
//
/----------------------------------------------------------------------*/

bool NumXTreeDeleteEntry(NumXTree_p *root, long key)
{
   NumXTree_p cell;

   cell = NumXTreeExtractEntry(root, key);
   if(cell)
   {
      NumXTreeFree(cell);
      return true;
   }
   return false;
}


/*-----------------------------------------------------------------------
//
// Function: NumXTreeNodes()
//
//   Return the number of nodes in the tree.
//
// Global Variables: -
//
// Side Effects    : -
//
/----------------------------------------------------------------------*/

long NumXTreeNodes(NumXTree_p root)
{
   PStack_p stack = PStackAlloc();
   long     res   = 0;

   PStackPushP(stack, root);

   while(!PStackEmpty(stack))
   {
      root = PStackPopP(stack);
      if(root)
      {
    PStackPushP(stack, root->lson);
    PStackPushP(stack, root->rson);
    res++;
      }
   }
   PStackFree(stack);

   return res;
}


/*-----------------------------------------------------------------------
//
// Function: NumXTreeMaxNode()
//
//   Return the node with the largest key in the tree (or NULL if tree
//   is empty). Non-destructive/non-reorganizing.
//
// Global Variables: -
//
// Side Effects    : -
//
/----------------------------------------------------------------------*/

NumXTree_p NumXTreeMaxNode(NumXTree_p root)
{
   if(root)
   {
      while(root->rson)
      {
         root = root->rson;
      }
   }
   return root;
}


/*-----------------------------------------------------------------------
//
// Function: NumXTreeLimitedTraverseInit()
//
//   Return a stack containing the path to the smallest element
//   smaller than or equal to limit in the tree.
//
// Global Variables: -
//
// Side Effects    : -
//
/----------------------------------------------------------------------*/

PStack_p NumXTreeLimitedTraverseInit(NumXTree_p root, long limit)
{
   PStack_p stack = PStackAlloc();

   while(root)
   {
      if(root->key<limit)
      {
         root = root->rson;
      }
      else
      {
         PStackPushP(stack, root);
         if(root->key == limit)
         {
            root = NULL;
         }
         else
         {
            root = root->lson;
         }
      }
   }
   return stack;
}




AVL_TRAVERSE_DEFINITION(NumXTree, NumXTree_p)



/*---------------------------------------------------------------------*/
/*                        End of File                                  */
/*---------------------------------------------------------------------*/


