/*-----------------------------------------------------------------------

File  : clb_floattrees.c

Author: Stephan Schulz

Contents

  Functions for long-indexed splay trees.

  Copyright 1998, 1999 by the author.
  This code is released under the GNU General Public Licence and
  the GNU Lesser General Public License.
  See the file COPYING in the main E directory for details..
  Run "eprover -h" for contact information.

Changes

<1> Thu Sep 25 02:36:58 MET DST 1997
    New
<2> Mon Mar  1 17:20:47 MET 1999
    Changed AVL tp splay trees

-----------------------------------------------------------------------*/

#include "clb_floattrees.h"



/*---------------------------------------------------------------------*/
/*                        Global Variables                             */
/*---------------------------------------------------------------------*/


/*---------------------------------------------------------------------*/
/*                      Forward Declarations                           */
/*---------------------------------------------------------------------*/


/*---------------------------------------------------------------------*/
/*                         Internal Functions                          */
/*---------------------------------------------------------------------*/


/*-----------------------------------------------------------------------
//
// Function: splay_tree()
//
//   Perform the splay operation on tree at node with key.
//
// Global Variables: -
//
// Side Effects    : Changes tree
//
/----------------------------------------------------------------------*/

static FloatTree_p splay_tree(FloatTree_p tree, double key)
{
   FloatTree_p   left, right, tmp;
   FloatTreeCell new;

   if (!tree)
   {
      return tree;
   }

   new.lson = NULL;
   new.rson = NULL;
   left = &new;
   right = &new;

   for (;;)
   {
      double cmpres = key-tree->key;
      if (cmpres < 0)
      {
         if(!tree->lson)
         {
            break;
         }
         if((key- tree->lson->key) < 0)
         {
            tmp = tree->lson;
            tree->lson = tmp->rson;
            tmp->rson = tree;
            tree = tmp;
            if (!tree->lson)
            {
               break;
            }
         }
         right->lson = tree;
         right = tree;
         tree = tree->lson;
      }
      else if(cmpres > 0)
      {
         if (!tree->rson)
         {
            break;
         }
         if((key-tree->rson->key) > 0)
         {
            tmp = tree->rson;
            tree->rson = tmp->lson;
            tmp->lson = tree;
            tree = tmp;
            if (!tree->rson)
            {
               break;
            }
         }
         left->rson = tree;
         left = tree;
         tree = tree->rson;
      }
      else
      {
         break;
      }
   }
   left->rson = tree->lson;
   right->lson = tree->rson;
   tree->lson = new.rson;
   tree->rson = new.lson;

   return tree;
}





/*---------------------------------------------------------------------*/
/*                         Exported Functions                          */
/*---------------------------------------------------------------------*/

/*-----------------------------------------------------------------------
//
// Function: FloatTreeCellAllocEmpty()
//
//   Allocate a empty, initialized FloatTreeCell. Pointers to children
//   are NULL, int values are 0 (and pointer values in ANSI-World
//   undefined, in practice NULL on 32 bit machines)(This comment is
//   superfluous!). The balance field is (correctly) set to 0.
//
// Global Variables: -
//
// Side Effects    : Memory operations
//
/----------------------------------------------------------------------*/

FloatTree_p FloatTreeCellAllocEmpty(void)
{
   FloatTree_p handle = FloatTreeCellAlloc();

   handle->val1.i_val = handle->val2.i_val = 0;
   handle->lson       = handle->rson       = NULL;

   return handle;
}

/*-----------------------------------------------------------------------
//
// Function: FloatTreeFree()
//
//   Free a floattree (including the keys, but not potential objects
//   pointed to in the val fields
//
// Global Variables: -
//
// Side Effects    : Memory operations
//
/----------------------------------------------------------------------*/

void FloatTreeFree(FloatTree_p junk)
{
   if(junk)
   {
      PStack_p stack = PStackAlloc();

      PStackPushP(stack, junk);

      while(!PStackEmpty(stack))
      {
         junk = PStackPopP(stack);
         if(junk->lson)
         {
            PStackPushP(stack, junk->lson);
         }
         if(junk->rson)
         {
            PStackPushP(stack, junk->rson);
         }
         FloatTreeCellFree(junk);
      }
      PStackFree(stack);
   }
}


/*-----------------------------------------------------------------------
//
// Function: FloatTreeInsert()
//
//   If an entry with key *new->key exists in the tree return a
//   pointer to it. Otherwise insert *new in the tree and return
//   NULL.
//
// Global Variables: -
//
// Side Effects    : Changes the tree
//
/----------------------------------------------------------------------*/

FloatTree_p FloatTreeInsert(FloatTree_p *root, FloatTree_p new)
{
   if (!*root)
   {
      new->lson = new->rson = NULL;
      *root = new;
      return NULL;
   }
   *root = splay_tree(*root, new->key);

   double cmpres = new->key-(*root)->key;

   if (cmpres < 0)
   {
      new->lson = (*root)->lson;
      new->rson = *root;
      (*root)->lson = NULL;
      *root = new;
      return NULL;
   }
   else if(cmpres > 0)
   {
      new->rson = (*root)->rson;
      new->lson = *root;
      (*root)->rson = NULL;
      *root = new;
      return NULL;
   }
   return *root;
}


/*-----------------------------------------------------------------------
//
// Function: FloatTreeStore()
//
//   Insert a cell associating key with val1 and val2 into the
//   tree. Return false if an entry for this key exists, true
//   otherwise.
//
// Global Variables: -
//
// Side Effects    : Changes tree
//
/----------------------------------------------------------------------*/

bool FloatTreeStore(FloatTree_p *root, double key, IntOrP val1, IntOrP val2)
{
   FloatTree_p handle, new;

   handle = FloatTreeCellAlloc();
   handle->key = key;
   handle->val1 = val1;
   handle->val2 = val2;

   new = FloatTreeInsert(root, handle);

   if(new)
   {
      FloatTreeCellFree(handle);
      return false;
   }
   return true;
}



/*-----------------------------------------------------------------------
//
// Function: FloatTreeFind()
//
//   Find the entry with key key in the tree and return it. Return
//   NULL if no such key exists.
//
// Global Variables: -
//
// Side Effects    : -
//
/----------------------------------------------------------------------*/

FloatTree_p FloatTreeFind(FloatTree_p *root, double key)
{
   if(*root)
   {
      *root = splay_tree(*root, key);
      if((*root)->key==key)
      {
         return *root;
      }
   }
   return NULL;
}


/*-----------------------------------------------------------------------
//
// Function: FloatTreeExtractEntry()
//
//   Find the entry with key key, remove it from the tree, rebalance
//   the tree, and return the pointer to the removed element. Return
//   NULL if no matching element exists.
//
// Global Variables: -
//
// Side Effects    : Changes the tree
//
/----------------------------------------------------------------------*/


FloatTree_p FloatTreeExtractEntry(FloatTree_p *root, double key)
{
   FloatTree_p x, cell;

   if (!(*root))
   {
      return NULL;
   }
   *root = splay_tree(*root, key);
   if(key==(*root)->key)
   {
      if (!(*root)->lson)
      {
         x = (*root)->rson;
      }
      else
      {
         x = splay_tree((*root)->lson, key);
         x->rson = (*root)->rson;
      }
      cell = *root;
      cell->lson = cell->rson = NULL;
      *root = x;
      return cell;
   }
   return NULL;
}


/*-----------------------------------------------------------------------
//
// Function: FloatTreeDeleteEntry()
//
//   Delete the entry with key key from the tree.
//
// Global Variables: -
//
// Side Effects    : By FloatTreeExtract(), memory operations
//
/----------------------------------------------------------------------*/

bool FloatTreeDeleteEntry(FloatTree_p *root, double key)
{
   FloatTree_p cell;

   cell = FloatTreeExtractEntry(root, key);
   if(cell)
   {
      FloatTreeFree(cell);
      return true;
   }
   return false;
}


/*-----------------------------------------------------------------------
//
// Function: FloatTreeNodes()
//
//   Return the floatber of nodes in the tree.
//
// Global Variables: -
//
// Side Effects    : -
//
/----------------------------------------------------------------------*/

long FloatTreeNodes(FloatTree_p root)
{
   PStack_p stack = PStackAlloc();
   long     res   = 0;

   PStackPushP(stack, root);

   while(!PStackEmpty(stack))
   {
      root = PStackPopP(stack);
      if(root)
      {
    PStackPushP(stack, root->lson);
    PStackPushP(stack, root->rson);
    res++;
      }
   }
   PStackFree(stack);

   return res;
}


AVL_TRAVERSE_DEFINITION(FloatTree, FloatTree_p)



/*---------------------------------------------------------------------*/
/*                        End of File                                  */
/*---------------------------------------------------------------------*/


