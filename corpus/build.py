#!/usr/bin/env python3
"""Provenance of /verif/corpus: copies real-world sources already present on this disk.
Deterministic: sorted candidates, size window, every k-th. Re-running is not needed (the corpus is
committed); kept to document where each file came from (see SOURCES.txt)."""
import os, shutil, sys
from pathlib import Path
OUT = Path(__file__).resolve().parent
ISA = "/opt/veriftools/tlapm/lib/tlapm/backends/Isabelle/contrib"
SRC = {
 "python": (["/usr/lib/python3.11"], ".py", 8),
 "c": ([f"{ISA}/rsync-3.2.7-1/src", f"{ISA}/e-3.1-1/src/BASICS"], ".c", 8),
 "cpp": ([f"{ISA}/vampire-4.8/src/Lib", f"{ISA}/polyml-5.9.1/src/libpolyml"], ".cpp", 8),
 "java": ([f"{ISA}/jedit-20250215/jedit5.7.0-patched/jEdit/org/gjt/sp/jedit/gui", f"{ISA}/jfreechart-1.5.3/jfreechart-1.5.3/src/main/java/org/jfree/data/xy"], ".java", 8),
 "javascript": (["/usr/lib/node_modules/npm/lib/commands", "/usr/lib/node_modules/npm/lib/utils"], ".js", 8),
 "typescript": (["/root/.nvm/versions/node/v22.22.2/lib/node_modules/puppeteer/node_modules/zod/src/v3", "/root/.nvm/versions/node/v22.22.2/lib/node_modules/puppeteer/node_modules/puppeteer-core/src/cdp"], ".ts", 8),
}
CS = ["/root/miniconda/pkgs/pygments-2.20.0-py313h06a4308_0/info/test/tests/examplefiles/csharp/test.cs",
      "/root/miniconda/pkgs/pygments-2.20.0-py313h06a4308_0/info/test/tests/examplefiles/csharp/numbers.cs",
      "/root/miniconda/share/doc/gettext/examples/hello-csharp-forms/hello.cs",
      "/root/miniconda/share/doc/gettext/examples/hello-csharp/hello.cs",
      "/usr/lib/node_modules/npm/node_modules/node-gyp/lib/Find-VisualStudio.cs"]
log = []
for lang, (dirs, ext, n) in SRC.items():
    cands = []
    for d in dirs:
        for f in sorted(Path(d).glob("*" + ext)):
            if 3000 <= f.stat().st_size <= 22000:
                cands.append(f)
    step = max(1, len(cands) // n)
    pick = cands[::step][:n]
    (OUT / lang).mkdir(exist_ok=True)
    for f in pick:
        shutil.copy(f, OUT / lang / f.name); log.append(f"{lang}/{f.name} <- {f}")
(OUT / "csharp").mkdir(exist_ok=True)
for i, f in enumerate(CS):
    name = f"{i}_{Path(f).name}"
    shutil.copy(f, OUT / "csharp" / name); log.append(f"csharp/{name} <- {f}")
(OUT / "SOURCES.txt").write_text("\n".join(log) + "\n\nLicences: CPython (PSF), rsync (GPL-3), E prover (GPL-2), Vampire (BSD-3), Poly/ML (LGPL-2.1), jEdit (GPL-2), JFreeChart (LGPL-2.1), npm (Artistic-2.0), zod (MIT), puppeteer (Apache-2.0), Pygments example files (BSD-2), gettext examples (public domain / GPL), node-gyp (MIT).\nFiles are unmodified copies used only as lexer/analysis inputs.\n")
print("\n".join(log))
