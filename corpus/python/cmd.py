"""A generic class to build line-oriented command interpreters.

Interpreters constructed with this class obey the following conventions:

1. End of file on input is processed as the command 'EOF'.
2. A command is parsed out of each line by collecting the prefix composed
   of characters in the identchars member.
3. A command `foo' is dispatched to a method 'do_foo()'; the do_ method
   is passed a single argument consisting of the remainder of the line.
4. Typing an empty line repeats the last command.  (Actually, it calls the
   method `emptyline', which may be overridden in a subclass.)
5. There is a predefined `help' method.  Given an argument `topic', it
   calls the command `help_topic'.  With no arguments, it lists all topics
   with defined help_ functions, broken into up to three topics; documented
   commands, miscellaneous help topics, and undocumented commands.
6. The command '?' is a synonym for `help'.  The command '!' is a synonym
   for `shell', if a do_shell method exists.
7. If completion is enabled, completing commands will be done automatically,
   and completing of commands args is done by calling complete_foo() with
   arguments text, line, begidx, endidx.  text is string we are matching
   against, all returned matches must begin with it.  line is the current
   input line (lstripped), begidx and endidx are the beginning and end
   indexes of the text being matched, which could be used to provide
   different completion depending upon which position the argument is in.

The `default' method may be overridden to intercept commands for which there
is no do_ method.

The `completedefault' method may be overridden to intercept completions for
commands that have no complete_ method.

The data member `self.ruler' sets the character used to draw separator lines
in the help messages.  If empty, no ruler line is drawn.  It defaults to "=".

If the value of `self.intro' is nonempty when the cmdloop method is called,
it is printed out on interpreter startup.  This value may be overridden
via an optional argument to the cmdloop() method.

The data members `self.doc_header', `self.misc_header', and
`self.undoc_header' set the headers used for the help function's
listings of documented functions, miscellaneous topics, and undocumented
functions respectively.
"""

import string, sys

__all__ = ["Cmd"]

PROMPT = '(Cmd) '
IDENTCHARS = string.ascii_letters + string.digits + '_'

class Cmd:
    """A simple framework for writing line-oriented command interpreters.

    These are often useful for test harnesses, administrative tools, and
    prototypes that will later be wrapped in a more sophisticated interface.

    A Cmd instance or subclass instance is a line-oriented interpreter
    framework.  There is no good reason to instantiate Cmd itself; rather,
    it's useful as a superclass of an interpreter class you define yourself
    in order to inherit Cmd's methods and encapsulate action methods.

    """
    prompt = PROMPT
    identchars = IDENTCHARS
    ruler = '='
    lastcmd = ''
    intro = None
    doc_leader = ""
    doc_header = "Documented commands (type help <topic>):"
    misc_header = "Miscellaneous help topics:"
    undoc_header = "Undocumented commands:"
    nohelp = "*** No help on %s"
    use_rawinput = 1

    def __init__(self, completekey='tab', stdin=None, stdout=None):
        """Instantiate a line-oriented interpreter framework.

        The optional argument 'completekey' is the readline name of a
        completion key; it defaults to the Tab key. If completekey is
        not None and the readline module is available, command completion
        is done automatically. The optional arguments stdin and stdout
        specify alternate input and output file objects; if not specified,
        sys.stdin and sys.stdout are used.

        """
        if stdin is not None:
            self.stdin = stdin
        else:
            self.stdin = sys.stdin
        if stdout is not None:
            self.stdout = stdout
        else:
            self.stdout = sys.stdout
        self.cmdqueue = []
        self.completekey = completekey

    def cmdloop(self, intro=None):
        """Repeatedly issue a prompt, accept input, parse an initial prefix
        off the received input, and dispatch to action methods, passing them
        the remainder of the line as argument.

        """

        self.preloop()
        if self.use_rawinput and self.completekey:
            try:
                import readline
                self.old_completer = readline.get_completer()
                readline.set_completer(self.complete)
                readline.parse_and_bind(self.completekey+": complete")
            except ImportError:
                pass
        try:
            if intro is not None:
                self.intro = intro
            if self.intro:
                self.stdout.write(str(self.intro)+"\n")
            stop = None
            while not stop:
                if self.cmdqueue:
                    line = self.cmdqueue.pop(0)
                else:
                    if self.use_rawinput:
                        try:
                            line = input(self.prompt)
                        except EOFError:
                            line = 'EOF'
                    else:
                        self.stdout.write(self.prompt)
                        self.stdout.flush()
                        line = self.stdin.readline()
                        if not len(line):
                            line = 'EOF'
                        else:
                            line = line.rstrip('\r\n')
                line = self.precmd(line)
                stop = self.onecmd(line)
                stop = self.postcmd(stop, line)
            self.postloop()
        finally:
            if self.use_rawinput and self.completekey:
                try:
                    import readline
                    readline.set_completer(self.old_completer)
                except ImportError:
                    pass


    def precmd(self, line):
        """Hook method executed just before the command line is
        interpreted, but after the input prompt is generated and issued.

        """
        return line

    def postcmd(self, stop, line):
        """Hook method executed just after a command dispatch is finished."""
        return stop

    def preloop(self):
        """Hook method executed once when the cmdloop() method is called."""
        pass

    def postloop(self):
        """Hook method executed once when the cmdloop() method is about to
        return.

        """
        pass

    def parseline(self, line):
        """Parse the line into a command name and a string containing
        the arguments.  Returns a tuple containing (command, args, line).
        'command' and 'args' may be None if the line couldn't be parsed.
        """
        line = line.strip()
        if not line:
            return None, None, line
        elif line[0] == '?':
            line = 'help ' + line[1:]
        elif line[0] == '!':
            if hasattr(self, 'do_shell'):
                line = 'shell ' + line[1:]
            else:
                return None, None, line
        i, n = 0, len(line)
        while i < n and line[i] in self.identchars: i = i+1
        cmd, arg = line[:i], line[i:].strip()
        return cmd, arg, line

    def onecmd(self, line):
        """Interpret the argument as though it had been typed in response
        to the prompt.

        This may be overridden, but should not normally need to be;
        see the precmd() and postcmd() methods for useful execution hooks.
        The return value is a flag indicating whether interpretation of
        commands by the interpreter should stop.

        """
        cmd, arg, line = self.parseline(line)
        if not line:
            return self.emptyline()
        if cmd is None:
            return self.default(line)
        self.lastcmd = line
        if line == 'EOF' :
            self.lastcmd = ''
        if cmd == '':
            return self.default(line)
        else:
            try:
                func = getattr(self, 'do_' + cmd)
            except AttributeError:
                return self.default(line)
            return func(arg)

    def emptyline(self):
        """Called when an empty line is entered in response to the prompt.

        If this method is not overridden, it repeats the last nonempty
        command entered.

        """
        if self.lastcmd:
            return self.onecmd(self.lastcmd)

    def default(self, line):
        """Called on an input line when the command prefix is not recognized.

        If this method is not overridden, it prints an error message and
        returns.

        """
        self.stdout.write('*** Unknown syntax: %s\n'%line)

    def completedefault(self, *ignored):
        """Method called to complete an input line when no command-specific
        complete_*() method is available.

        By default, it returns an empty list.

        """
        return []

    def completenames(self, text, *ignored):
        dotext = 'do_'+text
        return [a[3:] for a in self.get_names() if a.startswith(dotext)]

    def complete(self, text, state):
        """Return the next possible completion for 'text'.

        If a command has not been entered, then complete against command list.
        Otherwise try to call complete_<command> to get list of completions.
        """
        if state == 0:
            import readline
            origline = readline.get_line_buffer()
            line = origline.lstrip()
            stripped = len(origline) - len(line)
            begidx = readline.get_begidx() - stripped
            endidx = readline.get_endidx() - stripped
            if begidx>0:
                cmd, args, foo = self.parseline(line)
                if cmd == '':
                    compfunc = self.completedefault
                else:
                    try:
                        compfunc = getattr(self, 'complete_' + cmd)
                    except AttributeError:
                        compfunc = self.completedefault
            else:
                compfunc = self.completenames
            self.completion_matches = compfunc(text, line, begidx, endidx)
        try:
            return self.completion_matches[state]
        except IndexError:
            return None

    def get_names(self):
        # This method used to pull in base class attributes
        # at a time dir() didn't do it yet.
        return dir(self.__class__)

    def complete_help(self, *args):
        commands = set(self.completenames(*args))
        topics = set(a[5:] for a in self.get_names()
                     if a.startswith('help_' + args[0]))
        return list(commands | topics)

    def do_help(self, arg):
        'List available commands with "help" or detailed help with "help cmd".'
        if arg:
            # XXX check arg syntax
            try:
                func = getattr(self, 'help_' + arg)
            except AttributeError:
                try:
                    doc=getattr(self, 'do_' + arg).__doc__
                    if doc:
                        self.stdout.write("%s\n"%str(doc))
                        return
                except AttributeError:
                    pass
                self.stdout.write("%s\n"%str(self.nohelp % (arg,)))
                return
            func()
        else:
            names = self.get_names()
            cmds_doc = []
            cmds_undoc = []
            topics = set()
            for name in names:
                if name[:5] == 'help_':
                    topics.add(name[5:])
            names.sort()
            # There can be duplicates if routines overridden
            prevname = ''
            for name in names:
                if name[:3] == 'do_':
                    if name == prevname:
                        continue
                    prevname = name
                    cmd=name[3:]
                    if cmd in topics:
                        cmds_doc.append(cmd)
                        topics.remove(cmd)
                    elif getattr(self, name).__doc__:
                        cmds_doc.append(cmd)
                    else:
                        cmds_undoc.append(cmd)
            self.stdout.write("%s\n"%str(self.doc_leader))
            self.print_topics(self.doc_header,   cmds_doc,   15,80)
            self.print_topics(self.misc_header,  sorted(topics),15,80)
            self.print_topics(self.undoc_header, cmds_undoc, 15,80)

    def print_topics(self, header, cmds, cmdlen, maxcol):
        if cmds:
            self.stdout.write("%s\n"%str(header))
            if self.ruler:
                self.stdout.write("%s\n"%str(self.ruler * len(header)))
            self.columnize(cmds, maxcol-1)
            self.stdout.write("\n")

    def columnize(self, list, displaywidth=80):
        """Display a list of strings as a compact set of columns.

        Each column is only as wide as necessary.
        Columns are separated by two spaces (one was not legible enough).
        """
        if not list:
            self.stdout.write("<empty>\n")
            return

        nonstrings = [i for i in range(len(list))
                        if not isinstance(list[i], str)]
        if nonstrings:
            raise TypeError("list[i] not a string for i in %s"
                            % ", ".join(map(str, nonstrings)))
        size = len(list)
        if size == 1:
            self.stdout.write('%s\n'%str(list[0]))
            return
        # Try every row count from 1 upwards
        for nrows in range(1, len(list)):
            ncols = (size+nrows-1) // nrows
            colwidths = []
            totwidth = -2
            for col in range(ncols):
                colwidth = 0
                for row in range(nrows):
                    i = row + nrows*col
                    if i >= size:
                        break
                    x = list[i]
                    colwidth = max(colwidth, len(x))
                colwidths.append(colwidth)
                totwidth += colwidth + 2
                if totwidth > displaywidth:
                    break
            if totwidth <= displaywidth:
                break
        else:
            nrows = len(list)
            ncols = 1
            colwidths = [0]
        for row in range(nrows):
            texts = []
            for col in range(ncols):
                i = row + nrows*col
                if i >= size:
                    x = ""
                else:
                    x = list[i]
                texts.append(x)
            while texts and not texts[-1]:
                del texts[-1]
            for col in range(len(texts)):
                texts[col] = texts[col].ljust(colwidths[col])
            self.stdout.write("%s\n"%str("  ".join(texts)))
