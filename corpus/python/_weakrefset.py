# Access WeakSet through the weakref module.
# This code is separated-out because it is needed
# by abc.py to load everything else at startup.

from _weakref import ref
from types import GenericAlias

__all__ = ['WeakSet']


class _IterationGuard:
    # This context manager registers itself in the current iterators of the
    # weak container, such as to delay all removals until the context manager
    # exits.
    # This technique should be relatively thread-safe (since sets are).

    def __init__(self, weakcontainer):
        # Don't create cycles
        self.weakcontainer = ref(weakcontainer)

    def __enter__(self):
        w = self.weakcontainer()
        if w is not None:
            w._iterating.add(self)
        return self

    def __exit__(self, e, t, b):
        w = self.weakcontainer()
        if w is not None:
            s = w._iterating
            s.remove(self)
            if not s:
                w._commit_removals()


class WeakSet:
    def __init__(self, data=None):
        self.data = set()
        def _remove(item, selfref=ref(self)):
            self = selfref()
            if self is not None:
                if self._iterating:
                    self._pending_removals.append(item)
                else:
                    self.data.discard(item)
        self._remove = _remove
        # A list of keys to be removed
        self._pending_removals = []
        self._iterating = set()
        if data is not None:
            self.update(data)

    def _commit_removals(self):
        pop = self._pending_removals.pop
        discard = self.data.discard
        while True:
            try:
                item = pop()
            except IndexError:
                return
            discard(item)

    def __iter__(self):
        with _IterationGuard(self):
            for itemref in self.data:
                item = itemref()
                if item is not None:
                    # Caveat: the iterator will keep a strong reference to
                    # `item` until it is resumed or closed.
                    yield item

    def __len__(self):
        return len(self.data) - len(self._pending_removals)

    def __contains__(self, item):
        try:
            wr = ref(item)
        except TypeError:
            return False
        return wr in self.data

    def __reduce__(self):
        return self.__class__, (list(self),), self.__getstate__()

    def add(self, item):
        if self._pending_removals:
            self._commit_removals()
        self.data.add(ref(item, self._remove))

    def clear(self):
        if self._pending_removals:
            self._commit_removals()
        self.data.clear()

    def copy(self):
        return self.__class__(self)

    def pop(self):
        if self._pending_removals:
            self._commit_removals()
        while True:
            try:
                itemref = self.data.pop()
            except KeyError:
                raise KeyError('pop from empty WeakSet') from None
            item = itemref()
            if item is not None:
                return item

    def remove(self, item):
        if self._pending_removals:
            self._commit_removals()
        self.data.remove(ref(item))

    def discard(self, item):
        if self._pending_removals:
            self._commit_removals()
        self.data.discard(ref(item))

    def update(self, other):
        if self._pending_removals:
            self._commit_removals()
        for element in other:
            self.add(element)

    def __ior__(self, other):
        self.update(other)
        return self

    def difference(self, other):
        newset = self.copy()
        newset.difference_update(other)
        return newset
    __sub__ = difference

    def difference_update(self, other):
        self.__isub__(other)
    def __isub__(self, other):
        if self._pending_removals:
            self._commit_removals()
        if self is other:
            self.data.clear()
        else:
            self.data.difference_update(ref(item) for item in other)
        return self

    def intersection(self, other):
        return self.__class__(item for item in other if item in self)
    __and__ = intersection

    def intersection_update(self, other):
        self.__iand__(other)
    def __iand__(self, other):
        if self._pending_removals:
            self._commit_removals()
        self.data.intersection_update(ref(item) for item in other)
        return self

    def issubset(self, other):
        return self.data.issubset(ref(item) for item in other)
    __le__ = issubset

    def __lt__(self, other):
        return self.data < set(map(ref, other))

    def issuperset(self, other):
        return self.data.issuperset(ref(item) for item in other)
    __ge__ = issuperset

    def __gt__(self, other):
        return self.data > set(map(ref, other))

    def __eq__(self, other):
        if not isinstance(other, self.__class__):
            return NotImplemented
        return self.data == set(map(ref, other))

    def symmetric_difference(self, other):
        newset = self.copy()
        newset.symmetric_difference_update(other)
        return newset
    __xor__ = symmetric_difference

    def symmetric_difference_update(self, other):
        self.__ixor__(other)
    def __ixor__(self, other):
        if self._pending_removals:
            self._commit_removals()
        if self is other:
            self.data.clear()
        else:
            self.data.symmetric_difference_update(ref(item, self._remove) for item in other)
        return self

    def union(self, other):
        return self.__class__(e for s in (self, other) for e in s)
    __or__ = union

    def isdisjoint(self, other):
        return len(self.intersection(other)) == 0

    def __repr__(self):
        return repr(self.data)

    __class_getitem__ = classmethod(GenericAlias)
