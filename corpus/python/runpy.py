"""runpy.py - locating and running Python code using the module namespace

Provides support for locating and running Python scripts using the Python
module namespace instead of the native filesystem.

This allows Python code to play nicely with non-filesystem based PEP 302
importers when locating support scripts as well as when importing modules.
"""
# Written by Nick Coghlan <ncoghlan at gmail.com>
#    to implement PEP 338 (Executing Modules as Scripts)


import sys
import importlib.machinery # importlib first so we can test #15386 via -m
import importlib.util
import io
import os

__all__ = [
    "run_module", "run_path",
]

# avoid 'import types' just for ModuleType
ModuleType = type(sys)

class _TempModule(object):
    """Temporarily replace a module in sys.modules with an empty namespace"""
    def __init__(self, mod_name):
        self.mod_name = mod_name
        self.module = ModuleType(mod_name)
        self._saved_module = []

    def __enter__(self):
        mod_name = self.mod_name
        try:
            self._saved_module.append(sys.modules[mod_name])
        except KeyError:
            pass
        sys.modules[mod_name] = self.module
        return self

    def __exit__(self, *args):
        if self._saved_module:
            sys.modules[self.mod_name] = self._saved_module[0]
        else:
            del sys.modules[self.mod_name]
        self._saved_module = []

class _ModifiedArgv0(object):
    def __init__(self, value):
        self.value = value
        self._saved_value = self._sentinel = object()

    def __enter__(self):
        if self._saved_value is not self._sentinel:
            raise RuntimeError("Already preserving saved value")
        self._saved_value = sys.argv[0]
        sys.argv[0] = self.value

    def __exit__(self, *args):
        self.value = self._sentinel
        sys.argv[0] = self._saved_value

# TODO: Replace these helpers with importlib._bootstrap_external functions.
def _run_code(code, run_globals, init_globals=None,
              mod_name=None, mod_spec=None,
              pkg_name=None, script_name=None):
    """Helper to run code in nominated namespace"""
    if init_globals is not None:
        run_globals.update(init_globals)
    if mod_spec is None:
        loader = None
        fname = script_name
        cached = None
    else:
        loader = mod_spec.loader
        fname = mod_spec.origin
        cached = mod_spec.cached
        if pkg_name is None:
            pkg_name = mod_spec.parent
    run_globals.update(__name__ = mod_name,
                       __file__ = fname,
                       __cached__ = cached,
                       __doc__ = None,
                       __loader__ = loader,
                       __package__ = pkg_name,
                       __spec__ = mod_spec)
    exec(code, run_globals)
    return run_globals

def _run_module_code(code, init_globals=None,
                    mod_name=None, mod_spec=None,
                    pkg_name=None, script_name=None):
    """Helper to run code in new namespace with sys modified"""
    fname = script_name if mod_spec is None else mod_spec.origin
    with _TempModule(mod_name) as temp_module, _ModifiedArgv0(fname):
        mod_globals = temp_module.module.__dict__
        _run_code(code, mod_globals, init_globals,
                  mod_name, mod_spec, pkg_name, script_name)
    # Copy the globals of the temporary module, as they
    # may be cleared when the temporary module goes away
    return mod_globals.copy()

# Helper to get the full name, spec and code for a module
def _get_module_details(mod_name, error=ImportError):
    if mod_name.startswith("."):
        raise error("Relative module names not supported")
    pkg_name, _, _ = mod_name.rpartition(".")
    if pkg_name:
        # Try importing the parent to avoid catching initialization errors
        try:
            __import__(pkg_name)
        except ImportError as e:
            # If the parent or higher ancestor package is missing, let the
            # error be raised by find_spec() below and then be caught. But do
            # not allow other errors to be caught.
            if e.name is None or (e.name != pkg_name and
                    not pkg_name.startswith(e.name + ".")):
                raise
        # Warn if the module has already been imported under its normal name
        existing = sys.modules.get(mod_name)
        if existing is not None and not hasattr(existing, "__path__"):
            from warnings import warn
            msg = "{mod_name!r} found in sys.modules after import of " \
                "package {pkg_name!r}, but prior to execution of " \
                "{mod_name!r}; this may result in unpredictable " \
                "behaviour".format(mod_name=mod_name, pkg_name=pkg_name)
            warn(RuntimeWarning(msg))

    try:
        spec = importlib.util.find_spec(mod_name)
    except (ImportError, AttributeError, TypeError, ValueError) as ex:
        # This hack fixes an impedance mismatch between pkgutil and
        # importlib, where the latter raises other errors for cases where
        # pkgutil previously raised ImportError
        msg = "Error while finding module specification for {!r} ({}: {})"
        if mod_name.endswith(".py"):
            msg += (f". Try using '{mod_name[:-3]}' instead of "
                    f"'{mod_name}' as the module name.")
        raise error(msg.format(mod_name, type(ex).__name__, ex)) from ex
    if spec is None:
        raise error("No module named %s" % mod_name)
    if spec.submodule_search_locations is not None:
        if mod_name == "__main__" or mod_name.endswith(".__main__"):
            raise error("Cannot use package as __main__ module")
        try:
            pkg_main_name = mod_name + ".__main__"
            return _get_module_details(pkg_main_name, error)
        except error as e:
            if mod_name not in sys.modules:
                raise  # No module loaded; being a package is irrelevant
            raise error(("%s; %r is a package and cannot " +
                               "be directly executed") %(e, mod_name))
    loader = spec.loader
    if loader is None:
        raise error("%r is a namespace package and cannot be executed"
                                                                 % mod_name)
    try:
        code = loader.get_code(mod_name)
    except ImportError as e:
        raise error(format(e)) from e
    if code is None:
        raise error("No code object available for %s" % mod_name)
    return mod_name, spec, code

class _Error(Exception):
    """Error that _run_module_as_main() should report without a traceback"""

# XXX ncoghlan: Should this be documented and made public?
# (Current thoughts: don't repeat the mistake that lead to its
# creation when run_module() no longer met the needs of
# mainmodule.c, but couldn't be changed because it was public)
def _run_module_as_main(mod_name, alter_argv=True):
    """Runs the designated module in the __main__ namespace

       Note that the executed module will have full access to the
       __main__ namespace. If this is not desirable, the run_module()
       function should be used to run the module code in a fresh namespace.

       At the very least, these variables in __main__ will be overwritten:
           __name__
           __file__
           __cached__
           __loader__
           __package__
    """
    try:
        if alter_argv or mod_name != "__main__": # i.e. -m switch
            mod_name, mod_spec, code = _get_module_details(mod_name, _Error)
        else:          # i.e. directory or zipfile execution
            mod_name, mod_spec, code = _get_main_module_details(_Error)
    except _Error as exc:
        msg = "%s: %s" % (sys.executable, exc)
        sys.exit(msg)
    main_globals = sys.modules["__main__"].__dict__
    if alter_argv:
        sys.argv[0] = mod_spec.origin
    return _run_code(code, main_globals, None,
                     "__main__", mod_spec)

def run_module(mod_name, init_globals=None,
               run_name=None, alter_sys=False):
    """Execute a module's code without importing it.

       mod_name -- an absolute module name or package name.

       Optional arguments:
       init_globals -- dictionary used to pre-populate the module’s
       globals dictionary before the code is executed.

       run_name -- if not None, this will be used for setting __name__;
       otherwise, __name__ will be set to mod_name + '__main__' if the
       named module is a package and to just mod_name otherwise.

       alter_sys -- if True, sys.argv[0] is updated with the value of
       __file__ and sys.modules[__name__] is updated with a temporary
       module object for the module being executed. Both are
       restored to their original values before the function returns.

       Returns the resulting module globals dictionary.
    """
    mod_name, mod_spec, code = _get_module_details(mod_name)
    if run_name is None:
        run_name = mod_name
    if alter_sys:
        return _run_module_code(code, init_globals, run_name, mod_spec)
    else:
        # Leave the sys module alone
        return _run_code(code, {}, init_globals, run_name, mod_spec)

def _get_main_module_details(error=ImportError):
    # Helper that gives a nicer error message when attempting to
    # execute a zipfile or directory by invoking __main__.py
    # Also moves the standard __main__ out of the way so that the
    # preexisting __loader__ entry doesn't cause issues
    main_name = "__main__"
    saved_main = sys.modules[main_name]
    del sys.modules[main_name]
    try:
        return _get_module_details(main_name)
    except ImportError as exc:
        if main_name in str(exc):
            raise error("can't find %r module in %r" %
                              (main_name, sys.path[0])) from exc
        raise
    finally:
        sys.modules[main_name] = saved_main


def _get_code_from_file(run_name, fname):
    # Check for a compiled file first
    from pkgutil import read_code
    decoded_path = os.path.abspath(os.fsdecode(fname))
    with io.open_code(decoded_path) as f:
        code = read_code(f)
    if code is None:
        # That didn't work, so try it as normal source code
        with io.open_code(decoded_path) as f:
            code = compile(f.read(), fname, 'exec')
    return code, fname

def run_path(path_name, init_globals=None, run_name=None):
    """Execute code located at the specified filesystem location.

       path_name -- filesystem location of a Python script, zipfile,
       or directory containing a top level __main__.py script.

       Optional arguments:
       init_globals -- dictionary used to pre-populate the module’s
       globals dictionary before the code is executed.

       run_name -- if not None, this will be used to set __name__;
       otherwise, '<run_path>' will be used for __name__.

       Returns the resulting module globals dictionary.
    """
    if run_name is None:
        run_name = "<run_path>"
    pkg_name = run_name.rpartition(".")[0]
    from pkgutil import get_importer
    importer = get_importer(path_name)
    # Trying to avoid importing imp so as to not consume the deprecation warning.
    is_NullImporter = False
    if type(importer).__module__ == 'imp':
        if type(importer).__name__ == 'NullImporter':
            is_NullImporter = True
    if isinstance(importer, type(None)) or is_NullImporter:
        # Not a valid sys.path entry, so run the code directly
        # execfile() doesn't help as we want to allow compiled files
        code, fname = _get_code_from_file(run_name, path_name)
        return _run_module_code(code, init_globals, run_name,
                                pkg_name=pkg_name, script_name=fname)
    else:
        # Finder is defined for path, so add it to
        # the start of sys.path
        sys.path.insert(0, path_name)
        try:
            # Here's where things are a little different from the run_module
            # case. There, we only had to replace the module in sys while the
            # code was running and doing so was somewhat optional. Here, we
            # have no choice and we have to remove it even while we read the
            # code. If we don't do this, a __loader__ attribute in the
            # existing __main__ module may prevent location of the new module.
            mod_name, mod_spec, code = _get_main_module_details()
            with _TempModule(run_name) as temp_module, \
                 _ModifiedArgv0(path_name):
                mod_globals = temp_module.module.__dict__
                return _run_code(code, mod_globals, init_globals,
                                    run_name, mod_spec, pkg_name).copy()
        finally:
            try:
                sys.path.remove(path_name)
            except ValueError:
                pass


if __name__ == "__main__":
    # Run the module specified as the next command line argument
    if len(sys.argv) < 2:
        print("No module specified for execution", file=sys.stderr)
    else:
        del sys.argv[0] # Make the requested module sys.argv[0]
        _run_module_as_main(sys.argv[0])
