"""Helper class to quickly write a loop over all standard input files.

Typical use is:

    import fileinput
    for line in fileinput.input(encoding="utf-8"):
        process(line)

This iterates over the lines of all files listed in sys.argv[1:],
defaulting to sys.stdin if the list is empty.  If a filename is '-' it
is also replaced by sys.stdin and the optional arguments mode and
openhook are ignored.  To specify an alternative list of filenames,
pass it as the argument to input().  A single file name is also allowed.

Functions filename(), lineno() return the filename and cumulative line
number of the line that has just been read; filelineno() returns its
line number in the current file; isfirstline() returns true iff the
line just read is the first line of its file; isstdin() returns true
iff the line was read from sys.stdin.  Function nextfile() closes the
current file so that the next iteration will read the first line from
the next file (if any); lines not read from the file will not count
towards the cumulative line count; the filename is not changed until
after the first line of the next file has been read.  Function close()
closes the sequence.

Before any lines have been read, filename() returns None and both line
numbers are zero; nextfile() has no effect.  After all lines have been
read, filename() and the line number functions return the values
pertaining to the last line read; nextfile() has no effect.

All files are opened in text mode by default, you can override this by
setting the mode parameter to input() or FileInput.__init__().
If an I/O error occurs during opening or reading a file, the OSError
exception is raised.

If sys.stdin is used more than once, the second and further use will
return no lines, except perhaps for interactive use, or if it has been
explicitly reset (e.g. using sys.stdin.seek(0)).

Empty files are opened and immediately closed; the only time their
presence in the list of filenames is noticeable at all is when the
last file opened is empty.

It is possible that the last line of a file doesn't end in a newline
character; otherwise lines are returned including the trailing
newline.

Class FileInput is the implementation; its methods filename(),
lineno(), fileline(), isfirstline(), isstdin(), nextfile() and close()
correspond to the functions in the module.  In addition it has a
readline() method which returns the next input line, and a
__getitem__() method which implements the sequence behavior.  The
sequence must be accessed in strictly sequential order; sequence
access and readline() cannot be mixed.

Optional in-place filtering: if the keyword argument inplace=1 is
passed to input() or to the FileInput constructor, the file is moved
to a backup file and standard output is directed to the input file.
This makes it possible to write a filter that rewrites its input file
in place.  If the keyword argument backup=".<some extension>" is also
given, it specifies the extension for the backup file, and the backup
file remains around; by default, the extension is ".bak" and it is
deleted when the output file is closed.  In-place filtering is
disabled when standard input is read.  XXX The current implementation
does not work for MS-DOS 8+3 filesystems.
"""

import io
import sys, os
from types import GenericAlias

__all__ = ["input", "close", "nextfile", "filename", "lineno", "filelineno",
           "fileno", "isfirstline", "isstdin", "FileInput", "hook_compressed",
           "hook_encoded"]

_state = None

def input(files=None, inplace=False, backup="", *, mode="r", openhook=None,
          encoding=None, errors=None):
    """Return an instance of the FileInput class, which can be iterated.

    The parameters are passed to the constructor of the FileInput class.
    The returned instance, in addition to being an iterator,
    keeps global state for the functions of this module,.
    """
    global _state
    if _state and _state._file:
        raise RuntimeError("input() already active")
    _state = FileInput(files, inplace, backup, mode=mode, openhook=openhook,
                       encoding=encoding, errors=errors)
    return _state

def close():
    """Close the sequence."""
    global _state
    state = _state
    _state = None
    if state:
        state.close()

def nextfile():
    """
    Close the current file so that the next iteration will read the first
    line from the next file (if any); lines not read from the file will
    not count towards the cumulative line count. The filename is not
    changed until after the first line of the next file has been read.
    Before the first line has been read, this function has no effect;
    it cannot be used to skip the first file. After the last line of the
    last file has been read, this function has no effect.
    """
    if not _state:
        raise RuntimeError("no active input()")
    return _state.nextfile()

def filename():
    """
    Return the name of the file currently being read.
    Before the first line has been read, returns None.
    """
    if not _state:
        raise RuntimeError("no active input()")
    return _state.filename()

def lineno():
    """
    Return the cumulative line number of the line that has just been read.
    Before the first line has been read, returns 0. After the last line
    of the last file has been read, returns the line number of that line.
    """
    if not _state:
        raise RuntimeError("no active input()")
    return _state.lineno()

def filelineno():
    """
    Return the line number in the current file. Before the first line
    has been read, returns 0. After the last line of the last file has
    been read, returns the line number of that line within the file.
    """
    if not _state:
        raise RuntimeError("no active input()")
    return _state.filelineno()

def fileno():
    """
    Return the file number of the current file. When no file is currently
    opened, returns -1.
    """
    if not _state:
        raise RuntimeError("no active input()")
    return _state.fileno()

def isfirstline():
    """
    Returns true the line just read is the first line of its file,
    otherwise returns false.
    """
    if not _state:
        raise RuntimeError("no active input()")
    return _state.isfirstline()

def isstdin():
    """
    Returns true if the last line was read from sys.stdin,
    otherwise returns false.
    """
    if not _state:
        raise RuntimeError("no active input()")
    return _state.isstdin()

class FileInput:
    """FileInput([files[, inplace[, backup]]], *, mode=None, openhook=None)

    Class FileInput is the implementation of the module; its methods
    filename(), lineno(), fileline(), isfirstline(), isstdin(), fileno(),
    nextfile() and close() correspond to the functions of the same name
    in the module.
    In addition it has a readline() method which returns the next
    input line, and a __getitem__() method which implements the
    sequence behavior. The sequence must be accessed in strictly
    sequential order; random access and readline() cannot be mixed.
    """

    def __init__(self, files=None, inplace=False, backup="", *,
                 mode="r", openhook=None, encoding=None, errors=None):
        if isinstance(files, str):
            files = (files,)
        elif isinstance(files, os.PathLike):
            files = (os.fspath(files), )
        else:
            if files is None:
                files = sys.argv[1:]
            if not files:
                files = ('-',)
            else:
                files = tuple(files)
        self._files = files
        self._inplace = inplace
        self._backup = backup
        self._savestdout = None
        self._output = None
        self._filename = None
        self._startlineno = 0
        self._filelineno = 0
        self._file = None
        self._isstdin = False
        self._backupfilename = None
        self._encoding = encoding
        self._errors = errors

        # We can not use io.text_encoding() here because old openhook doesn't
        # take encoding parameter.
        if (sys.flags.warn_default_encoding and
                "b" not in mode and encoding is None and openhook is None):
            import warnings
            warnings.warn("'encoding' argument not specified.",
                          EncodingWarning, 2)

        # restrict mode argument to reading modes
        if mode not in ('r', 'rb'):
            raise ValueError("FileInput opening mode must be 'r' or 'rb'")
        self._mode = mode
        self._write_mode = mode.replace('r', 'w')
        if openhook:
            if inplace:
                raise ValueError("FileInput cannot use an opening hook in inplace mode")
            if not callable(openhook):
                raise ValueError("FileInput openhook must be callable")
        self._openhook = openhook

    def __del__(self):
        self.close()

    def close(self):
        try:
            self.nextfile()
        finally:
            self._files = ()

    def __enter__(self):
        return self

    def __exit__(self, type, value, traceback):
        self.close()

    def __iter__(self):
        return self

    def __next__(self):
        while True:
            line = self._readline()
            if line:
                self._filelineno += 1
                return line
            if not self._file:
                raise StopIteration
            self.nextfile()
            # repeat with next file

    def nextfile(self):
        savestdout = self._savestdout
        self._savestdout = None
        if savestdout:
            sys.stdout = savestdout

        output = self._output
        self._output = None
        try:
            if output:
                output.close()
        finally:
            file = self._file
            self._file = None
            try:
                del self._readline  # restore FileInput._readline
            except AttributeError:
                pass
            try:
                if file and not self._isstdin:
                    file.close()
            finally:
                backupfilename = self._backupfilename
                self._backupfilename = None
                if backupfilename and not self._backup:
                    try: os.unlink(backupfilename)
                    except OSError: pass

                self._isstdin = False

    def readline(self):
        while True:
            line = self._readline()
            if line:
                self._filelineno += 1
                return line
            if not self._file:
                return line
            self.nextfile()
            # repeat with next file

    def _readline(self):
        if not self._files:
            if 'b' in self._mode:
                return b''
            else:
                return ''
        self._filename = self._files[0]
        self._files = self._files[1:]
        self._startlineno = self.lineno()
        self._filelineno = 0
        self._file = None
        self._isstdin = False
        self._backupfilename = 0

        # EncodingWarning is emitted in __init__() already
        if "b" not in self._mode:
            encoding = self._encoding or "locale"
        else:
            encoding = None

        if self._filename == '-':
            self._filename = '<stdin>'
            if 'b' in self._mode:
                self._file = getattr(sys.stdin, 'buffer', sys.stdin)
            else:
                self._file = sys.stdin
            self._isstdin = True
        else:
            if self._inplace:
                self._backupfilename = (
                    os.fspath(self._filename) + (self._backup or ".bak"))
                try:
                    os.unlink(self._backupfilename)
                except OSError:
                    pass
                # The next few lines may raise OSError
                os.rename(self._filename, self._backupfilename)
                self._file = open(self._backupfilename, self._mode,
                                  encoding=encoding, errors=self._errors)
                try:
                    perm = os.fstat(self._file.fileno()).st_mode
                except OSError:
                    self._output = open(self._filename, self._write_mode,
                                        encoding=encoding, errors=self._errors)
                else:
                    mode = os.O_CREAT | os.O_WRONLY | os.O_TRUNC
                    if hasattr(os, 'O_BINARY'):
                        mode |= os.O_BINARY

                    fd = os.open(self._filename, mode, perm)
                    self._output = os.fdopen(fd, self._write_mode,
                                             encoding=encoding, errors=self._errors)
                    try:
                        os.chmod(self._filename, perm)
                    except OSError:
                        pass
                self._savestdout = sys.stdout
                sys.stdout = self._output
            else:
                # This may raise OSError
                if self._openhook:
                    # Custom hooks made previous to Python 3.10 didn't have
                    # encoding argument
                    if self._encoding is None:
                        self._file = self._openhook(self._filename, self._mode)
                    else:
                        self._file = self._openhook(
                            self._filename, self._mode, encoding=self._encoding, errors=self._errors)
                else:
                    self._file = open(self._filename, self._mode, encoding=encoding, errors=self._errors)
        self._readline = self._file.readline  # hide FileInput._readline
        return self._readline()

    def filename(self):
        return self._filename

    def lineno(self):
        return self._startlineno + self._filelineno

    def filelineno(self):
        return self._filelineno

    def fileno(self):
        if self._file:
            try:
                return self._file.fileno()
            except ValueError:
                return -1
        else:
            return -1

    def isfirstline(self):
        return self._filelineno == 1

    def isstdin(self):
        return self._isstdin

    __class_getitem__ = classmethod(GenericAlias)


def hook_compressed(filename, mode, *, encoding=None, errors=None):
    if encoding is None:  # EncodingWarning is emitted in FileInput() already.
        encoding = "locale"
    ext = os.path.splitext(filename)[1]
    if ext == '.gz':
        import gzip
        stream = gzip.open(filename, mode)
    elif ext == '.bz2':
        import bz2
        stream = bz2.BZ2File(filename, mode)
    else:
        return open(filename, mode, encoding=encoding, errors=errors)

    # gzip and bz2 are binary mode by default.
    if "b" not in mode:
        stream = io.TextIOWrapper(stream, encoding=encoding, errors=errors)
    return stream


def hook_encoded(encoding, errors=None):
    def openhook(filename, mode):
        return open(filename, mode, encoding=encoding, errors=errors)
    return openhook


def _test():
    import getopt
    inplace = False
    backup = False
    opts, args = getopt.getopt(sys.argv[1:], "ib:")
    for o, a in opts:
        if o == '-i': inplace = True
        if o == '-b': backup = a
    for line in input(args, inplace=inplace, backup=backup):
        if line[-1:] == '\n': line = line[:-1]
        if line[-1:] == '\r': line = line[:-1]
        print("%d: %s[%d]%s %s" % (lineno(), filename(), filelineno(),
                                   isfirstline() and "*" or "", line))
    print("%d: %s[%d]" % (lineno(), filename(), filelineno()))

if __name__ == '__main__':
    _test()
