"""Interface to the compiler's internal symbol tables"""

import _symtable
from _symtable import (USE, DEF_GLOBAL, DEF_NONLOCAL, DEF_LOCAL, DEF_PARAM,
     DEF_IMPORT, DEF_BOUND, DEF_ANNOT, SCOPE_OFF, SCOPE_MASK, FREE,
     LOCAL, GLOBAL_IMPLICIT, GLOBAL_EXPLICIT, CELL)

import weakref

__all__ = ["symtable", "SymbolTable", "Class", "Function", "Symbol"]

def symtable(code, filename, compile_type):
    """ Return the toplevel *SymbolTable* for the source code.

    *filename* is the name of the file with the code
    and *compile_type* is the *compile()* mode argument.
    """
    top = _symtable.symtable(code, filename, compile_type)
    return _newSymbolTable(top, filename)

class SymbolTableFactory:
    def __init__(self):
        self.__memo = weakref.WeakValueDictionary()

    def new(self, table, filename):
        if table.type == _symtable.TYPE_FUNCTION:
            return Function(table, filename)
        if table.type == _symtable.TYPE_CLASS:
            return Class(table, filename)
        return SymbolTable(table, filename)

    def __call__(self, table, filename):
        key = table, filename
        obj = self.__memo.get(key, None)
        if obj is None:
            obj = self.__memo[key] = self.new(table, filename)
        return obj

_newSymbolTable = SymbolTableFactory()


class SymbolTable:

    def __init__(self, raw_table, filename):
        self._table = raw_table
        self._filename = filename
        self._symbols = {}

    def __repr__(self):
        if self.__class__ == SymbolTable:
            kind = ""
        else:
            kind = "%s " % self.__class__.__name__

        if self._table.name == "top":
            return "<{0}SymbolTable for module {1}>".format(kind, self._filename)
        else:
            return "<{0}SymbolTable for {1} in {2}>".format(kind,
                                                            self._table.name,
                                                            self._filename)

    def get_type(self):
        """Return the type of the symbol table.

        The values returned are 'class', 'module' and
        'function'.
        """
        if self._table.type == _symtable.TYPE_MODULE:
            return "module"
        if self._table.type == _symtable.TYPE_FUNCTION:
            return "function"
        if self._table.type == _symtable.TYPE_CLASS:
            return "class"
        assert self._table.type in (1, 2, 3), \
               "unexpected type: {0}".format(self._table.type)

    def get_id(self):
        """Return an identifier for the table.
        """
        return self._table.id

    def get_name(self):
        """Return the table's name.

        This corresponds to the name of the class, function
        or 'top' if the table is for a class, function or
        global respectively.
        """
        return self._table.name

    def get_lineno(self):
        """Return the number of the first line in the
        block for the table.
        """
        return self._table.lineno

    def is_optimized(self):
        """Return *True* if the locals in the table
        are optimizable.
        """
        return bool(self._table.type == _symtable.TYPE_FUNCTION)

    def is_nested(self):
        """Return *True* if the block is a nested class
        or function."""
        return bool(self._table.nested)

    def has_children(self):
        """Return *True* if the block has nested namespaces.
        """
        return bool(self._table.children)

    def get_identifiers(self):
        """Return a view object containing the names of symbols in the table.
        """
        return self._table.symbols.keys()

    def lookup(self, name):
        """Lookup a *name* in the table.

        Returns a *Symbol* instance.
        """
        sym = self._symbols.get(name)
        if sym is None:
            flags = self._table.symbols[name]
            namespaces = self.__check_children(name)
            module_scope = (self._table.name == "top")
            sym = self._symbols[name] = Symbol(name, flags, namespaces,
                                               module_scope=module_scope)
        return sym

    def get_symbols(self):
        """Return a list of *Symbol* instances for
        names in the table.
        """
        return [self.lookup(ident) for ident in self.get_identifiers()]

    def __check_children(self, name):
        return [_newSymbolTable(st, self._filename)
                for st in self._table.children
                if st.name == name]

    def get_children(self):
        """Return a list of the nested symbol tables.
        """
        return [_newSymbolTable(st, self._filename)
                for st in self._table.children]


class Function(SymbolTable):

    # Default values for instance variables
    __params = None
    __locals = None
    __frees = None
    __globals = None
    __nonlocals = None

    def __idents_matching(self, test_func):
        return tuple(ident for ident in self.get_identifiers()
                     if test_func(self._table.symbols[ident]))

    def get_parameters(self):
        """Return a tuple of parameters to the function.
        """
        if self.__params is None:
            self.__params = self.__idents_matching(lambda x:x & DEF_PARAM)
        return self.__params

    def get_locals(self):
        """Return a tuple of locals in the function.
        """
        if self.__locals is None:
            locs = (LOCAL, CELL)
            test = lambda x: ((x >> SCOPE_OFF) & SCOPE_MASK) in locs
            self.__locals = self.__idents_matching(test)
        return self.__locals

    def get_globals(self):
        """Return a tuple of globals in the function.
        """
        if self.__globals is None:
            glob = (GLOBAL_IMPLICIT, GLOBAL_EXPLICIT)
            test = lambda x:((x >> SCOPE_OFF) & SCOPE_MASK) in glob
            self.__globals = self.__idents_matching(test)
        return self.__globals

    def get_nonlocals(self):
        """Return a tuple of nonlocals in the function.
        """
        if self.__nonlocals is None:
            self.__nonlocals = self.__idents_matching(lambda x:x & DEF_NONLOCAL)
        return self.__nonlocals

    def get_frees(self):
        """Return a tuple of free variables in the function.
        """
        if self.__frees is None:
            is_free = lambda x:((x >> SCOPE_OFF) & SCOPE_MASK) == FREE
            self.__frees = self.__idents_matching(is_free)
        return self.__frees


class Class(SymbolTable):

    __methods = None

    def get_methods(self):
        """Return a tuple of methods declared in the class.
        """
        if self.__methods is None:
            d = {}
            for st in self._table.children:
                d[st.name] = 1
            self.__methods = tuple(d)
        return self.__methods


class Symbol:

    def __init__(self, name, flags, namespaces=None, *, module_scope=False):
        self.__name = name
        self.__flags = flags
        self.__scope = (flags >> SCOPE_OFF) & SCOPE_MASK # like PyST_GetScope()
        self.__namespaces = namespaces or ()
        self.__module_scope = module_scope

    def __repr__(self):
        return "<symbol {0!r}>".format(self.__name)

    def get_name(self):
        """Return a name of a symbol.
        """
        return self.__name

    def is_referenced(self):
        """Return *True* if the symbol is used in
        its block.
        """
        return bool(self.__flags & _symtable.USE)

    def is_parameter(self):
        """Return *True* if the symbol is a parameter.
        """
        return bool(self.__flags & DEF_PARAM)

    def is_global(self):
        """Return *True* if the symbol is global.
        """
        return bool(self.__scope in (GLOBAL_IMPLICIT, GLOBAL_EXPLICIT)
                    or (self.__module_scope and self.__flags & DEF_BOUND))

    def is_nonlocal(self):
        """Return *True* if the symbol is nonlocal."""
        return bool(self.__flags & DEF_NONLOCAL)

    def is_declared_global(self):
        """Return *True* if the symbol is declared global
        with a global statement."""
        return bool(self.__scope == GLOBAL_EXPLICIT)

    def is_local(self):
        """Return *True* if the symbol is local.
        """
        return bool(self.__scope in (LOCAL, CELL)
                    or (self.__module_scope and self.__flags & DEF_BOUND))

    def is_annotated(self):
        """Return *True* if the symbol is annotated.
        """
        return bool(self.__flags & DEF_ANNOT)

    def is_free(self):
        """Return *True* if a referenced symbol is
        not assigned to.
        """
        return bool(self.__scope == FREE)

    def is_imported(self):
        """Return *True* if the symbol is created from
        an import statement.
        """
        return bool(self.__flags & DEF_IMPORT)

    def is_assigned(self):
        """Return *True* if a symbol is assigned to."""
        return bool(self.__flags & DEF_LOCAL)

    def is_namespace(self):
        """Returns *True* if name binding introduces new namespace.

        If the name is used as the target of a function or class
        statement, this will be true.

        Note that a single name can be bound to multiple objects.  If
        is_namespace() is true, the name may also be bound to other
        objects, like an int or list, that does not introduce a new
        namespace.
        """
        return bool(self.__namespaces)

    def get_namespaces(self):
        """Return a list of namespaces bound to this name"""
        return self.__namespaces

    def get_namespace(self):
        """Return the single namespace bound to this name.

        Raises ValueError if the name is bound to multiple namespaces
        or no namespace.
        """
        if len(self.__namespaces) == 0:
            raise ValueError("name is not bound to any namespaces")
        elif len(self.__namespaces) > 1:
            raise ValueError("name is bound to multiple namespaces")
        else:
            return self.__namespaces[0]

if __name__ == "__main__":
    import os, sys
    with open(sys.argv[0]) as f:
        src = f.read()
    mod = symtable(src, os.path.split(sys.argv[0])[1], "exec")
    for ident in mod.get_identifiers():
        info = mod.lookup(ident)
        print(info, info.is_local(), info.is_namespace())
