"""Record of phased-in incompatible language changes.

Each line is of the form:

    FeatureName = "_Feature(" OptionalRelease "," MandatoryRelease ","
                              CompilerFlag ")"

where, normally, OptionalRelease < MandatoryRelease, and both are 5-tuples
of the same form as sys.version_info:

    (PY_MAJOR_VERSION, # the 2 in 2.1.0a3; an int
     PY_MINOR_VERSION, # the 1; an int
     PY_MICRO_VERSION, # the 0; an int
     PY_RELEASE_LEVEL, # "alpha", "beta", "candidate" or "final"; string
     PY_RELEASE_SERIAL # the 3; an int
    )

OptionalRelease records the first release in which

    from __future__ import FeatureName

was accepted.

In the case of MandatoryReleases that have not yet occurred,
MandatoryRelease predicts the release in which the feature will become part
of the language.

Else MandatoryRelease records when the feature became part of the language;
in releases at or after that, modules no longer need

    from __future__ import FeatureName

to use the feature in question, but may continue to use such imports.

MandatoryRelease may also be None, meaning that a planned feature got
dropped or that the release version is undetermined.

Instances of class _Feature have two corresponding methods,
.getOptionalRelease() and .getMandatoryRelease().

CompilerFlag is the (bitfield) flag that should be passed in the fourth
argument to the builtin function compile() to enable the feature in
dynamically compiled code.  This flag is stored in the .compiler_flag
attribute on _Future instances.  These values must match the appropriate
#defines of CO_xxx flags in Include/cpython/compile.h.

No feature line is ever to be deleted from this file.
"""

all_feature_names = [
    "nested_scopes",
    "generators",
    "division",
    "absolute_import",
    "with_statement",
    "print_function",
    "unicode_literals",
    "barry_as_FLUFL",
    "generator_stop",
    "annotations",
]

__all__ = ["all_feature_names"] + all_feature_names

# The CO_xxx symbols are defined here under the same names defined in
# code.h and used by compile.h, so that an editor search will find them here.
# However, they're not exported in __all__, because they don't really belong to
# this module.
CO_NESTED = 0x0010                      # nested_scopes
CO_GENERATOR_ALLOWED = 0                # generators (obsolete, was 0x1000)
CO_FUTURE_DIVISION = 0x20000            # division
CO_FUTURE_ABSOLUTE_IMPORT = 0x40000     # perform absolute imports by default
CO_FUTURE_WITH_STATEMENT = 0x80000      # with statement
CO_FUTURE_PRINT_FUNCTION = 0x100000     # print function
CO_FUTURE_UNICODE_LITERALS = 0x200000   # unicode string literals
CO_FUTURE_BARRY_AS_BDFL = 0x400000
CO_FUTURE_GENERATOR_STOP = 0x800000     # StopIteration becomes RuntimeError in generators
CO_FUTURE_ANNOTATIONS = 0x1000000       # annotations become strings at runtime


class _Feature:

    def __init__(self, optionalRelease, mandatoryRelease, compiler_flag):
        self.optional = optionalRelease
        self.mandatory = mandatoryRelease
        self.compiler_flag = compiler_flag

    def getOptionalRelease(self):
        """Return first release in which this feature was recognized.

        This is a 5-tuple, of the same form as sys.version_info.
        """
        return self.optional

    def getMandatoryRelease(self):
        """Return release in which this feature will become mandatory.

        This is a 5-tuple, of the same form as sys.version_info, or, if
        the feature was dropped, or the release date is undetermined, is None.
        """
        return self.mandatory

    def __repr__(self):
        return "_Feature" + repr((self.optional,
                                  self.mandatory,
                                  self.compiler_flag))


nested_scopes = _Feature((2, 1, 0, "beta",  1),
                         (2, 2, 0, "alpha", 0),
                         CO_NESTED)

generators = _Feature((2, 2, 0, "alpha", 1),
                      (2, 3, 0, "final", 0),
                      CO_GENERATOR_ALLOWED)

division = _Feature((2, 2, 0, "alpha", 2),
                    (3, 0, 0, "alpha", 0),
                    CO_FUTURE_DIVISION)

absolute_import = _Feature((2, 5, 0, "alpha", 1),
                           (3, 0, 0, "alpha", 0),
                           CO_FUTURE_ABSOLUTE_IMPORT)

with_statement = _Feature((2, 5, 0, "alpha", 1),
                          (2, 6, 0, "alpha", 0),
                          CO_FUTURE_WITH_STATEMENT)

print_function = _Feature((2, 6, 0, "alpha", 2),
                          (3, 0, 0, "alpha", 0),
                          CO_FUTURE_PRINT_FUNCTION)

unicode_literals = _Feature((2, 6, 0, "alpha", 2),
                            (3, 0, 0, "alpha", 0),
                            CO_FUTURE_UNICODE_LITERALS)

barry_as_FLUFL = _Feature((3, 1, 0, "alpha", 2),
                          (4, 0, 0, "alpha", 0),
                          CO_FUTURE_BARRY_AS_BDFL)

generator_stop = _Feature((3, 5, 0, "beta", 1),
                          (3, 7, 0, "alpha", 0),
                          CO_FUTURE_GENERATOR_STOP)

annotations = _Feature((3, 7, 0, "beta", 1),
                       None,
                       CO_FUTURE_ANNOTATIONS)
