"""Recognize image file formats based on their first few bytes."""

from os import PathLike
import warnings

__all__ = ["what"]


warnings._deprecated(__name__, remove=(3, 13))


#-------------------------#
# Recognize image headers #
#-------------------------#

def what(file, h=None):
    f = None
    try:
        if h is None:
            if isinstance(file, (str, PathLike)):
                f = open(file, 'rb')
                h = f.read(32)
            else:
                location = file.tell()
                h = file.read(32)
                file.seek(location)
        for tf in tests:
            res = tf(h, f)
            if res:
                return res
    finally:
        if f: f.close()
    return None


#---------------------------------#
# Subroutines per image file type #
#---------------------------------#

tests = []

def test_jpeg(h, f):
    """JPEG data with JFIF or Exif markers; and raw JPEG"""
    if h[6:10] in (b'JFIF', b'Exif'):
        return 'jpeg'
    elif h[:4] == b'\xff\xd8\xff\xdb':
        return 'jpeg'

tests.append(test_jpeg)

def test_png(h, f):
    if h.startswith(b'\211PNG\r\n\032\n'):
        return 'png'

tests.append(test_png)

def test_gif(h, f):
    """GIF ('87 and '89 variants)"""
    if h[:6] in (b'GIF87a', b'GIF89a'):
        return 'gif'

tests.append(test_gif)

def test_tiff(h, f):
    """TIFF (can be in Motorola or Intel byte order)"""
    if h[:2] in (b'MM', b'II'):
        return 'tiff'

tests.append(test_tiff)

def test_rgb(h, f):
    """SGI image library"""
    if h.startswith(b'\001\332'):
        return 'rgb'

tests.append(test_rgb)

def test_pbm(h, f):
    """PBM (portable bitmap)"""
    if len(h) >= 3 and \
        h[0] == ord(b'P') and h[1] in b'14' and h[2] in b' \t\n\r':
        return 'pbm'

tests.append(test_pbm)

def test_pgm(h, f):
    """PGM (portable graymap)"""
    if len(h) >= 3 and \
        h[0] == ord(b'P') and h[1] in b'25' and h[2] in b' \t\n\r':
        return 'pgm'

tests.append(test_pgm)

def test_ppm(h, f):
    """PPM (portable pixmap)"""
    if len(h) >= 3 and \
        h[0] == ord(b'P') and h[1] in b'36' and h[2] in b' \t\n\r':
        return 'ppm'

tests.append(test_ppm)

def test_rast(h, f):
    """Sun raster file"""
    if h.startswith(b'\x59\xA6\x6A\x95'):
        return 'rast'

tests.append(test_rast)

def test_xbm(h, f):
    """X bitmap (X10 or X11)"""
    if h.startswith(b'#define '):
        return 'xbm'

tests.append(test_xbm)

def test_bmp(h, f):
    if h.startswith(b'BM'):
        return 'bmp'

tests.append(test_bmp)

def test_webp(h, f):
    if h.startswith(b'RIFF') and h[8:12] == b'WEBP':
        return 'webp'

tests.append(test_webp)

def test_exr(h, f):
    if h.startswith(b'\x76\x2f\x31\x01'):
        return 'exr'

tests.append(test_exr)

#--------------------#
# Small test program #
#--------------------#

def test():
    import sys
    recursive = 0
    if sys.argv[1:] and sys.argv[1] == '-r':
        del sys.argv[1:2]
        recursive = 1
    try:
        if sys.argv[1:]:
            testall(sys.argv[1:], recursive, 1)
        else:
            testall(['.'], recursive, 1)
    except KeyboardInterrupt:
        sys.stderr.write('\n[Interrupted]\n')
        sys.exit(1)

def testall(list, recursive, toplevel):
    import sys
    import os
    for filename in list:
        if os.path.isdir(filename):
            print(filename + '/:', end=' ')
            if recursive or toplevel:
                print('recursing down:')
                import glob
                names = glob.glob(os.path.join(glob.escape(filename), '*'))
                testall(names, recursive, 0)
            else:
                print('*** directory (use -r) ***')
        else:
            print(filename + ':', end=' ')
            sys.stdout.flush()
            try:
                print(what(filename))
            except OSError:
                print('*** not found ***')

if __name__ == '__main__':
    test()
