"""Conversion pipeline templates.

The problem:
------------

Suppose you have some data that you want to convert to another format,
such as from GIF image format to PPM image format.  Maybe the
conversion involves several steps (e.g. piping it through compress or
uuencode).  Some of the conversion steps may require that their input
is a disk file, others may be able to read standard input; similar for
their output.  The input to the entire conversion may also be read
from a disk file or from an open file, and similar for its output.

The module lets you construct a pipeline template by sticking one or
more conversion steps together.  It will take care of creating and
removing temporary files if they are necessary to hold intermediate
data.  You can then use the template to do conversions from many
different sources to many different destinations.  The temporary
file names used are different each time the template is used.

The templates are objects so you can create templates for many
different conversion steps and store them in a dictionary, for
instance.


Directions:
-----------

To create a template:
    t = Template()

To add a conversion step to a template:
   t.append(command, kind)
where kind is a string of two characters: the first is '-' if the
command reads its standard input or 'f' if it requires a file; the
second likewise for the output. The command must be valid /bin/sh
syntax.  If input or output files are required, they are passed as
$IN and $OUT; otherwise, it must be  possible to use the command in
a pipeline.

To add a conversion step at the beginning:
   t.prepend(command, kind)

To convert a file to another file using a template:
  sts = t.copy(infile, outfile)
If infile or outfile are the empty string, standard input is read or
standard output is written, respectively.  The return value is the
exit status of the conversion pipeline.

To open a file for reading or writing through a conversion pipeline:
   fp = t.open(file, mode)
where mode is 'r' to read the file, or 'w' to write it -- just like
for the built-in function open() or for os.popen().

To create a new template object initialized to a given one:
   t2 = t.clone()
"""                                     # '


import re
import os
import tempfile
import warnings
# we import the quote function rather than the module for backward compat
# (quote used to be an undocumented but used function in pipes)
from shlex import quote

warnings._deprecated(__name__, remove=(3, 13))

__all__ = ["Template"]

# Conversion step kinds

FILEIN_FILEOUT = 'ff'                   # Must read & write real files
STDIN_FILEOUT  = '-f'                   # Must write a real file
FILEIN_STDOUT  = 'f-'                   # Must read a real file
STDIN_STDOUT   = '--'                   # Normal pipeline element
SOURCE         = '.-'                   # Must be first, writes stdout
SINK           = '-.'                   # Must be last, reads stdin

stepkinds = [FILEIN_FILEOUT, STDIN_FILEOUT, FILEIN_STDOUT, STDIN_STDOUT, \
             SOURCE, SINK]


class Template:
    """Class representing a pipeline template."""

    def __init__(self):
        """Template() returns a fresh pipeline template."""
        self.debugging = 0
        self.reset()

    def __repr__(self):
        """t.__repr__() implements repr(t)."""
        return '<Template instance, steps=%r>' % (self.steps,)

    def reset(self):
        """t.reset() restores a pipeline template to its initial state."""
        self.steps = []

    def clone(self):
        """t.clone() returns a new pipeline template with identical
        initial state as the current one."""
        t = Template()
        t.steps = self.steps[:]
        t.debugging = self.debugging
        return t

    def debug(self, flag):
        """t.debug(flag) turns debugging on or off."""
        self.debugging = flag

    def append(self, cmd, kind):
        """t.append(cmd, kind) adds a new step at the end."""
        if not isinstance(cmd, str):
            raise TypeError('Template.append: cmd must be a string')
        if kind not in stepkinds:
            raise ValueError('Template.append: bad kind %r' % (kind,))
        if kind == SOURCE:
            raise ValueError('Template.append: SOURCE can only be prepended')
        if self.steps and self.steps[-1][1] == SINK:
            raise ValueError('Template.append: already ends with SINK')
        if kind[0] == 'f' and not re.search(r'\$IN\b', cmd):
            raise ValueError('Template.append: missing $IN in cmd')
        if kind[1] == 'f' and not re.search(r'\$OUT\b', cmd):
            raise ValueError('Template.append: missing $OUT in cmd')
        self.steps.append((cmd, kind))

    def prepend(self, cmd, kind):
        """t.prepend(cmd, kind) adds a new step at the front."""
        if not isinstance(cmd, str):
            raise TypeError('Template.prepend: cmd must be a string')
        if kind not in stepkinds:
            raise ValueError('Template.prepend: bad kind %r' % (kind,))
        if kind == SINK:
            raise ValueError('Template.prepend: SINK can only be appended')
        if self.steps and self.steps[0][1] == SOURCE:
            raise ValueError('Template.prepend: already begins with SOURCE')
        if kind[0] == 'f' and not re.search(r'\$IN\b', cmd):
            raise ValueError('Template.prepend: missing $IN in cmd')
        if kind[1] == 'f' and not re.search(r'\$OUT\b', cmd):
            raise ValueError('Template.prepend: missing $OUT in cmd')
        self.steps.insert(0, (cmd, kind))

    def open(self, file, rw):
        """t.open(file, rw) returns a pipe or file object open for
        reading or writing; the file is the other end of the pipeline."""
        if rw == 'r':
            return self.open_r(file)
        if rw == 'w':
            return self.open_w(file)
        raise ValueError('Template.open: rw must be \'r\' or \'w\', not %r'
                         % (rw,))

    def open_r(self, file):
        """t.open_r(file) and t.open_w(file) implement
        t.open(file, 'r') and t.open(file, 'w') respectively."""
        if not self.steps:
            return open(file, 'r')
        if self.steps[-1][1] == SINK:
            raise ValueError('Template.open_r: pipeline ends width SINK')
        cmd = self.makepipeline(file, '')
        return os.popen(cmd, 'r')

    def open_w(self, file):
        if not self.steps:
            return open(file, 'w')
        if self.steps[0][1] == SOURCE:
            raise ValueError('Template.open_w: pipeline begins with SOURCE')
        cmd = self.makepipeline('', file)
        return os.popen(cmd, 'w')

    def copy(self, infile, outfile):
        return os.system(self.makepipeline(infile, outfile))

    def makepipeline(self, infile, outfile):
        cmd = makepipeline(infile, self.steps, outfile)
        if self.debugging:
            print(cmd)
            cmd = 'set -x; ' + cmd
        return cmd


def makepipeline(infile, steps, outfile):
    # Build a list with for each command:
    # [input filename or '', command string, kind, output filename or '']

    list = []
    for cmd, kind in steps:
        list.append(['', cmd, kind, ''])
    #
    # Make sure there is at least one step
    #
    if not list:
        list.append(['', 'cat', '--', ''])
    #
    # Take care of the input and output ends
    #
    [cmd, kind] = list[0][1:3]
    if kind[0] == 'f' and not infile:
        list.insert(0, ['', 'cat', '--', ''])
    list[0][0] = infile
    #
    [cmd, kind] = list[-1][1:3]
    if kind[1] == 'f' and not outfile:
        list.append(['', 'cat', '--', ''])
    list[-1][-1] = outfile
    #
    # Invent temporary files to connect stages that need files
    #
    garbage = []
    for i in range(1, len(list)):
        lkind = list[i-1][2]
        rkind = list[i][2]
        if lkind[1] == 'f' or rkind[0] == 'f':
            (fd, temp) = tempfile.mkstemp()
            os.close(fd)
            garbage.append(temp)
            list[i-1][-1] = list[i][0] = temp
    #
    for item in list:
        [inf, cmd, kind, outf] = item
        if kind[1] == 'f':
            cmd = 'OUT=' + quote(outf) + '; ' + cmd
        if kind[0] == 'f':
            cmd = 'IN=' + quote(inf) + '; ' + cmd
        if kind[0] == '-' and inf:
            cmd = cmd + ' <' + quote(inf)
        if kind[1] == '-' and outf:
            cmd = cmd + ' >' + quote(outf)
        item[1] = cmd
    #
    cmdlist = list[0][1]
    for item in list[1:]:
        [cmd, kind] = item[1:3]
        if item[0] == '':
            if 'f' in kind:
                cmd = '{ ' + cmd + '; }'
            cmdlist = cmdlist + ' |\n' + cmd
        else:
            cmdlist = cmdlist + '\n' + cmd
    #
    if garbage:
        rmcmd = 'rm -f'
        for file in garbage:
            rmcmd = rmcmd + ' ' + quote(file)
        trapcmd = 'trap ' + quote(rmcmd + '; exit') + ' 1 2 3 13 14 15'
        cmdlist = trapcmd + '\n' + cmdlist + '\n' + rmcmd
    #
    return cmdlist
