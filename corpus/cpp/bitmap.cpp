/*
    Title:  Bitmap.  Generally used by the garbage collector to indicate allocated words

    Copyright (c) 2006, 2012, 2017  David C.J. Matthews
       Based on original code in garbage_collect.c.

    This library is free software; you can redistribute it and/or
    modify it under the terms of the GNU Lesser General Public
    License as published by the Free Software Foundation; either
    version 2.1 of the License, or (at your option) any later version.
    
    This library is distributed in the hope that it will be useful,
    but WITHOUT ANY WARRANTY; without even the implied warranty of
    MERCHANTABILITY or FITNESS FOR A PARTICULAR PURPOSE.  See the GNU
    Lesser General Public License for more details.
    
    You should have received a copy of the GNU Lesser General Public
    License along with this library; if not, write to the Free Software
    Foundation, Inc., 51 Franklin St, Fifth Floor, Boston, MA  02110-1301  USA

*/

/*
   Bitmaps are used particularly in the garbage collector to indicate allocated
   words.  The efficiency of this code is crucial for the speed of the garbage
   collector.
*/

#ifdef HAVE_CONFIG_H
#include "config.h"
#elif defined(_WIN32)
#include "winconfig.h"
#else
#error "No configuration file"
#endif

#ifdef HAVE_ASSERT_H
#include <assert.h>
#define ASSERT(h) assert(h)
#else
#define ASSERT(h)
#endif

#ifdef HAVE_STDLIB_H
#include <stdlib.h>
#endif

#ifdef HAVE_MALLOC_H
#include <malloc.h>
#endif

#ifdef HAVE_STRING_H
#include <string.h>
#endif

#include "bitmap.h"
#include "globals.h"

bool Bitmap::Create(size_t bits)
{
    free(m_bits); // Any previous data
    size_t bytes = (bits+7) >> 3;
    m_bits = (unsigned char*)calloc(bytes, sizeof(unsigned char));
    return m_bits != 0;
}

void Bitmap::Destroy()
{
    free(m_bits);
    m_bits = 0;
}

Bitmap::~Bitmap()
{
    Destroy();
}

// Set a range of bits in a bitmap.  This checks that the bits are not already set.
void Bitmap::SetBits(uintptr_t bitno, uintptr_t length)
{
    uintptr_t byte_index = bitno >> 3;
    
    ASSERT (0 < length); // Strictly positive
    
    /* Set the first part byte */
    uintptr_t start_bit_index = bitno & 7;
    uintptr_t stop_bit_index  = start_bit_index + length;
    /* Do we need to change more than one byte? */
    if (stop_bit_index < 8)
    {
        const unsigned mask1 = 0xff << start_bit_index;
        const unsigned mask2 = 0xff << stop_bit_index;
        const unsigned mask  = mask1 & ~mask2;
        
//        ASSERT((m_bits[byte_index] & mask) == 0);
        m_bits[byte_index] |= mask;
        return;
    }
    else /* Set all the bits we can in the first byte */
    {
        const unsigned mask  = 0xff << start_bit_index;
        
//        ASSERT((m_bits[byte_index] & mask) == 0);
        m_bits[byte_index] |= mask;
        
        /* length = length - (8 - start_bit_index); */
        length = stop_bit_index - 8;
    }
    
    /* Set as many full bytes as possible */
    if (8 <= length)
    {
        memset(m_bits + byte_index + 1, 0xff, length >> 3);
        byte_index += length >> 3;
        length &= 7;
    }
    
    /* Invariant: 0 <= length < 8 */
    ASSERT(length < 8);
    if (length == 0) return;
    
    /* Invariant: 0 < length < 8 */
    
    /* Set the final part byte */
    byte_index ++;
    const unsigned mask  = 0xff & ~(0xff << length);
//    ASSERT((m_bits[byte_index] & mask) == 0);
    m_bits[byte_index] |= mask;
}

// This previously cleared whole bytes.  It now works the same as
// SetBits to clear a range of bits and is a modified version of that code.
void Bitmap::ClearBits(uintptr_t bitno, uintptr_t length)
{
    uintptr_t byte_index = bitno >> 3;
    uintptr_t start_bit_index = bitno & 7;
    uintptr_t stop_bit_index = start_bit_index + length;
    /* Do we need to change more than one byte? */
    if (stop_bit_index < 8)
    {
        const unsigned mask1 = 0xff << start_bit_index;
        const unsigned mask2 = 0xff << stop_bit_index;
        const unsigned mask = mask1 & ~mask2;
        m_bits[byte_index] &= 0xff ^ mask;
        return;
    }
    else /* Clear all the bits we can in the first byte */
    {
        const unsigned mask = 0xff << start_bit_index;
        m_bits[byte_index] &= 0xff ^ mask;
        length = stop_bit_index - 8;
    }

    /* Clear as many full bytes as possible */
    if (8 <= length)
    {
        memset(m_bits + byte_index + 1, 0, length >> 3);
        byte_index += length >> 3;
        length &= 7;
    }

    /* Invariant: 0 <= length < 8 */
    ASSERT(length < 8);
    if (length == 0) return;

    /* Invariant: 0 < length < 8 */

    /* Clear the final part byte */
    byte_index++;
    const unsigned mask = 0xff & ~(0xff << length);
    //    ASSERT((m_bits[byte_index] & mask) == 0);
    m_bits[byte_index] &= 0xff ^ mask;

}

// How many zero bits (maximum n) are there in the bitmap, starting at location start? */
uintptr_t Bitmap::CountZeroBits(uintptr_t bitno, uintptr_t n) const
{
    uintptr_t byte_index = bitno >> 3;
    unsigned bit_index  = bitno & 7;
    unsigned mask  = 1 << bit_index;
    uintptr_t zero_bits  = 0;
    ASSERT (0 < n); // Strictly positive
    
    /* Check the first part byte */
    while (mask != 0)
    {
        /* zero_bits < n */
        if ((m_bits[byte_index] & mask) != 0) return zero_bits;
        zero_bits ++;
        if (zero_bits == n) return zero_bits;
        mask = (mask << 1) & 0xff;
        /* zero_bits < n */
    }
    
    /* zero_bits < n */
    
    /* Check as many bytes as possible */
    byte_index ++;
    while (zero_bits < n && m_bits[byte_index] == 0)
    {
        zero_bits += 8;
        byte_index ++;
    }
    
    /* Check the final part byte */
    mask = 1;
    while (zero_bits < n && (m_bits[byte_index] & mask) == 0)
    {
        zero_bits ++;
        mask = (mask << 1) & 0xff;
    }
    
    return zero_bits;
}


// Search the bitmap from the high end down looking for n contiguous zeros
// Returns the value of "bitno" on failure. .
uintptr_t Bitmap::FindFree
(
  uintptr_t   limit,  /* The highest numbered bit that's too small to use */
  uintptr_t   start,  /* The lowest numbered bit that's too large to use */
  uintptr_t   n       /* The number of consecutive zero bits required */
) const
{
    if (limit + n >= start)
        return start; // Failure

    uintptr_t candidate = start - n;
    ASSERT (start > limit);
    
    while (1)
    {
        uintptr_t bits_free = CountZeroBits(candidate, n);
        
        if (n <= bits_free)
            return candidate;

        if (candidate < n - bits_free + limit)
            return start; // Failure
        
        candidate -= (n - bits_free);
    }
}

// Count the number of set bits in the bitmap.
uintptr_t Bitmap::CountSetBits(uintptr_t size) const
{
    size_t bytes = (size+7) >> 3;
    uintptr_t count = 0;
    for (size_t i = 0; i < bytes; i++)
    {
        unsigned char byte = m_bits[i];
        if (byte == 0xff) // Common case
            count += 8;
        else
        {
            while (byte != 0)
            {
                unsigned char b = byte & (-byte);
                count++;
                byte -= b;
            }
        }
    }
    return count;
}

// Find the last set bit before here.  Used to find the start of a code cell.
// Returns zero if no bit is set.
uintptr_t Bitmap::FindLastSet(uintptr_t bitno) const
{
    size_t byteno = bitno >> 3;
    // Code cells are quite long so most of the bitmap will be zero.
    if (m_bits[byteno] == 0)
    {
       do {
            if (byteno == 0) return 0;
            byteno--;
        } while (m_bits[byteno] == 0);
        bitno = (byteno << 3) + 7; // Set it to the last bit
    }
    while (bitno > 0 && ! TestBit(bitno)) bitno--;
    return bitno;
}