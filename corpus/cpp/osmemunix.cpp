/*
    Title:  osomem.cpp - Interface to OS memory management - Unix version

    Copyright (c) 2006, 2017-18, 2020-21 David C.J. Matthews

    This library is free software; you can redistribute it and/or
    modify it under the terms of the GNU Lesser General Public
    License version 2.1 as published by the Free Software Foundation.
    
    This library is distributed in the hope that it will be useful,
    but WITHOUT ANY WARRANTY; without even the implied warranty of
    MERCHANTABILITY or FITNESS FOR A PARTICULAR PURPOSE.  See the GNU
    Lesser General Public License for more details.
    
    You should have received a copy of the GNU Lesser General Public
    License along with this library; if not, write to the Free Software
    Foundation, Inc., 51 Franklin St, Fifth Floor, Boston, MA  02110-1301  USA

*/

#ifdef HAVE_CONFIG_H
#include "config.h"
#else
#error "No configuration file"
#endif

#if defined __linux__ && !defined _GNU_SOURCE
// _GNU_SOURCE must be defined before #include <fcntl.h> to get O_TEMPFILE etc.
#define _GNU_SOURCE 1
#endif

#ifdef HAVE_SYS_TYPES_H
#include <sys/types.h>
#endif

#ifdef HAVE_SYS_MMAN_H
#include <sys/mman.h>
#endif

#ifdef HAVE_ASSERT_H
#include <assert.h>
#define ASSERT(x)   assert(x)
#else
#define ASSERT(x)
#endif

#ifdef HAVE_UNISTD_H
#include <unistd.h>
#endif

#ifdef HAVE_SYS_PARAM_H
#include <sys/param.h>
#endif

#ifdef HAVE_ERRNO_H
#include <errno.h>
#endif

#ifdef HAVE_STDLIB_H
#include <stdlib.h>
#endif

#ifdef HAVE_SYS_STAT_H
#include <sys/stat.h>
#endif

#ifdef HAVE_FCNTL_H
#include <fcntl.h>
#endif

// Linux prefers MAP_ANONYMOUS to MAP_ANON
#ifndef MAP_ANON
#ifdef MAP_ANONYMOUS
#define MAP_ANON MAP_ANONYMOUS
#endif
#endif

// Assume that mmap is supported.  If it isn't we can't run.

#include "osmem.h"
#include "bitmap.h"
#include "locking.h"
#include "polystring.h" // For TempCString

// How do we get the page size?
#ifndef HAVE_GETPAGESIZE
#ifdef _SC_PAGESIZE
#define getpagesize() sysconf(_SC_PAGESIZE)
#else
// If this fails we're stuck
#define getpagesize() PAGESIZE
#endif
#endif

#ifdef SOLARIS
#define FIXTYPE (caddr_t)
#else
#define FIXTYPE
#endif

// Open a temporary file, unlink it and return the file descriptor.
static int openTmpFile(const char* dirName)
{
#ifdef O_TMPFILE
    int flags = 0;
#ifdef O_CLOEXEC
    flags |= O_CLOEXEC;
#endif
    int tfd = open(dirName, flags | O_TMPFILE | O_RDWR | O_EXCL, 0700);
    if (tfd != -1)
        return tfd;
#endif
    const char* template_subdir = "/mlMapXXXXXX";
    TempString buff((char*)malloc(strlen(dirName) + strlen(template_subdir) + 1));
    if (buff == 0) return -1; // Unable to allocate
    strcpy(buff, dirName);
    strcat(buff, template_subdir);
    int fd = mkstemp(buff);
    if (fd == -1) return -1;
    unlink(buff);
    return fd;
}

static int createTemporaryFile()
{
    char *tmpDir = getenv("TMPDIR");
    int fd;
    if (tmpDir != NULL)
    {
        fd = openTmpFile(tmpDir);
        if (fd != -1) return fd;
    }
#ifdef P_tmpdir
    fd = openTmpFile(P_tmpdir);
    if (fd != -1) return fd;
#endif
    fd = openTmpFile("/tmp");
    if (fd != -1) return fd;
    fd = openTmpFile("/var/tmp");
    if (fd != -1) return fd;

    return -1;
}

OSMem::OSMem()
{
    wxFix = WXFixNone;
    shadowFd = -1;
}

OSMem::~OSMem()
{
    if (shadowFd != -1) close(shadowFd);
}

// Initialise and test whether we need to use special handling for
// code areas.
bool OSMem::Initialise(enum _MemUsage usage)
{
    memUsage = usage;
    pageSize = getpagesize();
    if (usage != UsageExecutableCode)
        wxFix = WXFixNone;
    else
    {
        // Can we allocate memory with write+execute?
        void* test = mmap(0, pageSize, PROT_READ | PROT_WRITE | PROT_EXEC, MAP_PRIVATE | MAP_ANON, -1, 0);
        if (test != MAP_FAILED)
            wxFix = WXFixNone;
#ifdef MAP_JIT
        if (test == MAP_FAILED)
        {
            test = mmap(0, pageSize, PROT_READ | PROT_WRITE | PROT_EXEC, MAP_PRIVATE | MAP_ANON | MAP_JIT, -1, 0);
            if (test != MAP_FAILED)
                wxFix = WXFixMapJit;
        }
#endif
        if (test == MAP_FAILED)
        {
            if (errno != ENOTSUP && errno != EACCES) // Fails with ENOTSUPP on OpenBSD and EACCES in SELinux.
                return false;
            // Check that read-write works.
            test = mmap(0, pageSize, PROT_READ | PROT_WRITE, MAP_PRIVATE | MAP_ANON, -1, 0);
            if (test == MAP_FAILED)
                return false; // There's a problem.
            wxFix = WXFixDualArea;
        }
        if (test != MAP_FAILED)
            munmap(FIXTYPE test, pageSize);
    }

    if (wxFix == WXFixDualArea)
    {
        shadowFd = createTemporaryFile();
        if (shadowFd == -1)
            return false;
    }
    return true;
}

bool OSMemInRegion::Initialise(enum _MemUsage usage, size_t space /* = 0 */, void** pBase /* = 0 */)
{
    if (!OSMem::Initialise(usage))
        return false;
    
    if (wxFix != WXFixDualArea)
    {
        // Don't require shadow area.  Can use mmap
        int flags = MAP_PRIVATE | MAP_ANON;
#ifdef MAP_JIT
        // If we have to use MAP_JIT on Mac OS we need to allocate the area at the start.
        // Anything else causes problems when we actually try to allocate the pages.
        if (usage == UsageExecutableCode && wxFix == WXFixMapJit)
            memBase = (char*)mmap(0, space, PROT_READ|PROT_WRITE|PROT_EXEC, flags | MAP_JIT, -1, 0);
        else
#endif
        memBase = (char*)mmap(0, space, PROT_NONE, flags, -1, 0);
        if (memBase == MAP_FAILED) return false;
        // We need the heap to be such that the top 32-bits are non-zero.
        if ((uintptr_t)memBase < ((uintptr_t)1 << 32))
        {
            // Allocate again.
            void* newSpace = mmap(0, space, PROT_NONE, MAP_PRIVATE | MAP_ANON, -1, 0);
            munmap(FIXTYPE memBase, space); // Free the old area that isn't suitable.
            // Return what we got, or zero if it failed.
            memBase = (char*)newSpace;
        }
        shadowBase = memBase;
    }
    else
    {
        if (ftruncate(shadowFd, space) == -1) return false;
        void *readWrite = mmap(0, space, PROT_NONE, MAP_SHARED, shadowFd, 0);
        if (readWrite == MAP_FAILED) return 0;
        memBase = (char*)mmap(0, space, PROT_NONE, MAP_SHARED, shadowFd, 0);
        if (memBase == MAP_FAILED)
        {
            munmap(FIXTYPE readWrite, space);
            return false;
        }
        // This should be above 32-bits.
        ASSERT((uintptr_t)memBase >= ((uintptr_t)1 << 32));
        shadowBase = (char*)readWrite;
    }

    if (pBase != 0) *pBase = memBase;

    // Create a bitmap with a bit for each page.
    if (!pageMap.Create(space / pageSize))
        return false;
    lastAllocated = space / pageSize; // Beyond the last page in the area
    // Set the last bit in the area so that we don't use it.
    // This is effectively a work-around for a problem with the heap.
    // If we have a zero-sized cell at the end of the memory its address is
    // going to be zero.  This causes problems with forwarding pointers.
    // There may be better ways of doing this.
    pageMap.SetBit(space / pageSize - 1);
    return true;
}

void* OSMemInRegion::AllocateDataArea(size_t& space)
{
    char* baseAddr;
    {
        PLocker l(&bitmapLock);
        uintptr_t pages = (space + pageSize - 1) / pageSize;
        // Round up to an integral number of pages.
        space = pages * pageSize;
        // Find some space
        while (pageMap.TestBit(lastAllocated - 1)) // Skip the wholly allocated area.
            lastAllocated--;
        uintptr_t free = pageMap.FindFree(0, lastAllocated, pages);
        if (free == lastAllocated)
            return 0; // Can't find the space.
        pageMap.SetBits(free, pages);
        // TODO: Do we need to zero this?  It may have previously been set.
        baseAddr = memBase + free * pageSize;
    }
    int prot = PROT_READ | PROT_WRITE;
    int flags = MAP_FIXED | MAP_PRIVATE | MAP_ANON;
#if defined(MAP_STACK) && defined(__OpenBSD__)
    // On OpenBSD the stack must be mapped with MAP_STACK otherwise it
    // segfaults.  On FreeBSD, though, this isn't necessary and causes problems.
    if (memUsage == UsageStack) flags |= MAP_STACK;
#endif
    if (mmap(baseAddr, space, prot, flags, -1, 0) == MAP_FAILED)
        return 0;
    msync(baseAddr, space, MS_SYNC | MS_INVALIDATE);
    return baseAddr;
}

bool OSMemInRegion::FreeDataArea(void* p, size_t space)
{
    char* addr = (char*)p;
    uintptr_t offset = (addr - memBase) / pageSize;
    // Remap the pages as new entries.  This should remove the old versions.
    if (mmap(p, space, PROT_NONE, MAP_FIXED | MAP_PRIVATE | MAP_ANON, -1, 0) == MAP_FAILED)
        return false;
    msync(p, space, MS_SYNC | MS_INVALIDATE);
    uintptr_t pages = space / pageSize;
    {
        PLocker l(&bitmapLock);
        pageMap.ClearBits(offset, pages);
        if (offset + pages > lastAllocated) // We allocate from the top down.
            lastAllocated = offset + pages;
    }
    return true;
}

void* OSMemInRegion::AllocateCodeArea(size_t& space, void*& shadowArea)
{
    uintptr_t offset;
    {
        PLocker l(&bitmapLock);
        uintptr_t pages = (space + pageSize - 1) / pageSize;
        // Round up to an integral number of pages.
        space = pages * pageSize;
        // Find some space
        while (pageMap.TestBit(lastAllocated - 1)) // Skip the wholly allocated area.
            lastAllocated--;
        uintptr_t free = pageMap.FindFree(0, lastAllocated, pages);
        if (free == lastAllocated)
            return 0; // Can't find the space.
        pageMap.SetBits(free, pages);
        offset = free * pageSize;
    }
    
    if (wxFix != WXFixDualArea)
    {
        char *baseAddr = memBase + offset;
        int prot = PROT_READ | PROT_WRITE;
        if (memUsage == UsageExecutableCode) prot |= PROT_EXEC;
        if (wxFix == WXFixMapJit && memUsage == UsageExecutableCode)
        {
            // We can't use MAP_FIXED here because MAP_JIT|MAP_FIXED is not allowed.
            // mprotect also seems to fail in strange ways so the only alternative
            // is to allocate the whole area at the start.
        }
        else
        {
            // Enable the pages with mmap.  The idea is that if we no longer want the pages
            // we don't care about their previous contents and if we map that area again we're
            // happy if they are zeroed.
            // On Cygwin, at least, the mmap call fails and we need to use mprotect.
            if (mmap(baseAddr, space, prot, MAP_FIXED | MAP_PRIVATE | MAP_ANON, -1, 0) == MAP_FAILED &&
                mprotect(baseAddr, space, prot) != 0)
                return 0;
        }
        msync(baseAddr, space, MS_SYNC | MS_INVALIDATE);
        shadowArea = baseAddr;
        return baseAddr;
    }
    else
    {
        char *baseAddr = memBase + offset;
        char *readWriteArea = shadowBase + offset;
        if (mmap(baseAddr, space, PROT_READ|PROT_EXEC, MAP_FIXED | MAP_SHARED, shadowFd, offset) == MAP_FAILED)
            return 0;
        msync(baseAddr, space, MS_SYNC | MS_INVALIDATE);
        if (mmap(readWriteArea, space, PROT_READ|PROT_WRITE, MAP_FIXED | MAP_SHARED, shadowFd, offset) == MAP_FAILED)
            return 0;
        msync(readWriteArea, space, MS_SYNC | MS_INVALIDATE);
        shadowArea = readWriteArea;
        return baseAddr;
    }
}

bool OSMemInRegion::FreeCodeArea(void* codeAddr, void* dataAddr, size_t space)
{
    // Free areas by mapping them with PROT_NONE.
    uintptr_t offset = ((char*)codeAddr - memBase) / pageSize;
    if (wxFix != WXFixDualArea)
    {
        if (wxFix == WXFixMapJit && memUsage == UsageExecutableCode)
            mprotect(codeAddr, space, PROT_NONE);
        else mmap(codeAddr, space, PROT_NONE, MAP_FIXED | MAP_PRIVATE | MAP_ANON, -1, 0);
        msync(codeAddr, space, MS_SYNC | MS_INVALIDATE);
    }
    else
    {
        mmap(codeAddr, space, PROT_NONE, MAP_SHARED, shadowFd, offset);
        msync(codeAddr, space, MS_SYNC | MS_INVALIDATE);
        mmap(dataAddr, space, PROT_NONE, MAP_SHARED, shadowFd, offset);
        msync(dataAddr, space, MS_SYNC | MS_INVALIDATE);
    }
    uintptr_t pages = space / pageSize;
    {
        PLocker l(&bitmapLock);
        pageMap.ClearBits(offset, pages);
        if (offset + pages > lastAllocated) // We allocate from the top down.
            lastAllocated = offset + pages;
    }
    return true;
}

bool OSMemInRegion::EnableWrite(bool enable, void* p, size_t space)
{
    int res = mprotect(FIXTYPE p, space, enable ? PROT_READ|PROT_WRITE: PROT_READ);
    return res != -1;
}

bool OSMemInRegion::DisableWriteForCode(void* codeAddr, void* dataAddr, size_t space)
{
    int prot = PROT_READ;
    if (memUsage == UsageExecutableCode) prot |= PROT_EXEC;
    int res = mprotect(FIXTYPE codeAddr, space, prot);
    return res != -1;
}

// Native address versions

// Allocate space and return a pointer to it.  The size is the minimum
// size requested and it is updated with the actual space allocated.
// Returns NULL if it cannot allocate the space.
void *OSMemUnrestricted::AllocateDataArea(size_t &space)
{
    // Round up to an integral number of pages.
    space = (space + pageSize-1) & ~(pageSize-1);
    int fd = -1; // This value is required by FreeBSD.  Linux doesn't care
    int flags = MAP_PRIVATE | MAP_ANON;
#if defined(MAP_STACK) && defined(__OpenBSD__)
    // On OpenBSD the stack must be mapped with MAP_STACK otherwise it
    // segfaults.  On FreeBSD, though, this isn't necessary and causes problems.
    if (memUsage == UsageStack) flags |= MAP_STACK;
#endif
    void *result = mmap(0, space, PROT_READ|PROT_WRITE, flags, fd, 0);
    // Convert MAP_FAILED (-1) into NULL
    if (result == MAP_FAILED)
        return 0;
    return result;
}

// Release the space previously allocated.  This must free the whole of
// the segment.  The space must be the size actually allocated.
bool OSMemUnrestricted::FreeDataArea(void *p, size_t space)
{
    return munmap(FIXTYPE p, space) == 0;
}

bool OSMemUnrestricted::EnableWrite(bool enable, void* p, size_t space)
{
    int res = mprotect(FIXTYPE p, space, enable ? PROT_READ|PROT_WRITE: PROT_READ);
    return res != -1;
}

void *OSMemUnrestricted::AllocateCodeArea(size_t &space, void*& shadowArea)
{
    // Round up to an integral number of pages.
    space = (space + pageSize-1) & ~(pageSize-1);

    if (shadowFd == -1)
    {
        int prot = PROT_READ | PROT_WRITE;
        if (memUsage == UsageExecutableCode)
            prot |= PROT_EXEC;
        void *result = mmap(0, space, prot, MAP_PRIVATE|MAP_ANON, -1, 0);
#ifdef MAP_JIT
        if (result == MAP_FAILED && memUsage == UsageExecutableCode)
            result = mmap(0, space, prot, MAP_PRIVATE|MAP_ANON|MAP_JIT, -1, 0);
#endif
        // Convert MAP_FAILED (-1) into NULL
        if (result == MAP_FAILED)
            return 0;
        shadowArea = result;
        return result;
    }

    // Have to use dual areas.
    size_t allocAt;
    {
        PLocker lock(&allocLock);
        allocAt = allocPtr;
        allocPtr += space;
    }
    if (ftruncate(shadowFd, allocAt + space) == -1)
        return 0;
    void *readExec = mmap(0, space, PROT_READ|PROT_EXEC, MAP_SHARED, shadowFd, allocAt);
    if (readExec == MAP_FAILED)
        return 0;
    void *readWrite = mmap(0, space, PROT_READ|PROT_WRITE, MAP_SHARED, shadowFd, allocAt);
    if (readWrite == MAP_FAILED)
    {
        munmap(FIXTYPE readExec, space);
        return 0;
    }
    shadowArea = readWrite;
    return readExec;
}

bool OSMemUnrestricted::FreeCodeArea(void *codeArea, void *dataArea, size_t space)
{
    bool freeCode = munmap(FIXTYPE codeArea, space) == 0;
    if (codeArea == dataArea) return freeCode;
    return (munmap(FIXTYPE dataArea, space) == 0) & freeCode;
}

bool OSMemUnrestricted::DisableWriteForCode(void* codeAddr, void* dataAddr, size_t space)
{
    int prot = PROT_READ;
    if (memUsage == UsageExecutableCode) prot |= PROT_EXEC;
    int res = mprotect(FIXTYPE codeAddr, space, prot);
    return res != -1;
}
