/*
 * This file is part of the source code of the software program
 * Vampire. It is protected by applicable
 * copyright laws.
 *
 * This source code is distributed under the licence found here
 * https://vprover.github.io/license.html
 * and in the source directory
 */
/**
 * @file Environment.cpp
 * Implements environment used by the current prover.
 *
 * @since 06/05/2007 Manchester
 */

#include "Debug/Tracer.hpp"

#include "Lib/Sys/SyncPipe.hpp"

#include "Indexing/TermSharing.hpp"

#include "Kernel/Signature.hpp"
#include "Kernel/OperatorType.hpp"

#include "Shell/Options.hpp"
#include "Shell/Statistics.hpp"

#include "Timer.hpp"

#include "Environment.hpp"

namespace Lib
{

using namespace std;
using namespace Kernel;
using namespace Indexing;
using namespace Shell;

/**
 * @since 06/05/2007 Manchester
 */
Environment::Environment()
  : signature(0),
    sharing(0),
    property(0),
    maxSineLevel(1),
    predicateSineLevels(nullptr),
    colorUsed(false),
    _outputDepth(0),
    _priorityOutput(0),
    _pipe(0)
{
  START_CHECKING_FOR_ALLOCATOR_BYPASSES;


  options = new Options;

  // statistics calls the timer
  timer = Timer::instance();
  timer->start();

  statistics = new Statistics;  
  signature = new Signature;
  sharing = new TermSharing;
  property = new Property;

  //view comment in Signature.cpp
  signature->addEquality();
  // These functions are called here in order to ensure the order
  // of creation of these sorts. The order is VITAL. 
  //
  // A number of places in the code rely on the type constructor for
  // $i being 0, that for $o being 1 and so on.
  AtomicSort::defaultSort();
  AtomicSort::boolSort();
  AtomicSort::intSort();
  AtomicSort::realSort();
  AtomicSort::rationalSort();
} // Environment::Environment

Environment::~Environment()
{
  CALL("Environment::~Environment");

  Timer::setLimitEnforcement(false);

  //in the usual cases the _outputDepth should be zero at this point, but in case of
  //thrown exceptions this might not be true.
//  ASS_EQ(_outputDepth,0);

  while(_outputDepth!=0) {
    endOutput();
  }

// #if CHECK_LEAKS
  delete sharing;
  delete signature;
  delete statistics;
  delete property;
  if (predicateSineLevels) delete predicateSineLevels;
  {
    BYPASSING_ALLOCATOR; // use of std::function in options
    delete options;
  }
// #endif
}

/**
 * If the global time limit reached set Statistics::terminationReason
 * to TIME_LIMIT and return true, otherwise return false.
 * @since 25/03/2008 Torrevieja
 */
bool Environment::timeLimitReached() const
{
  CALL("Environment::timeLimitReached");

  if (options->timeLimitInDeciseconds() &&
      timer->elapsedDeciseconds() > options->timeLimitInDeciseconds()) {
    statistics->terminationReason = Shell::Statistics::TIME_LIMIT;
    Timer::setLimitEnforcement(false);
    return true;
  }
  return false;
} // Environment::timeLimitReached

/**
 * Return remaining time in miliseconds.
 */
int Environment::remainingTime() const
{
  // If time limit is set to 0 then assume we always have an hour left
  if(options->timeLimitInDeciseconds() == 0){
    return 3600000;
  }
  return options->timeLimitInDeciseconds()*100 - timer->elapsedMilliseconds();
}

/**
 * Acquire an output stream
 *
 * A process cannot hold an output stream during forking.
 */
void Environment::beginOutput()
{
  CALL("Environment::beginOutput");
  ASS_GE(_outputDepth,0);

  _outputDepth++;
  if(_outputDepth==1 && _pipe) {
    _pipe->acquireWrite();
  }
}

/**
 * Release the output stream
 */
void Environment::endOutput()
{
  CALL("Environment::endOutput");
  ASS_G(_outputDepth,0);

  _outputDepth--;
  if(_outputDepth==0) {
    if(_pipe) {
      cout.flush();
      _pipe->releaseWrite();
    }
    else {
      cout.flush();
    }
  }
}

/**
 * Return true if we have an output stream acquired
 */
bool Environment::haveOutput()
{
  CALL("Environment::haveOutput");

  return _outputDepth;
}

/**
 * Return the output stream if we have it acquired
 *
 * Process must have an output stream acquired in order to call
 * this function.
 */
ostream& Environment::out()
{
  CALL("Environment::out");
  ASS(_outputDepth);

  if(_priorityOutput) {
    return *_priorityOutput;
  }
  else if(_pipe) {
    return _pipe->out();
  }
  else {
    return cout;
  }
}

/**
 * Direct @b env.out() into @b pipe or to @b cout if @b pipe is zero
 *
 * This function cannot be called when an output is in progress.
 */
void Environment::setPipeOutput(SyncPipe* pipe)
{
  CALL("Environment::setPipeOutput");
  ASS(!haveOutput());

  _pipe=pipe;
}

void Environment::setPriorityOutput(ostream* stm)
{
  CALL("Environment::setPriorityOutput");
  ASS(!_priorityOutput || !stm);

  _priorityOutput=stm;

}

// global environment object, constructed before main() and used everywhere
Environment env;
}
