/*
    Title:      Multi-Threaded Garbage Collector

    Copyright (c) 2010-12, 2019, 2020 David C. J. Matthews

    Based on the original garbage collector code
        Copyright 2000-2008
        Cambridge University Technical Services Limited

    This library is free software; you can redistribute it and/or
    modify it under the terms of the GNU Lesser General Public
    License as published by the Free Software Foundation; either
    version 2.1 of the License, or (at your option) any later version.

    This library is distributed in the hope that it will be useful,
    but WITHOUT ANY WARRANTY; without even the implied warranty of
    MERCHANTABILITY or FITNESS FOR A PARTICULAR PURPOSE.  See the GNU
    Lesser General Public License for more details.

    You should have received a copy of the GNU Lesser General Public
    License along with this library; if not, write to the Free Software
    Foundation, Inc., 51 Franklin St, Fifth Floor, Boston, MA  02110-1301  USA

*/
#ifdef HAVE_CONFIG_H
#include "config.h"
#elif defined(_WIN32)
#include "winconfig.h"
#else
#error "No configuration file"
#endif

#ifdef HAVE_ASSERT_H
#include <assert.h>
#define ASSERT(x)   assert(x)
#else
#define ASSERT(x)
#endif

#include "globals.h"
#include "run_time.h"
#include "machine_dep.h"
#include "diagnostics.h"
#include "processes.h"
#include "timing.h"
#include "gc.h"
#include "scanaddrs.h"
#include "check_objects.h"
#include "osmem.h"
#include "bitmap.h"
#include "rts_module.h"
#include "memmgr.h"
#include "gctaskfarm.h"
#include "mpoly.h"
#include "statistics.h"
#include "profiling.h"
#include "heapsizing.h"
#include "gc_progress.h"

static GCTaskFarm gTaskFarm; // Global task farm.
GCTaskFarm *gpTaskFarm = &gTaskFarm;

// If the GC converts a weak ref from SOME to NONE it sets this ref.  It can be
// cleared by the signal handler thread.  There's no need for a lock since it
// is only set during GC and only cleared when not GCing.
bool convertedWeak = false;

/*
    How the garbage collector works.
    The GC has two phases.  The minor (quick) GC is a copying collector that
    copies data from the allocation area into the mutable and immutable area.
    The major collector is started when either the mutable or the immutable
    area is full.  The major collector uses a mark/sweep scheme.
    The GC has three phases:

    1.  Mark phase.
    Working from the roots; which are the the permanent mutable segments and
    the RTS roots (e.g. thread stacks), mark all reachable cells.
    Marking involves setting bits in the bitmap for reachable words.

    2. Compact phase.
    Marked objects are copied to try to compact, upwards, the heap segments.  When
    an object is moved the length word of the object in the old location is set as
    a tombstone that points to its new location.  In particular this means that we
    cannot reuse the space where an object previously was during the compaction phase.
    Immutable objects are moved into immutable segments.  When an object is moved
    to a new location the bits are set in the bitmap as though the object had been
    marked at that location.

    3. Update phase.
    The roots and objects marked during the first two phases are scanned and any
    addresses for moved objects are updated.  The lowest address used in the area
    then becomes the base of the area for future allocations.

    There is a sharing phase which may be performed before the mark phase.  This
    merges immutable cells with the same contents with the aim of reducing the
    size of the live data.  It is expensive so is not performed by default.

    Updated DCJM 12/06/12

*/
static bool doGC(const POLYUNSIGNED wordsRequiredToAllocate)
{
    gHeapSizeParameters.RecordAtStartOfMajorGC();
    gHeapSizeParameters.RecordGCTime(HeapSizeParameters::GCTimeStart);
    globalStats.incCount(PSC_GC_FULLGC);

    // Remove any empty spaces.  There will not normally be any except
    // if we have triggered a full GC as a result of detecting paging in the
    // minor GC but in that case we want to try to stop the system writing
    // out areas that are now empty.
    gMem.RemoveEmptyLocals();

    if (debugOptions & DEBUG_GC)
        Log("GC: Full GC, %lu words required %" PRI_SIZET " spaces\n", wordsRequiredToAllocate, gMem.lSpaces.size());

    if (debugOptions & DEBUG_HEAPSIZE)
        gMem.ReportHeapSizes("Full GC (before)");

    // Data sharing pass.
    if (gHeapSizeParameters.PerformSharingPass())
    {
        globalStats.incCount(PSC_GC_SHARING);
        GCSharingPhase();
    }

    gcProgressBeginMajorGC(); // The GC sharing phase is treated separately

/*
 * There is a really weird bug somewhere.  An extra bit may be set in the bitmap during
 * the mark phase.  It seems to be related to heavy swapping activity.  Duplicating the
 * bitmap causes it to occur only in one copy and write-protecting the bitmap apart from
 * when it is actually being updated does not result in a seg-fault.  So far I've only
 * seen it on 64-bit Linux but it may be responsible for other crashes.  The work-around
 * is to check the number of bits set in the bitmap and repeat the mark phase if it does
 * not match.
 */
    
    for (unsigned p = 3; p > 0; p--)
    {
        for(std::vector<LocalMemSpace*>::iterator i = gMem.lSpaces.begin(); i < gMem.lSpaces.end(); i++)
        {
            LocalMemSpace *lSpace = *i;
            ASSERT (lSpace->top >= lSpace->upperAllocPtr);
            ASSERT (lSpace->upperAllocPtr >= lSpace->lowerAllocPtr);
            ASSERT (lSpace->lowerAllocPtr >= lSpace->bottom);
            // Set upper and lower limits of weak refs.
            lSpace->highestWeak = lSpace->bottom;
            lSpace->lowestWeak = lSpace->top;
            lSpace->fullGCLowerLimit = lSpace->top;
            // Put dummy objects in the unused space.  This allows
            // us to scan over the whole of the space.
            gMem.FillUnusedSpace(lSpace->lowerAllocPtr,
                lSpace->upperAllocPtr-lSpace->lowerAllocPtr);
        }

        // Set limits of weak refs.
        for (std::vector<PermanentMemSpace*>::iterator i = gMem.pSpaces.begin(); i < gMem.pSpaces.end(); i++)
        {
            PermanentMemSpace *pSpace = *i;
            pSpace->highestWeak = pSpace->bottom;
            pSpace->lowestWeak = pSpace->top;
        }

        /* Mark phase */
        GCMarkPhase();
        
        uintptr_t bitCount = 0, markCount = 0;
        
        for (std::vector<LocalMemSpace*>::iterator i = gMem.lSpaces.begin(); i < gMem.lSpaces.end(); i++)
        {
            LocalMemSpace *lSpace = *i; 
            markCount += lSpace->i_marked + lSpace->m_marked;
            bitCount += lSpace->bitmap.CountSetBits(lSpace->spaceSize());
        }
        
        if (markCount == bitCount)
            break;
        else
        {
            // Report an error.  If this happens again we crash.
            Log("GC: Count error mark count %lu, bitCount %lu\n", markCount, bitCount);
            if (p == 1)
            {
                ASSERT(markCount == bitCount);
            }
        }
    }
    for(std::vector<LocalMemSpace*>::iterator i = gMem.lSpaces.begin(); i < gMem.lSpaces.end(); i++)
    {
        LocalMemSpace *lSpace = *i;
        // Reset the allocation pointers.  They will be set to the
        // limits of the retained data.
#ifdef POLYML32IN64
        lSpace->lowerAllocPtr = lSpace->bottom+1; // Must be odd-word aligned
        lSpace->lowerAllocPtr[-1] = PolyWord::FromUnsigned(0);
#else
        lSpace->lowerAllocPtr = lSpace->bottom;
#endif
        lSpace->upperAllocPtr = lSpace->top;
    }

	gcProgressSetPercent(25);

    if (debugOptions & DEBUG_GC) Log("GC: Check weak refs\n");
    /* Detect unreferenced streams, windows etc. */
    GCheckWeakRefs();
	gcProgressSetPercent(50);

    // Check that the heap is not overfull.  We make sure the marked
    // mutable and immutable data is no more than 90% of the
    // corresponding areas.  This is a very coarse adjustment.
    {
        uintptr_t iMarked = 0, mMarked = 0;
        uintptr_t iSpace = 0, mSpace = 0;
        for (std::vector<LocalMemSpace*>::iterator i = gMem.lSpaces.begin(); i < gMem.lSpaces.end(); i++)
        {
            LocalMemSpace *lSpace = *i;
            iMarked += lSpace->i_marked;
            mMarked += lSpace->m_marked;
            if (! lSpace->allocationSpace)
            {
                if (lSpace->isMutable)
                    mSpace += lSpace->spaceSize();
                else
                    iSpace += lSpace->spaceSize();
            }
        }
        // Add space if necessary and possible.
        while (iMarked > iSpace - iSpace/10 && gHeapSizeParameters.AddSpaceBeforeCopyPhase(false) != 0)
            iSpace += gMem.DefaultSpaceSize();
        while (mMarked > mSpace - mSpace/10 && gHeapSizeParameters.AddSpaceBeforeCopyPhase(true) != 0)
            mSpace += gMem.DefaultSpaceSize();
    }

    /* Compact phase */
    GCCopyPhase();

    gHeapSizeParameters.RecordGCTime(HeapSizeParameters::GCTimeIntermediate, "Copy");
	gcProgressSetPercent(75);

    // Update Phase.
    if (debugOptions & DEBUG_GC) Log("GC: Update\n");
    GCUpdatePhase();

    gHeapSizeParameters.RecordGCTime(HeapSizeParameters::GCTimeIntermediate, "Update");

    {
        uintptr_t iUpdated = 0, mUpdated = 0, iMarked = 0, mMarked = 0;
        for(std::vector<LocalMemSpace*>::iterator i = gMem.lSpaces.begin(); i < gMem.lSpaces.end(); i++)
        {
            LocalMemSpace *lSpace = *i;
            iMarked += lSpace->i_marked;
            mMarked += lSpace->m_marked;
            if (lSpace->isMutable)
                mUpdated += lSpace->updated;
            else
                iUpdated += lSpace->updated;
        }
        ASSERT(iUpdated+mUpdated == iMarked+mMarked);
    }

    // Delete empty spaces.
    gMem.RemoveEmptyLocals();

    if (debugOptions & DEBUG_GC_ENHANCED)
    {
        for(std::vector<LocalMemSpace*>::iterator i = gMem.lSpaces.begin(); i < gMem.lSpaces.end(); i++)
        {
            LocalMemSpace *lSpace = *i;
            Log("GC: %s space %p %" PRI_SIZET " free in %" PRI_SIZET " words %2.1f%% full\n", lSpace->spaceTypeString(),
                lSpace, lSpace->freeSpace(), lSpace->spaceSize(),
                ((float)lSpace->allocatedSpace()) * 100 / (float)lSpace->spaceSize());
        }
    }

    // Compute values for statistics
    globalStats.setSize(PSS_AFTER_LAST_GC, 0);
    globalStats.setSize(PSS_AFTER_LAST_FULLGC, 0);
    globalStats.setSize(PSS_ALLOCATION, 0);
    globalStats.setSize(PSS_ALLOCATION_FREE, 0);

    for (std::vector<LocalMemSpace*>::iterator i = gMem.lSpaces.begin(); i < gMem.lSpaces.end(); i++)
    {
        LocalMemSpace *space = *i;
        uintptr_t free = space->freeSpace();
        globalStats.incSize(PSS_AFTER_LAST_GC, free*sizeof(PolyWord));
        globalStats.incSize(PSS_AFTER_LAST_FULLGC, free*sizeof(PolyWord));
        if (space->allocationSpace)
        {
            if (space->allocatedSpace() > space->freeSpace()) // It's more than half full
                gMem.ConvertAllocationSpaceToLocal(space);
            else
            {
                globalStats.incSize(PSS_ALLOCATION, free*sizeof(PolyWord));
                globalStats.incSize(PSS_ALLOCATION_FREE, free*sizeof(PolyWord));
            }
        }
#ifdef FILL_UNUSED_MEMORY
        memset(space->bottom, 0xaa, (char*)space->upperAllocPtr - (char*)space->bottom);
#endif
        if (debugOptions & DEBUG_GC_ENHANCED)
            Log("GC: %s space %p %" PRI_SIZET " free in %" PRI_SIZET " words %2.1f%% full\n", space->spaceTypeString(),
                space, space->freeSpace(), space->spaceSize(),
                ((float)space->allocatedSpace()) * 100 / (float)space->spaceSize());
    }

    // End of garbage collection
    gHeapSizeParameters.RecordGCTime(HeapSizeParameters::GCTimeEnd);

    // Now we've finished we can adjust the heap sizes.
    gHeapSizeParameters.AdjustSizeAfterMajorGC(wordsRequiredToAllocate);
    gHeapSizeParameters.resetMajorTimingData();

    bool haveSpace = gMem.CheckForAllocation(wordsRequiredToAllocate);

    // Invariant: the bitmaps are completely clean.
    if (debugOptions & DEBUG_GC)
    {
        if (haveSpace)
            Log("GC: Completed successfully\n");
        else Log("GC: Completed with insufficient space\n");
    }

    if (debugOptions & DEBUG_HEAPSIZE)
        gMem.ReportHeapSizes("Full GC (after)");

//    if (profileMode == kProfileLiveData || profileMode == kProfileLiveMutables)
//        printprofile();

    CheckMemory();

    return haveSpace; // Completed
}

// Create the initial heap.  hsize, isize and msize are the requested heap sizes
// from the user arguments in units of kbytes.
// Fills in the defaults and attempts to allocate the heap.  If the heap size
// is too large it allocates as much as it can.  The default heap size is half the
// physical memory.
void CreateHeap()
{
    // Create an initial allocation space.
    if (gMem.CreateAllocationSpace(gMem.DefaultSpaceSize()) == 0)
        Exit("Insufficient memory to allocate the heap");

    // Create the task farm if required
    if (userOptions.gcthreads != 1)
    {
        if (! gTaskFarm.Initialise(userOptions.gcthreads, 100))
            Crash("Unable to initialise the GC task farm");
    }
    // Set up the stacks for the mark phase.
    initialiseMarkerTables();
}

class FullGCRequest: public MainThreadRequest
{
public:
    FullGCRequest(): MainThreadRequest(MTP_GCPHASEMARK) {}
    virtual void Perform()
    {
        doGC (0);
    }
};

class QuickGCRequest: public MainThreadRequest
{
public:
    QuickGCRequest(POLYUNSIGNED words): MainThreadRequest(MTP_GCPHASEMARK), wordsRequired(words) {}

    virtual void Perform()
    {
        result =
#ifndef DEBUG_ONLY_FULL_GC
// If DEBUG_ONLY_FULL_GC is defined then we skip the partial GC.
            RunQuickGC(wordsRequired) ||
#endif
            doGC (wordsRequired);
    }

    bool result;
    POLYUNSIGNED wordsRequired;
};

// Perform a full garbage collection.  This is called either from ML via the full_gc RTS call
// or from various RTS functions such as open_file to try to recover dropped file handles.
void FullGC(TaskData *taskData)
{
    FullGCRequest request;
    processes->MakeRootRequest(taskData, &request);

    if (convertedWeak)
        // Notify the signal thread to broadcast on the condition var when
        // the GC is complete.  We mustn't call SignalArrived within the GC
        // because it locks schedLock and the main GC thread already holds schedLock.
        processes->SignalArrived();
}

// This is the normal call when memory is exhausted and we need to garbage collect.
bool QuickGC(TaskData *taskData, POLYUNSIGNED wordsRequiredToAllocate)
{
    QuickGCRequest request(wordsRequiredToAllocate);
    processes->MakeRootRequest(taskData, &request);

    if (convertedWeak)
        processes->SignalArrived();

    return request.result;
}

// Called in RunShareData.  This is called as a root function
void FullGCForShareCommonData(void)
{
    doGC(0);
}

// RTS module for the GC.  Only used for ForkChild.
class GarbageCollectModule : public RtsModule
{
public:
    virtual void ForkChild(void);
};

// Set single threaded mode. This is only used in a child process after
// Posix fork in case there is a GC before the exec.
void GarbageCollectModule::ForkChild(void)
{
    gpTaskFarm->SetSingleThreaded();
    initialiseMarkerTables();
}

// Declare this.  It will be automatically added to the table.
static GarbageCollectModule gcModule;
