/*
    Title:  poly_specific.cpp - Poly/ML specific RTS calls.

    Copyright (c) 2006, 2015-17, 2019, 2021 David C. J. Matthews

    This library is free software; you can redistribute it and/or
    modify it under the terms of the GNU Lesser General Public
    License version 2.1 as published by the Free Software Foundation.
    
    This library is distributed in the hope that it will be useful,
    but WITHOUT ANY WARRANTY; without even the implied warranty of
    MERCHANTABILITY or FITNESS FOR A PARTICULAR PURPOSE.  See the GNU
    Lesser General Public License for more details.
    
    You should have received a copy of the GNU Lesser General Public
    License along with this library; if not, write to the Free Software
    Foundation, Inc., 51 Franklin St, Fifth Floor, Boston, MA  02110-1301  USA

*/

/* This module is used for various run-time calls that are either in the
   PolyML structure or otherwise specific to Poly/ML. */

#ifdef HAVE_CONFIG_H
#include "config.h"
#elif defined(_WIN32)
#include "winconfig.h"
#else
#error "No configuration file"
#endif

#ifdef HAVE_ASSERT_H
#include <assert.h>
#define ASSERT(x) assert(x)
#else
#define ASSERT(x) 0
#endif

#ifdef HAVE_STRING_H
#include <string.h>
#endif

#include "globals.h"
#include "poly_specific.h"
#include "arb.h"
#include "mpoly.h"
#include "sys.h"
#include "machine_dep.h"
#include "polystring.h"
#include "run_time.h"
#include "version.h"
#include "save_vec.h"
#include "version.h"
#include "memmgr.h"
#include "processes.h"
#include "gc.h"
#include "rtsentry.h"
#include "scanaddrs.h" // For SetConstantValue

extern "C" {
    POLYEXTERNALSYMBOL POLYUNSIGNED PolySpecificGeneral(POLYUNSIGNED threadId, POLYUNSIGNED code, POLYUNSIGNED arg);
    POLYEXTERNALSYMBOL POLYUNSIGNED PolyGetABI();
    POLYEXTERNALSYMBOL POLYUNSIGNED PolyLockMutableClosure(POLYUNSIGNED threadId, POLYUNSIGNED closure);
    POLYEXTERNALSYMBOL POLYUNSIGNED PolyCopyByteVecToClosure(POLYUNSIGNED threadId, POLYUNSIGNED byteVec, POLYUNSIGNED closure);
    POLYEXTERNALSYMBOL POLYUNSIGNED PolySetCodeConstant(POLYUNSIGNED closure, POLYUNSIGNED offset, POLYUNSIGNED c, POLYUNSIGNED flags);
    POLYEXTERNALSYMBOL POLYUNSIGNED PolyGetCodeConstant(POLYUNSIGNED closure, POLYUNSIGNED offset, POLYUNSIGNED flags);
    POLYEXTERNALSYMBOL POLYUNSIGNED PolySetCodeByte(POLYUNSIGNED closure, POLYUNSIGNED offset, POLYUNSIGNED c);
    POLYEXTERNALSYMBOL POLYUNSIGNED PolyGetCodeByte(POLYUNSIGNED closure, POLYUNSIGNED offset);
    POLYEXTERNALSYMBOL POLYUNSIGNED PolySortArrayOfAddresses(POLYUNSIGNED array);
    POLYEXTERNALSYMBOL POLYUNSIGNED PolyGetHeapBase(POLYUNSIGNED threadId);
    POLYEXTERNALSYMBOL POLYUNSIGNED PolyTest4(POLYUNSIGNED threadId, POLYUNSIGNED arg1, POLYUNSIGNED arg2, POLYUNSIGNED arg3, POLYUNSIGNED arg4);
    POLYEXTERNALSYMBOL POLYUNSIGNED PolyTest5(POLYUNSIGNED threadId, POLYUNSIGNED arg1, POLYUNSIGNED arg2, POLYUNSIGNED arg3, POLYUNSIGNED arg4, POLYUNSIGNED arg5);
}

#define SAVE(x) taskData->saveVec.push(x)

#ifndef GIT_VERSION
#define GIT_VERSION             ""
#endif


Handle poly_dispatch_c(TaskData *taskData, Handle args, Handle code)
{
    unsigned c = get_C_unsigned(taskData, DEREFWORD(code));
    switch (c)
    {
    case 9: // Return the GIT version if appropriate
        {
             return SAVE(C_string_to_Poly(taskData, GIT_VERSION));
        }

    case 10: // Return the RTS version string.
        {
            const char *version;
            switch (machineDependent->MachineArchitecture())
            {
            case MA_Interpreted:    version = "Portable-" TextVersion; break;
            case MA_I386:           version = "I386-" TextVersion; break;
            case MA_X86_64:         version = "X86_64-" TextVersion; break;
            case MA_X86_64_32:      version = "X86_64_32-" TextVersion; break;
            case MA_Arm64:          version = "Arm64-" TextVersion; break;
            case MA_Arm64_32:       version = "Arm64_32-" TextVersion; break;
            default:                version = "Unknown-" TextVersion; break;
            }
            return SAVE(C_string_to_Poly(taskData, version));
        }

    case 12: // Return the architecture
        // Used in InitialPolyML.ML for PolyML.architecture
        {
            const char *arch;
            switch (machineDependent->MachineArchitecture())
            {
            case MA_Interpreted:    arch = "Interpreted"; break;
            case MA_I386:           arch = "I386"; break;
            case MA_X86_64:         arch = "X86_64"; break;
            case MA_X86_64_32:      arch = "X86_64_32"; break;
            case MA_Arm64:          arch = "Arm64"; break;
            case MA_Arm64_32:       arch = "Arm64_32"; break;
            default:                arch = "Unknown"; break;
            }
            return SAVE(C_string_to_Poly(taskData, arch));
        }

    case 19: // Return the RTS argument help string.
        return SAVE(C_string_to_Poly(taskData, RTSArgHelp()));

    default:
        {
            char msg[100];
            sprintf(msg, "Unknown poly-specific function: %d", c);
            raise_exception_string(taskData, EXC_Fail, msg);
            return 0;
        }
    }
}

// General interface to poly-specific.  Ideally the various cases will be made into
// separate functions.
POLYUNSIGNED PolySpecificGeneral(POLYUNSIGNED threadId, POLYUNSIGNED code, POLYUNSIGNED arg)
{
    TaskData *taskData = TaskData::FindTaskForId(threadId);
    ASSERT(taskData != 0);
    taskData->PreRTSCall();
    Handle reset = taskData->saveVec.mark();
    Handle pushedCode = taskData->saveVec.push(code);
    Handle pushedArg = taskData->saveVec.push(arg);
    Handle result = 0;

    try {
        result = poly_dispatch_c(taskData, pushedArg, pushedCode);
    } catch (...) { } // If an ML exception is raised

    taskData->saveVec.reset(reset);
    taskData->PostRTSCall();
    if (result == 0) return TAGGED(0).AsUnsigned();
    else return result->Word().AsUnsigned();
}

// Return the ABI - i.e. the calling conventions used when calling external functions.
POLYEXTERNALSYMBOL POLYUNSIGNED PolyGetABI()
{
    // Return the ABI.  For 64-bit we need to know if this is Windows.
#if (SIZEOF_VOIDP == 8)
#if (defined(_WIN32) || defined(__CYGWIN__))
    return TAGGED(2).AsUnsigned(); // 64-bit Windows
#else
    return TAGGED(1).AsUnsigned(); // 64-bit Unix
#endif
#else
    return TAGGED(0).AsUnsigned(); // 32-bit Unix and Windows
#endif
}

// Code generation - Code is initially allocated in a byte segment.  When all the
// values have been set apart from any addresses the byte segment is copied into
// a mutable code segment.

// Copy the byte vector into code space.
POLYUNSIGNED PolyCopyByteVecToClosure(POLYUNSIGNED threadId, POLYUNSIGNED byteVec, POLYUNSIGNED closure)
{
    TaskData *taskData = TaskData::FindTaskForId(threadId);
    ASSERT(taskData != 0);
    taskData->PreRTSCall();
    Handle reset = taskData->saveVec.mark();
    Handle pushedByteVec = taskData->saveVec.push(byteVec);
    Handle pushedClosure = taskData->saveVec.push(closure);
    PolyObject *result = 0;

#ifdef HAVE_PTHREAD_JIT_WRITE_PROTECT_NP
    pthread_jit_write_protect_np(false);
#endif

    try {
        if (!pushedByteVec->WordP()->IsByteObject())
            raise_fail(taskData, "Not byte data area");
        if (pushedClosure->WordP()->Length() != sizeof(PolyObject*)/sizeof(PolyWord))
            raise_fail(taskData, "Invalid closure size");
        if (!pushedClosure->WordP()->IsMutable())
            raise_fail(taskData, "Closure is not mutable");
        do {
            PolyObject *initCell = pushedByteVec->WordP();
            POLYUNSIGNED requiredSize = initCell->Length();
            result = gMem.AllocCodeSpace(requiredSize);
            if (result == 0)
            {
                // Could not allocate - must GC.
                if (!QuickGC(taskData, pushedByteVec->WordP()->Length()))
                    raise_fail(taskData, "Insufficient memory");
            }
            else memcpy(gMem.SpaceForObjectAddress(result)->writeAble((byte*)result), initCell, requiredSize * sizeof(PolyWord));
        } while (result == 0);
    }
    catch (...) {} // If an ML exception is raised

    // Store the code address in the closure.
    *((PolyObject**)pushedClosure->WordP()) = result;
    // Lock the closure.
    pushedClosure->WordP()->SetLengthWord(pushedClosure->WordP()->LengthWord() & ~_OBJ_MUTABLE_BIT);

#ifdef HAVE_PTHREAD_JIT_WRITE_PROTECT_NP
    pthread_jit_write_protect_np(true);
#endif

    taskData->saveVec.reset(reset);
    taskData->PostRTSCall();
    return TAGGED(0).AsUnsigned();
}

// Code generation - Lock a mutable code segment and return the original address.
// Currently this does not allocate so other than the exception it could
// be a fast call.
POLYEXTERNALSYMBOL POLYUNSIGNED PolyLockMutableClosure(POLYUNSIGNED threadId, POLYUNSIGNED closure)
{
    TaskData *taskData = TaskData::FindTaskForId(threadId);
    ASSERT(taskData != 0);
    taskData->PreRTSCall();
    Handle reset = taskData->saveVec.mark();
    PolyObject *codeObj = *(PolyObject**)(PolyWord::FromUnsigned(closure).AsObjPtr());

#ifdef HAVE_PTHREAD_JIT_WRITE_PROTECT_NP
    pthread_jit_write_protect_np(false);
#endif

    try {
        if (!codeObj->IsCodeObject() || !codeObj->IsMutable())
            raise_fail(taskData, "Not mutable code area");
        POLYUNSIGNED segLength = codeObj->Length();
        gMem.SpaceForObjectAddress(codeObj)->writeAble(codeObj)->SetLengthWord(segLength, F_CODE_OBJ);
        // Flush cache on ARM at least.
        machineDependent->FlushInstructionCache(codeObj, segLength * sizeof(PolyWord));
        // In the future it may be necessary to return a different address here.
        // N.B.  The code area should only have execute permission in the native
        // code version, not the interpreted version.
    }
    catch (...) {} // If an ML exception is raised

#ifdef HAVE_PTHREAD_JIT_WRITE_PROTECT_NP
    pthread_jit_write_protect_np(true);
#endif

    taskData->saveVec.reset(reset);
    taskData->PostRTSCall();
    return TAGGED(0).AsUnsigned();
}

// Set code constant.  This can be a fast call.
// This is in the RTS both because we pass a closure in here and cannot have
// code addresses in 32-in-64 and also because we need to ensure there is no
// possibility of a GC while the code is an inconsistent state.
POLYUNSIGNED PolySetCodeConstant(POLYUNSIGNED closure, POLYUNSIGNED offset, POLYUNSIGNED cWord, POLYUNSIGNED flags)
{
    byte *startCode;
#ifdef HAVE_PTHREAD_JIT_WRITE_PROTECT_NP
    pthread_jit_write_protect_np(false);
#endif

    // Previously we passed the code address in here and we need to
    // retain that for legacy code.  This is now the closure.
    if (PolyWord::FromUnsigned(closure).AsObjPtr()->IsCodeObject())
        startCode = PolyWord::FromUnsigned(closure).AsCodePtr();
    else startCode = *(POLYCODEPTR*)(PolyWord::FromUnsigned(closure).AsObjPtr());
    // startCode is the start of the code segment.
    // c will usually be an address.
    // offset is a byte offset
    byte* instrAddr = startCode + PolyWord::FromUnsigned(offset).UnTaggedUnsigned();
    byte* writeable = gMem.SpaceForAddress(instrAddr)->writeAble(instrAddr);
    switch (UNTAGGED(PolyWord::FromUnsigned(flags)))
    {
        case 0: // Absolute constant - size PolyWord
        {
            POLYUNSIGNED c = PolyWord::FromUnsigned(cWord).AsUnsigned();
#ifdef WORDS_BIGENDIAN
            // This is used to store constants in the constant area
            // on the interpreted version. 
            for (unsigned i = sizeof(PolyWord); i > 0; i--)
            {
                writeable[i-1] = (byte)(c & 255);
                c >>= 8;
            }
#else
            for (unsigned i = 0; i < sizeof(PolyWord); i++)
            {
                writeable[i] = (byte)(c & 255);
                c >>= 8;
            }
#endif
            break;
        }
        case 1: // Relative constant - X86 - size 4 bytes
        {
            // The offset is relative to the END of the constant.
            byte *target;
            // In 32-in-64 we pass in the closure address here
            // rather than the code address.
            if (PolyWord::FromUnsigned(cWord).AsObjPtr()->IsCodeObject())
                target = PolyWord::FromUnsigned(cWord).AsCodePtr();
            else target = *(POLYCODEPTR*)(PolyWord::FromUnsigned(cWord).AsObjPtr());
            size_t c = target - instrAddr - 4;
            for (unsigned i = 0; i < 4; i++)
            {
                writeable[i] = (byte)(c & 255);
                c >>= 8;
            }
            break;
        }
        case 2: // Absolute constant - size uintptr_t
            // This is the same as case 0 except in 32-in-64 when
            // it is an absolute address rather than an object pointer.
        {
            uintptr_t c = (uintptr_t)(PolyWord::FromUnsigned(cWord).AsObjPtr());
            for (unsigned i = 0; i < sizeof(uintptr_t); i++)
            {
                writeable[i] = (byte)(c & 255);
                c >>= 8;
            }
            break;
        }
        case 3: // ARM64 ADRP + LDR64
            // These don't actually put a constant into the code.  Instead
            // they set the instruction pair to an offset in the current code
            // segment.
        {
            uintptr_t c = (uintptr_t)startCode + PolyWord::FromUnsigned(cWord).UnTaggedUnsigned();
            ScanAddress::SetConstantValue(instrAddr, (PolyObject*)c, PROCESS_RELOC_ARM64ADRPLDR64);
            break;
        }
        case 4: // ARM64 ADRP + LDR32
        {
            uintptr_t c = (uintptr_t)startCode + PolyWord::FromUnsigned(cWord).UnTaggedUnsigned();
            ScanAddress::SetConstantValue(instrAddr, (PolyObject*)c, PROCESS_RELOC_ARM64ADRPLDR32);
            break;
        }
        case 5: // ARM64 ADRP + ADD
        {
            uintptr_t c = (uintptr_t)startCode + PolyWord::FromUnsigned(cWord).UnTaggedUnsigned();
            ScanAddress::SetConstantValue(instrAddr, (PolyObject*)c, PROCESS_RELOC_ARM64ADRPADD);
            break;
        }
    }

#ifdef HAVE_PTHREAD_JIT_WRITE_PROTECT_NP
    pthread_jit_write_protect_np(true);
#endif

    return TAGGED(0).AsUnsigned();
}

// Get a code constant.  This is only used for debugging.
POLYUNSIGNED PolyGetCodeConstant(POLYUNSIGNED closure, POLYUNSIGNED offset, POLYUNSIGNED flags)
{
    byte* pointer = *(POLYCODEPTR*)(PolyWord::FromUnsigned(closure).AsObjPtr());
    // offset is a byte offset
    pointer += PolyWord::FromUnsigned(offset).UnTaggedUnsigned();
    switch (UNTAGGED(PolyWord::FromUnsigned(flags)))
    {
    case 0: // Absolute constant - size PolyWord
    {
        POLYUNSIGNED c = 0;
#ifdef WORDS_BIGENDIAN
        for (unsigned i = 0; i < sizeof(PolyWord); i++)
            c = (c << 8) | pointer[i];
#else
        for (unsigned i = sizeof(PolyWord); i > 0; i--)
            c = (c << 8) | pointer[i-1];
#endif
        return c;
    }
    }
    // For the moment just handle that case.
    return TAGGED(0).AsUnsigned();
}

// Set a code byte.  This needs to be in the RTS because it uses the closure
POLYEXTERNALSYMBOL POLYUNSIGNED PolySetCodeByte(POLYUNSIGNED closure, POLYUNSIGNED offset, POLYUNSIGNED cWord)
{
    byte *pointer = *(POLYCODEPTR*)(PolyWord::FromUnsigned(closure).AsObjPtr());
    byte* writable = gMem.SpaceForAddress(pointer)->writeAble(pointer);
    writable[UNTAGGED_UNSIGNED(PolyWord::FromUnsigned(offset))] = (byte)UNTAGGED_UNSIGNED(PolyWord::FromUnsigned(cWord));
    return TAGGED(0).AsUnsigned();
}

POLYEXTERNALSYMBOL POLYUNSIGNED PolyGetCodeByte(POLYUNSIGNED closure, POLYUNSIGNED offset)
{
    byte *pointer = *(POLYCODEPTR*)(PolyWord::FromUnsigned(closure).AsObjPtr());
    return TAGGED(pointer[UNTAGGED_UNSIGNED(PolyWord::FromUnsigned(offset))]).AsUnsigned();
}

static int compare(const void *a, const void *b)
{
    PolyWord *av = (PolyWord*)a;
    PolyWord *bv = (PolyWord*)b;
    if ((*av).IsTagged() || (*bv).IsTagged()) return 0; // Shouldn't happen
    PolyObject *ao = (*av).AsObjPtr(), *bo = (*bv).AsObjPtr();
    if (ao->Length() < 1 || bo->Length() < 1) return 0; // Shouldn't happen
    if (ao->Get(0).AsUnsigned() < bo->Get(0).AsUnsigned())
        return -1;
    if (ao->Get(0).AsUnsigned() > bo->Get(0).AsUnsigned())
        return 1;
    return 0;
}

// Sort an array of addresses.  This is used in the code-generator to search for
// duplicates in the address area.  The argument is an array of pairs.  The first
// item of each pair is an address, the second is an identifier of some kind.
POLYEXTERNALSYMBOL POLYUNSIGNED PolySortArrayOfAddresses(POLYUNSIGNED array)
{
    if (!PolyWord::FromUnsigned(array).IsDataPtr()) return(TAGGED(0)).AsUnsigned();
    PolyObject *arrayP = PolyWord::FromUnsigned(array).AsObjPtr();
    POLYUNSIGNED numberOfItems = arrayP->Length();
    if (!arrayP->IsMutable()) return(TAGGED(0)).AsUnsigned();
    qsort(arrayP, numberOfItems, sizeof(PolyWord), compare);
    return (TAGGED(1)).AsUnsigned();
}

// Return the value of globalHeapBase as a SysWord value.
// This is used in just one place: when compiling an FFI callback stub in ARM 32-in-64.
POLYEXTERNALSYMBOL POLYUNSIGNED PolyGetHeapBase(POLYUNSIGNED threadId)
{
    TaskData* taskData = TaskData::FindTaskForId(threadId);
    ASSERT(taskData != 0);
    taskData->PreRTSCall();
    Handle result = 0;

    try {
#ifdef POLYML32IN64
        result = Make_sysword(taskData, (uintptr_t)globalHeapBase);
#else
        result = Make_sysword(taskData, 0);
#endif
    }
    catch (...) {} // If an ML exception is raised

    taskData->PostRTSCall();
    if (result == 0) return TAGGED(0).AsUnsigned();
    else return result->Word().AsUnsigned();
}

POLYEXTERNALSYMBOL POLYUNSIGNED PolyTest4(POLYUNSIGNED threadId, POLYUNSIGNED arg1, POLYUNSIGNED arg2, POLYUNSIGNED arg3, POLYUNSIGNED arg4)
{
    switch (PolyWord::FromUnsigned(arg1).UnTaggedUnsigned())
    {
    case 1: return arg1;
    case 2: return arg2;
    case 3: return arg3;
    case 4: return arg4;
    default: return TAGGED(0).AsUnsigned();
    }
}

POLYEXTERNALSYMBOL POLYUNSIGNED PolyTest5(POLYUNSIGNED threadId, POLYUNSIGNED arg1, POLYUNSIGNED arg2, POLYUNSIGNED arg3, POLYUNSIGNED arg4, POLYUNSIGNED arg5)
{
    switch (PolyWord::FromUnsigned(arg1).UnTaggedUnsigned())
    {
    case 1: return arg1;
    case 2: return arg2;
    case 3: return arg3;
    case 4: return arg4;
    case 5: return arg5;
    default: return TAGGED(0).AsUnsigned();
    }

}


struct _entrypts polySpecificEPT[] =
{
    { "PolySpecificGeneral",            (polyRTSFunction)&PolySpecificGeneral},
    { "PolyGetABI",                     (polyRTSFunction)&PolyGetABI },
    { "PolyCopyByteVecToClosure",       (polyRTSFunction)&PolyCopyByteVecToClosure },
    { "PolyLockMutableClosure",         (polyRTSFunction)&PolyLockMutableClosure },
    { "PolySetCodeConstant",            (polyRTSFunction)&PolySetCodeConstant },
    { "PolyGetCodeConstant",            (polyRTSFunction)&PolyGetCodeConstant },
    { "PolySetCodeByte",                (polyRTSFunction)&PolySetCodeByte },
    { "PolyGetCodeByte",                (polyRTSFunction)&PolyGetCodeByte },
    { "PolySortArrayOfAddresses",       (polyRTSFunction)&PolySortArrayOfAddresses },
    { "PolyGetHeapBase",                (polyRTSFunction)&PolyGetHeapBase },
    { "PolyTest4",                      (polyRTSFunction)&PolyTest4 },
    { "PolyTest5",                      (polyRTSFunction)&PolyTest5 },

    { NULL, NULL} // End of list.
};
