/*
 * This file is part of the source code of the software program
 * Vampire. It is protected by applicable
 * copyright laws.
 *
 * This source code is distributed under the licence found here
 * https://vprover.github.io/license.html
 * and in the source directory
 */
/**
 * @file System.cpp
 * Wrappers of some system functions and methods that take care of the
 * system stuff and don't fit anywhere else (handling signals etc...)
 */

#include "Portability.hpp"

#include <csignal>
#include <fstream>
#include <thread>

// TODO these should probably be guarded
// for getpid, _exit
#include <unistd.h>
// for listing directory items
// C++17: use std::filesystem
#include <dirent.h>

#ifdef __linux__
#include <sys/prctl.h>
#endif

#include "Debug/Tracer.hpp"

#include "Shell/Options.hpp"
#include "Shell/Statistics.hpp"
#include "Shell/UIHelper.hpp"

#include "Environment.hpp"

#include "System.hpp"

unsigned Lib::System::getNumberOfCores()
{
  return std::thread::hardware_concurrency();
}

namespace Lib {

bool System::s_shouldIgnoreSIGINT = false;
bool System::s_shouldIgnoreSIGHUP = false;
const char* System::s_argv0 = 0;

const char* signalToString (int sigNum)
{
  switch (sigNum)
    {
    case SIGTERM:
      return "SIGTERM";
# ifndef _MSC_VER
    case SIGQUIT:
      return "SIGQUIT";
    case SIGHUP:
      return "SIGHUP";
    case SIGXCPU:
      return "SIGXCPU";
    case SIGBUS:
      return "SIGBUS";
    case SIGTRAP:
      return "SIGTRAP";
# endif
    case SIGINT:
      return "SIGINT";
    case SIGILL:
      return "SIGILL";
    case SIGFPE:
      return "SIGFPE";
    case SIGSEGV:
      return "SIGSEGV";
    case SIGABRT:
      return "SIGABRT";
    default:
      return "UNKNOWN SIGNAL";
    }
} // signalToString


/**
 * Signal handling function. Rewritten from the kernel standalone.
 *
 * @param sigNum signal number
 * @since 28/06/2003 Manchester, statistics result registration added
 */
void handleSignal (int sigNum)
{
  CALL("System::handleSignal");

  // true if a terminal signal has been handled already.
  // to avoid catching signals over and over again
  static bool handled = false;
  static bool haveSigInt = false;
  const char* signalDescription = signalToString(sigNum);

  switch (sigNum)
    {
    case SIGTERM:
# ifndef _MSC_VER
    case SIGQUIT:
      if (handled) {
	System::terminateImmediately(haveSigInt ? VAMP_RESULT_STATUS_SIGINT : VAMP_RESULT_STATUS_OTHER_SIGNAL);
      }
      handled = true;
      if(Shell::outputAllowed(true)) {
	if(env.options) {
	  env.beginOutput();
	  env.out() << "Aborted by signal " << signalDescription << " on " << env.options->inputFile() << "\n";
	  env.endOutput();
	} else {
	  cout << "Aborted by signal " << signalDescription << "\n";
	}
      }
      return;
    case SIGXCPU:
      if(Shell::outputAllowed(true)) {
	if(env.options) {
	  env.beginOutput();
	  env.out() << "External time out (SIGXCPU) on " << env.options->inputFile() << "\n";
	  env.endOutput();
	} else {
	  cout << "External time out (SIGXCPU)\n";
	}
      }
      System::terminateImmediately(VAMP_RESULT_STATUS_OTHER_SIGNAL);
      break;
# endif

    case SIGINT:
      if(System::shouldIgnoreSIGINT()) {
	return;
      }
      haveSigInt=true;
//      exit(0);
//      return;

    case SIGHUP:
      if(System::shouldIgnoreSIGHUP()) {
  return;
      }
    case SIGILL:
    case SIGFPE:
    case SIGSEGV:

# ifndef _MSC_VER
    case SIGBUS:
    case SIGTRAP:
# endif
    case SIGABRT:
      {
	if (handled) {
	  System::terminateImmediately(haveSigInt ? VAMP_RESULT_STATUS_SIGINT : VAMP_RESULT_STATUS_OTHER_SIGNAL);
	}
	Shell::reportSpiderFail();
	handled = true;
	if(Shell::outputAllowed()) {
	  if(env.options && env.statistics) {
	    env.beginOutput();
	    env.out() << getpid() << " Aborted by signal " << signalDescription << " on " << env.options->inputFile() << "\n";
	    env.statistics->print(env.out());
#if VDEBUG
	    Debug::Tracer::printStack(env.out());
#endif
	    env.endOutput();
	  } else {
	    cout << getpid() << "Aborted by signal " << signalDescription << "\n";
#if VDEBUG
	    Debug::Tracer::printStack(cout);
#endif
	  }
	}
	System::terminateImmediately(haveSigInt ? VAMP_RESULT_STATUS_SIGINT : VAMP_RESULT_STATUS_OTHER_SIGNAL);
      }

    default:
      break;
    }
} // handleSignal

void System::setSignalHandlers()
{
  signal(SIGTERM,handleSignal);
  signal(SIGINT,handleSignal);
  signal(SIGILL,handleSignal);
  signal(SIGFPE,handleSignal);
  signal(SIGSEGV,handleSignal);
  signal(SIGABRT,handleSignal);

#ifndef _MSC_VER
  signal(SIGQUIT,handleSignal);
  signal(SIGHUP,handleSignal);
  signal(SIGXCPU,handleSignal);
  signal(SIGBUS,handleSignal);
  signal(SIGTRAP,handleSignal);
#endif

  errno=0;
  // ensure that termination handlers are created _before_ the atexit() call
  // C++ then guarantees that the array is destructed _after_ onTermination
  terminationHandlersArray();
  int res=atexit(onTermination);
  if(res==-1) {
    SYSTEM_FAIL("Call of atexit() function in System::setSignalHandlers failed.", errno);
  }
  ASS_EQ(res,0);
}

/**
 * Function that returns a reference to an array that contains
 * lists of termination handlers
 *
 * Using a function with a static variable inside is a way to ensure
 * that no matter how early we want to register a termination
 * handler, the array will be constructed.
 */
ZIArray<List<VoidFunc>*>& System::terminationHandlersArray()
{
  CALL("System::initializationHandlersArray");

  static ZIArray<List<VoidFunc>*> arr(2);
  return arr;
}

/**
 * Ensure that @b proc will be called before termination of the process.
 * Functions added with lower @b priority will be called first.
 *
 * We try to cover all possibilities how the process may terminate, but
 * some are probably impossible (such as receiving the signal 9). In these
 * cases the @b proc function is not called.
 */
void System::addTerminationHandler(VoidFunc proc, unsigned priority)
{
  CALL("System::addTerminationHandler");

  VoidFuncList::push(proc, terminationHandlersArray()[priority]);
}

/**
 * This function should be called as the last thing on every path that leads
 * to a process termination.
 */
void System::onTermination()
{
  CALL("System::onTermination");

  static bool called=false;
  if(called) {
    return;
  }
  called=true;

  auto handlers = terminationHandlersArray();
  size_t sz=handlers.size();
  for(size_t i=0;i<sz;i++) {
    VoidFuncList::Iterator thIter(handlers[i]);
    while(thIter.hasNext()) {
      VoidFunc func=thIter.next();
      func();
    }
  }
}

void System::terminateImmediately(int resultStatus)
{
  CALL("System::terminateImmediately");

  onTermination();
  _exit(resultStatus);
}

/**
 * Make sure that the process will receive the SIGHUP signal
 * when its parent process dies
 *
 * This setting is not passed to the child processes created by fork().
 */
void System::registerForSIGHUPOnParentDeath()
{
#ifdef __linux__
  prctl(PR_SET_PDEATHSIG, SIGHUP);
#endif
}

vstring System::extractFileNameFromPath(vstring str)
{
  CALL("System::extractFileNameFromPath");

  size_t index=str.find_last_of("\\/")+1;
  if(index==vstring::npos) {
    return str;
  }
  return vstring(str, index);
}

/**
 * If directory name can be extracted from @c path, assign it into
 * @c dir and return true; otherwise return false.
 *
 * The directory name is extracted without the final '/'.
 */
bool System::extractDirNameFromPath(vstring path, vstring& dir)
{
  CALL("System::extractDirNameFromPath");

  size_t index=path.find_last_of("\\/");
  if(index==vstring::npos) {
    return false;
  }
  dir = path.substr(0, index);
  return true;
}

bool System::fileExists(vstring fname)
{
  CALL("System::fileExists");
  BYPASSING_ALLOCATOR;

  ifstream ifile(fname.c_str());
  return ifile.good();
}

// C++17: use std::filesystem
void System::readDir(vstring dirName, Stack<vstring>& filenames)
{
  CALL("System::readDir");

  DIR *dirp;
  struct dirent *dp;

  static Stack<vstring> todo;
  ASS(todo.isEmpty());
  todo.push(dirName);

  while (todo.isNonEmpty()) {
    vstring dir = todo.pop();

    dirp = opendir(dir.c_str());
    
    if (!dirp) {
      // cout << "Cannot open dir " << dir << endl;
      continue;
    }
    
    while ((dp = readdir(dirp)) != NULL) {
      if (strncmp(dp->d_name, ".", 1) == 0) {
        continue;
      }
      if (strncmp(dp->d_name, "..", 2) == 0) {
        continue;
      }

      switch (dp->d_type) {
        case DT_REG:
          filenames.push(dir+"/"+dp->d_name);
          break;
        case DT_DIR:
          // cout << "seen dir " << dp->d_name << endl;
          todo.push(dir+"/"+dp->d_name);
          break;
        default:
          ;
          // cout << "weird file type" << endl;
      }
    }
    (void)closedir(dirp);
  }

  todo.reset();
}

};
