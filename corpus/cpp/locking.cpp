/*
    Title:      Mutex and Condition Variable library.

    Copyright (c) 2007, 2012, 2015, 2019 David C. J. Matthews

    This library is free software; you can redistribute it and/or
    modify it under the terms of the GNU Lesser General Public
    License version 2.1 as published by the Free Software Foundation.
    
    This library is distributed in the hope that it will be useful,
    but WITHOUT ANY WARRANTY; without even the implied warranty of
    MERCHANTABILITY or FITNESS FOR A PARTICULAR PURPOSE.  See the GNU
    Lesser General Public License for more details.
    
    You should have received a copy of the GNU Lesser General Public
    License along with this library; if not, write to the Free Software
    Foundation, Inc., 51 Franklin St, Fifth Floor, Boston, MA  02110-1301  USA

*/

#ifdef HAVE_CONFIG_H
#include "config.h"
#elif defined(_WIN32)
#include "winconfig.h"
#else
#error "No configuration file"
#endif

#if (!defined(_WIN32))
// Configure requires pthread unless this is native Windows.
#include <pthread.h>
#else
#include <windows.h>
#endif

#ifdef HAVE_ERRNO_H
#include <errno.h>
#endif

#ifdef HAVE_SYS_TIME_H
#include <sys/time.h>
#endif

#ifdef HAVE_TIME_H
#include <time.h>
#endif

#if (defined(HAVE_SEMAPHORE_H) && !defined(_WIN32))
// Don't include semaphore.h on Mingw.  It's provided but doesn't compile.
#include <semaphore.h>
#endif

#ifdef HAVE_SYS_TYPES_H
#include <sys/types.h>
#endif

#ifdef HAVE_SYS_STAT_H
#include <sys/stat.h>
#endif

#ifdef HAVE_FCNTL_H
#include <fcntl.h>
#endif

#ifdef HAVE_UNISTD_H
#include <unistd.h>
#endif

#ifdef HAVE_STDIO_H
#include <stdio.h>
#endif

#include "locking.h"
#include "diagnostics.h"

// Report contended locks after this many attempts
#define LOCK_REPORT_COUNT   50

PLock::PLock(const char *n): lockName(n), lockCount(0)
{
#if (!defined(_WIN32))
    pthread_mutex_init(&lock, 0);
#else
    InitializeCriticalSection(&lock);
#endif
}

PLock::~PLock()
{
#if (!defined(_WIN32))
    pthread_mutex_destroy(&lock);
#else
    DeleteCriticalSection(&lock);
#endif
}

void PLock::Lock(void)
{
    if (debugOptions & DEBUG_CONTENTION)
    {
        // Report a heavily contended lock.
        if (Trylock())
            return;
        if (++lockCount > LOCK_REPORT_COUNT)
        {
            if (lockName != 0)
                Log("Lock: contention on lock: %s\n", lockName);
            else
                Log("Lock: contention on lock at %p\n", &lock);
            lockCount = 0;
        }
        // Drop through to a normal lock
    }
#if (!defined(_WIN32))
    pthread_mutex_lock(&lock);
#else
    EnterCriticalSection(&lock);
#endif
}

void PLock::Unlock(void)
{
#if (!defined(_WIN32))
    pthread_mutex_unlock(&lock);
#else
    LeaveCriticalSection(&lock);
#endif
}

bool PLock::Trylock(void)
{
#if (!defined(_WIN32))
    // Since we use normal mutexes this returns EBUSY if the
    // current thread owns the mutex.
    return pthread_mutex_trylock(&lock) != EBUSY;
#else
    // This is not implemented properly in Windows.  There is
    // TryEnterCriticalSection in Win NT and later but that
    // returns TRUE if the current thread owns the mutex.
   return TryEnterCriticalSection(&lock) == TRUE;
#endif
}

PCondVar::PCondVar()
{
#if (!defined(_WIN32))
    pthread_cond_init(&cond, NULL);
#else
    InitializeConditionVariable(&cond);
#endif
}

PCondVar::~PCondVar()
{
#if (!defined(_WIN32))
    pthread_cond_destroy(&cond);
#endif
}

// Wait indefinitely.  Drops the lock and reaquires it.
void PCondVar::Wait(PLock *pLock)
{
#if (!defined(_WIN32))
    pthread_cond_wait(&cond, &pLock->lock);
#else
    SleepConditionVariableCS(&cond, &pLock->lock, INFINITE);
#endif
}

// Wait until a specified absolute time.  Drops the lock and reaquires it.
#if (defined(_WIN32))
// Windows with Windows-style times
void PCondVar::WaitUntil(PLock *pLock, const FILETIME *time)
{
    FILETIME now;
    GetSystemTimeAsFileTime(&now);
    LARGE_INTEGER liNow, liTime;
    liNow.HighPart = now.dwHighDateTime;
    liNow.LowPart = now.dwLowDateTime;
    liTime.HighPart = time->dwHighDateTime;
    liTime.LowPart = time->dwLowDateTime;
    if (liNow.QuadPart >= liTime.QuadPart) // Already past the time
        return;
    DWORD toWait = (DWORD)((liTime.QuadPart - liNow.QuadPart) / (LONGLONG)10000);
    (void)WaitFor(pLock, toWait);
}
#else
// Unix-style times
void PCondVar::WaitUntil(PLock *pLock, const timespec *time)
{
    pthread_cond_timedwait(&cond, &pLock->lock, time);
}
#endif

// Wait for a number of milliseconds.  Used within the RTS.  Drops the lock and reaquires it.
// Returns true if the return was because the condition variable had been signalled.
// Returns false if the timeout expired or there was an error.
bool PCondVar::WaitFor(PLock *pLock, unsigned milliseconds)
{
#if (!defined(_WIN32))
    struct timespec waitTime;
    struct timeval tv;
    if (gettimeofday(&tv, NULL) != 0)
        return false;
    waitTime.tv_sec = tv.tv_sec + milliseconds / 1000;
    waitTime.tv_nsec = (tv.tv_usec + (milliseconds % 1000) * 1000) * 1000;
    if (waitTime.tv_nsec >= 1000*1000*1000)
    {
        waitTime.tv_nsec -= 1000*1000*1000;
        waitTime.tv_sec += 1;
    }
    return pthread_cond_timedwait(&cond, &pLock->lock, &waitTime) == 0;
#else
    // SleepConditionVariableCS returns zero on error or timeout.
    return SleepConditionVariableCS(&cond, &pLock->lock, milliseconds) != 0;
#endif
}

// Wake up all the waiting threads. 
void PCondVar::Signal(void)
{
#if (!defined(_WIN32))
    pthread_cond_broadcast(&cond);
#else
    WakeAllConditionVariable(&cond);
#endif
}


// Initialise a semphore.  Tries to create an unnamed semaphore if
// it can but tries a named semaphore if it can't.  Mac OS X only
// supports named semaphores.
// The semaphore is initialised with a count of zero.
PSemaphore::PSemaphore()
{
#if (!defined(_WIN32))
    sema = 0;
    isLocal = true;
#else
    sema = NULL;
#endif
}

PSemaphore::~PSemaphore()
{
#if (!defined(_WIN32))
#ifndef MACOSX
    if (sema && isLocal) sem_destroy(sema);
    else
#endif
        if (sema && !isLocal) sem_close(sema);
#else
    if (sema != NULL) CloseHandle(sema);
#endif
}

bool PSemaphore::Init(unsigned init, unsigned max)
{
#if (!defined(_WIN32))
#ifndef MACOSX
    isLocal = true;
    if (sem_init(&localSema, 0, init) == 0) {
        sema = &localSema;
        return true;
    }
#endif
#if (defined(__CYGWIN__))
    // Cygwin doesn't define sem_unlink but that doesn't matter
    // since sem_init works.
    sema = 0;
    return false;
#else
    isLocal = false;
    char semname[30];
    static int count=0;
    sprintf(semname, "poly%0d-%0d", (int)getpid(), count++);
    sema = sem_open(semname, O_CREAT|O_EXCL, 00666, init);
    if (sema == (sem_t*)SEM_FAILED) {
        sema = 0;
        return false;
    }
    sem_unlink(semname);
    return true;
#endif
#else
    sema = CreateSemaphore(NULL, init, max, NULL);
    return sema != NULL;
#endif
}

bool PSemaphore::Wait(void)
{
#if (!defined(_WIN32))
    // Wait until the semaphore is signalled.  A Unix signal may interrupt
    // it so we need to retry in that case.
    while (sem_wait(sema) == -1)
    {
        if (errno != EINTR)
            return false;
    }
    return true;
#else
    return WaitForSingleObject(sema, INFINITE) == WAIT_OBJECT_0;
#endif
}

void PSemaphore::Signal(void)
{
#if (!defined(_WIN32))
    sem_post(sema);
#else
    ReleaseSemaphore(sema, 1, NULL);
#endif
}



