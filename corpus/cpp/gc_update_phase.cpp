/*
    Title:      Multi-Threaded Garbage Collector - Update phase

    Copyright (c) 2010-12 David C. J. Matthews

    Based on the original garbage collector code
        Copyright 2000-2008
        Cambridge University Technical Services Limited

    This library is free software; you can redistribute it and/or
    modify it under the terms of the GNU Lesser General Public
    License as published by the Free Software Foundation; either
    version 2.1 of the License, or (at your option) any later version.
    
    This library is distributed in the hope that it will be useful,
    but WITHOUT ANY WARRANTY; without even the implied warranty of
    MERCHANTABILITY or FITNESS FOR A PARTICULAR PURPOSE.  See the GNU
    Lesser General Public License for more details.
    
    You should have received a copy of the GNU Lesser General Public
    License along with this library; if not, write to the Free Software
    Foundation, Inc., 51 Franklin St, Fifth Floor, Boston, MA  02110-1301  USA

*/
/*
This is the third, update, phase of the garbage collector.  The previous, copy,
phase will have moved cells in memory.  The update phase goes through all cells
that could contain an address of a cell that has been moved and looks for a
tomb-stone that contains its new location. 
*/
#ifdef HAVE_CONFIG_H
#include "config.h"
#elif defined(_WIN32)
#include "winconfig.h"
#else
#error "No configuration file"
#endif

#ifdef HAVE_ASSERT_H
#include <assert.h>
#define ASSERT(x)   assert(x)
#else
#define ASSERT(x)
#endif

#include "globals.h"
#include "run_time.h"
#include "processes.h"
#include "gc.h"
#include "scanaddrs.h"
#include "check_objects.h"
#include "bitmap.h"
#include "memmgr.h"
#include "gctaskfarm.h"
#include "diagnostics.h"

class MTGCProcessUpdate: public ScanAddress
{
public:
    virtual POLYUNSIGNED ScanAddressAt(PolyWord *pt);
    virtual void ScanRuntimeAddress(PolyObject **pt, RtsStrength weak);
    virtual PolyObject *ScanObjectAddress(PolyObject *base);

    void UpdateObjectsInArea(LocalMemSpace *area);

private:
    static void UpdateAddress(PolyObject *&obj)
    {
        while (obj->ContainsForwardingPtr())
            obj = obj->GetForwardingPtr();
    }
};

/*********************************************************************/
/* This function is called in the update phase to update pointers to */
/* objects in the gc area that are in old mutable segments.          */
/*********************************************************************/
PolyObject *MTGCProcessUpdate::ScanObjectAddress(PolyObject *obj)
{
    LocalMemSpace *space = gMem.LocalSpaceForObjectAddress(obj);
    if (space != 0)
    {
        UpdateAddress(obj);
        ASSERT(obj->ContainsNormalLengthWord());
    }
    return obj;
}

void MTGCProcessUpdate::ScanRuntimeAddress(PolyObject **pt, RtsStrength/* weak*/)
/* weak is not used, but needed so type of the function is correct */
{
    PolyObject *obj = *pt;
    if (obj->ContainsForwardingPtr())
    {
        UpdateAddress(obj);
        *pt = obj;
    }
}  

// Update the addresses in a group of words.
POLYUNSIGNED MTGCProcessUpdate::ScanAddressAt(PolyWord *pt)
{
    PolyWord val = *pt;

    if (val.IsTagged())
        return 0;

    // It looked like it would be possible to simplify this code and
    // just call UpdateAddress on any address.  It seems to be
    // better to avoid unnecessary writes so we only store into
    // *pt if it has actually changed.

    PolyObject *obj = val.AsObjPtr();
    if (obj->ContainsForwardingPtr())
    {
        UpdateAddress(obj);
        *pt = obj;
    }
    return 0;
}

// Updates the addresses for objects in the area with the "allocated" bit set.
// It processes the area between area->pointer and the bit corresponding to area->highest.
// area->highest corresponds to gen_top i.e. we don't process older generations.
void MTGCProcessUpdate::UpdateObjectsInArea(LocalMemSpace *area)
{
    PolyWord *pt      = area->upperAllocPtr;
    uintptr_t   bitno   = area->wordNo(pt);
    uintptr_t   highest = area->wordNo(area->top);

    for (;;)
    {
        ASSERT(bitno <= highest);
        /* Zero unused words.  This is necessary so that
           ScanAddressesInRegion can work.  It requires the allocated
           area of memory to contain either objects with a valid length
           word or forwarding pointer or zeros.  We should only be
           zeroing words that we couldn't fill with real data so it
           shouldn't be too much.  Profiling showed that using dummy
           byte objects here didn't make a measurable difference,
        */
        while (bitno < highest && !area->bitmap.TestBit(bitno))
        {
            *pt++ = PolyWord::FromUnsigned(0);
            bitno++;
        }
        
        if (bitno == highest) {
            // Have reached the top of the area
            ASSERT(pt == area->top);
            break;
        }
        
        /* first set bit corresponds to the length word */
        pt++;
        PolyObject *obj = (PolyObject*)pt;
        POLYUNSIGNED L = obj->LengthWord();
        bitno++;
        
        if (obj->ContainsForwardingPtr())
        {
            // Skip over moved objects.  We have to find the new location to find
            // its length.
            UpdateAddress(obj);            
            POLYUNSIGNED length = obj->Length();
            pt    += length;
            bitno += length;
        }
        else // Contains real object
        {
            
            if (OBJ_IS_WORD_OBJECT(L))
            {
                POLYUNSIGNED length = OBJ_OBJECT_LENGTH(L);
                
                area->updated += length+1;
                
                while (length--)
                {
                    PolyWord val = *pt;

                    if (! val.IsTagged() && val != PolyWord::FromUnsigned(0))
                    {
                        PolyObject *obj = val.AsObjPtr();
                    
                        if (obj->ContainsForwardingPtr())
                        {
                            UpdateAddress(obj);
                            *pt = obj;
                        }
                    }
                    
                    pt++;
                    bitno++;
                }
            }
            
            else /* !OBJ_IS_WORD_OBJECT(L) */
            {
                POLYUNSIGNED length = OBJ_OBJECT_LENGTH(L);
                area->updated += length+1;
                ScanAddressesInObject(obj, L);
                pt    += length;
                bitno += length;
            } /* !OBJ_IS_WORD_OBJECT(L) */

            CheckObject(obj); // Can check it after it's been updated
        }  /* !OBJ_IS_POINTER(L) */
    } /* for loop */
}

// Task to update addresses in a local area.
static void updateLocalArea(GCTaskId*, void *arg1, void *arg2)
{
    MTGCProcessUpdate *processUpdate = (MTGCProcessUpdate *)arg1;
    LocalMemSpace *space = (LocalMemSpace *)arg2;
    if (debugOptions & DEBUG_GC_ENHANCED)
        Log("GC: Update local area %p\n", space);
    // Process the current generation for mutable or immutable areas.
    processUpdate->UpdateObjectsInArea(space);
    if (debugOptions & DEBUG_GC_ENHANCED)
        Log("GC: Completed local update for %p. %lu words updated\n", space, space->updated);
}

// Task to update addresses in a non-local area.
static void updateNonLocalMutableArea(GCTaskId*, void *arg1, void *arg2)
{
    MTGCProcessUpdate *processUpdate = (MTGCProcessUpdate *)arg1;
    MemSpace *space = (MemSpace *)arg2;
    if (debugOptions & DEBUG_GC_ENHANCED)
        Log("GC: Update non-local mutable area %p\n", space);
    processUpdate->ScanAddressesInRegion(space->bottom, space->top);
    if (debugOptions & DEBUG_GC_ENHANCED)
        Log("GC: Completed non-local mutable update for %p\n", space);
}

// Task to update addresses maintained by the RTS itself.
static void updateGCProcAddresses(GCTaskId*, void *arg1, void *)
{
    MTGCProcessUpdate *processUpdate = (MTGCProcessUpdate *)arg1;
    GCModules(processUpdate);
}

void GCUpdatePhase()
{
    /* Update phase */
    mainThreadPhase = MTP_GCPHASEUPDATE;
    
    /* Invariant: at most the first (gen_top - bottom) bits of each bitmap can be dirty here. */
    for(std::vector<LocalMemSpace*>::iterator i = gMem.lSpaces.begin(); i < gMem.lSpaces.end(); i++)
        (*i)->updated = 0;

    // We can do the updates in parallel since they don't interfere at all.
    MTGCProcessUpdate processUpdate;

    // Process local areas.
    for (std::vector<LocalMemSpace*>::iterator i = gMem.lSpaces.begin(); i < gMem.lSpaces.end(); i++)
    {
        LocalMemSpace *space = *i;
        // As well as updating the addresses this also clears the bitmaps.
        gpTaskFarm->AddWorkOrRunNow(&updateLocalArea, &processUpdate, space);
    }
    // Scan the permanent mutable areas and the code areas.
    for (std::vector<PermanentMemSpace*>::iterator i = gMem.pSpaces.begin(); i < gMem.pSpaces.end(); i++)
    {
        PermanentMemSpace *space = *i;
        if (space->isMutable && ! space->byteOnly)
            gpTaskFarm->AddWorkOrRunNow(&updateNonLocalMutableArea, &processUpdate, space);
    }
    for (std::vector<CodeSpace *>::iterator i = gMem.cSpaces.begin(); i < gMem.cSpaces.end(); i++)
    {
        CodeSpace *space = *i;
        gpTaskFarm->AddWorkOrRunNow(&updateNonLocalMutableArea, &processUpdate, space);
        // We could remove the mutable bit if there are no longer any mutable code objects
        // but it's easier to leave that to the minor GC.
    }

    // Update addresses in RTS modules.
    gpTaskFarm->AddWorkOrRunNow(&updateGCProcAddresses, &processUpdate, 0);
    // Wait for these to complete before proceeding.
    gpTaskFarm->WaitForCompletion();
}
