/**
 * @license
 * Copyright 2024 Google Inc.
 * SPDX-License-Identifier: Apache-2.0
 */
import type {ConnectionTransport} from '../common/ConnectionTransport.js';

const tabTargetInfo = {
  targetId: 'tabTargetId',
  type: 'tab',
  title: 'tab',
  url: 'about:blank',
  attached: false,
  canAccessOpener: false,
};

const pageTargetInfo = {
  targetId: 'pageTargetId',
  type: 'page',
  title: 'page',
  url: 'about:blank',
  attached: false,
  canAccessOpener: false,
};

/**
 * Experimental ExtensionTransport allows establishing a connection via
 * chrome.debugger API if Puppeteer runs in an extension. Since Chrome
 * DevTools Protocol is restricted for extensions, the transport
 * implements missing commands and events.
 *
 * @experimental
 * @public
 */
export class ExtensionTransport implements ConnectionTransport {
  static async connectTab(tabId: number): Promise<ExtensionTransport> {
    await chrome.debugger.attach({tabId}, '1.3');
    return new ExtensionTransport(tabId);
  }

  onmessage?: (message: string) => void;
  onclose?: () => void;

  #tabId: number;

  /**
   * @internal
   */
  constructor(tabId: number) {
    this.#tabId = tabId;
    chrome.debugger.onEvent.addListener(this.#debuggerEventHandler);
  }

  #debuggerEventHandler = (
    source: chrome.debugger.Debuggee,
    method: string,
    params?: object | undefined,
  ): void => {
    if (source.tabId !== this.#tabId) {
      return;
    }
    this.#dispatchResponse({
      // @ts-expect-error sessionId is not in stable yet.
      sessionId: source.sessionId ?? 'pageTargetSessionId',
      method: method,
      params: params,
    });
  };

  #dispatchResponse(message: object): void {
    // Dispatch in a new task like other transports.
    setTimeout(() => {
      this.onmessage?.(JSON.stringify(message));
    }, 0);
  }

  send(message: string): void {
    const parsed = JSON.parse(message);
    switch (parsed.method) {
      case 'Browser.getVersion': {
        this.#dispatchResponse({
          id: parsed.id,
          sessionId: parsed.sessionId,
          method: parsed.method,
          result: {
            protocolVersion: '1.3',
            product: 'chrome',
            revision: 'unknown',
            userAgent: 'chrome',
            jsVersion: 'unknown',
          },
        });
        return;
      }
      case 'Target.getBrowserContexts': {
        this.#dispatchResponse({
          id: parsed.id,
          sessionId: parsed.sessionId,
          method: parsed.method,
          result: {
            browserContextIds: [],
          },
        });
        return;
      }
      case 'Target.setDiscoverTargets': {
        this.#dispatchResponse({
          method: 'Target.targetCreated',
          params: {
            targetInfo: tabTargetInfo,
          },
        });
        this.#dispatchResponse({
          method: 'Target.targetCreated',
          params: {
            targetInfo: pageTargetInfo,
          },
        });
        this.#dispatchResponse({
          id: parsed.id,
          sessionId: parsed.sessionId,
          method: parsed.method,
          result: {},
        });
        return;
      }
      case 'Target.setAutoAttach': {
        if (parsed.sessionId === 'tabTargetSessionId') {
          this.#dispatchResponse({
            method: 'Target.attachedToTarget',
            sessionId: 'tabTargetSessionId',
            params: {
              targetInfo: pageTargetInfo,
              sessionId: 'pageTargetSessionId',
            },
          });
          this.#dispatchResponse({
            id: parsed.id,
            sessionId: parsed.sessionId,
            method: parsed.method,
            result: {},
          });
          return;
        } else if (!parsed.sessionId) {
          this.#dispatchResponse({
            method: 'Target.attachedToTarget',
            params: {
              targetInfo: tabTargetInfo,
              sessionId: 'tabTargetSessionId',
            },
          });
          this.#dispatchResponse({
            id: parsed.id,
            sessionId: parsed.sessionId,
            method: parsed.method,
            result: {},
          });
          return;
        }
      }
    }
    if (parsed.sessionId === 'pageTargetSessionId') {
      delete parsed.sessionId;
    }
    chrome.debugger
      .sendCommand(
        {tabId: this.#tabId, sessionId: parsed.sessionId},
        parsed.method,
        parsed.params,
      )
      .then(response => {
        this.#dispatchResponse({
          id: parsed.id,
          sessionId: parsed.sessionId ?? 'pageTargetSessionId',
          method: parsed.method,
          result: response,
        });
      })
      .catch(err => {
        this.#dispatchResponse({
          id: parsed.id,
          sessionId: parsed.sessionId ?? 'pageTargetSessionId',
          method: parsed.method,
          error: {
            code: err?.code,
            data: err?.data,
            message: err?.message ?? 'CDP error had no message',
          },
        });
      });
  }

  close(): void {
    chrome.debugger.onEvent.removeListener(this.#debuggerEventHandler);
    void chrome.debugger.detach({tabId: this.#tabId});
  }
}
