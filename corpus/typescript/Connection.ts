/**
 * @license
 * Copyright 2017 Google Inc.
 * SPDX-License-Identifier: Apache-2.0
 */

import type {Protocol} from 'devtools-protocol';
import type {ProtocolMapping} from 'devtools-protocol/types/protocol-mapping.js';

import type {CommandOptions} from '../api/CDPSession.js';
import {
  CDPSessionEvent,
  type CDPSession,
  type CDPSessionEvents,
} from '../api/CDPSession.js';
import {CallbackRegistry} from '../common/CallbackRegistry.js';
import type {ConnectionTransport} from '../common/ConnectionTransport.js';
import {debug} from '../common/Debug.js';
import {ConnectionClosedError, TargetCloseError} from '../common/Errors.js';
import {EventEmitter} from '../common/EventEmitter.js';
import {createProtocolErrorMessage} from '../util/ErrorLike.js';
import {
  createIncrementalIdGenerator,
  type GetIdFn,
} from '../util/incremental-id-generator.js';

import {CdpCDPSession} from './CdpSession.js';

const debugProtocolSend = debug('puppeteer:protocol:SEND ►');
const debugProtocolReceive = debug('puppeteer:protocol:RECV ◀');

/**
 * @public
 */
export class Connection extends EventEmitter<CDPSessionEvents> {
  #url: string;
  #transport: ConnectionTransport;
  #delay: number;
  #timeout: number;
  #sessions = new Map<string, CdpCDPSession>();
  #closed = false;
  #manuallyAttached = new Set<string>();
  #callbacks: CallbackRegistry;
  #rawErrors = false;
  #idGenerator: GetIdFn;

  constructor(
    url: string,
    transport: ConnectionTransport,
    delay = 0,
    timeout?: number,
    rawErrors = false,
    idGenerator: () => number = createIncrementalIdGenerator(),
  ) {
    super();
    this.#rawErrors = rawErrors;
    this.#idGenerator = idGenerator;
    this.#callbacks = new CallbackRegistry(idGenerator);
    this.#url = url;
    this.#delay = delay;
    this.#timeout = timeout ?? 180_000;

    this.#transport = transport;
    this.#transport.onmessage = this.onMessage.bind(this);
    this.#transport.onclose = this.#onClose.bind(this);
  }

  static fromSession(session: CDPSession): Connection | undefined {
    return session.connection();
  }

  /**
   * @internal
   */
  get delay(): number {
    return this.#delay;
  }

  get timeout(): number {
    return this.#timeout;
  }

  /**
   * @internal
   */
  get _closed(): boolean {
    return this.#closed;
  }

  /**
   * @internal
   */
  get _idGenerator(): GetIdFn {
    return this.#idGenerator;
  }

  /**
   * @internal
   */
  get _sessions(): Map<string, CdpCDPSession> {
    return this.#sessions;
  }

  /**
   * @internal
   */
  _session(sessionId: string): CdpCDPSession | null {
    return this.#sessions.get(sessionId) || null;
  }

  /**
   * @param sessionId - The session id
   * @returns The current CDP session if it exists
   */
  session(sessionId: string): CDPSession | null {
    return this._session(sessionId);
  }

  url(): string {
    return this.#url;
  }

  send<T extends keyof ProtocolMapping.Commands>(
    method: T,
    params?: ProtocolMapping.Commands[T]['paramsType'][0],
    options?: CommandOptions,
  ): Promise<ProtocolMapping.Commands[T]['returnType']> {
    // There is only ever 1 param arg passed, but the Protocol defines it as an
    // array of 0 or 1 items See this comment:
    // https://github.com/ChromeDevTools/devtools-protocol/pull/113#issuecomment-412603285
    // which explains why the protocol defines the params this way for better
    // type-inference.
    // So now we check if there are any params or not and deal with them accordingly.
    return this._rawSend(this.#callbacks, method, params, undefined, options);
  }

  /**
   * @internal
   */
  _rawSend<T extends keyof ProtocolMapping.Commands>(
    callbacks: CallbackRegistry,
    method: T,
    params: ProtocolMapping.Commands[T]['paramsType'][0],
    sessionId?: string,
    options?: CommandOptions,
  ): Promise<ProtocolMapping.Commands[T]['returnType']> {
    if (this.#closed) {
      return Promise.reject(new ConnectionClosedError('Connection closed.'));
    }
    return callbacks.create(method, options?.timeout ?? this.#timeout, id => {
      const stringifiedMessage = JSON.stringify({
        method,
        params,
        id,
        sessionId,
      });
      debugProtocolSend(stringifiedMessage);
      this.#transport.send(stringifiedMessage);
    }) as Promise<ProtocolMapping.Commands[T]['returnType']>;
  }

  /**
   * @internal
   */
  async closeBrowser(): Promise<void> {
    await this.send('Browser.close');
  }

  /**
   * @internal
   */
  protected async onMessage(message: string): Promise<void> {
    if (this.#delay) {
      await new Promise(r => {
        return setTimeout(r, this.#delay);
      });
    }
    debugProtocolReceive(message);
    const object = JSON.parse(message);
    if (object.method === 'Target.attachedToTarget') {
      const sessionId = object.params.sessionId;
      const session = new CdpCDPSession(
        this,
        object.params.targetInfo.type,
        sessionId,
        object.sessionId,
        this.#rawErrors,
      );
      this.#sessions.set(sessionId, session);
      this.emit(CDPSessionEvent.SessionAttached, session);
      const parentSession = this.#sessions.get(object.sessionId);
      if (parentSession) {
        parentSession.emit(CDPSessionEvent.SessionAttached, session);
      }
    } else if (object.method === 'Target.detachedFromTarget') {
      const session = this.#sessions.get(object.params.sessionId);
      if (session) {
        session.onClosed();
        this.#sessions.delete(object.params.sessionId);
        this.emit(CDPSessionEvent.SessionDetached, session);
        const parentSession = this.#sessions.get(object.sessionId);
        if (parentSession) {
          parentSession.emit(CDPSessionEvent.SessionDetached, session);
        }
      }
    }
    if (object.sessionId) {
      const session = this.#sessions.get(object.sessionId);
      if (session) {
        session.onMessage(object);
      }
    } else if (object.id) {
      if (object.error) {
        if (this.#rawErrors) {
          this.#callbacks.rejectRaw(object.id, object.error);
        } else {
          this.#callbacks.reject(
            object.id,
            createProtocolErrorMessage(object),
            object.error.message,
          );
        }
      } else {
        this.#callbacks.resolve(object.id, object.result);
      }
    } else {
      this.emit(object.method, object.params);
    }
  }

  #onClose(): void {
    if (this.#closed) {
      return;
    }
    this.#closed = true;
    this.#transport.onmessage = undefined;
    this.#transport.onclose = undefined;
    this.#callbacks.clear();
    for (const session of this.#sessions.values()) {
      session.onClosed();
    }
    this.#sessions.clear();
    this.emit(CDPSessionEvent.Disconnected, undefined);
  }

  dispose(): void {
    this.#onClose();
    this.#transport.close();
  }

  /**
   * @internal
   */
  isAutoAttached(targetId: string): boolean {
    return !this.#manuallyAttached.has(targetId);
  }

  /**
   * @internal
   */
  async _createSession(
    targetInfo: {targetId: string},
    isAutoAttachEmulated = true,
  ): Promise<CdpCDPSession> {
    if (!isAutoAttachEmulated) {
      this.#manuallyAttached.add(targetInfo.targetId);
    }
    const {sessionId} = await this.send('Target.attachToTarget', {
      targetId: targetInfo.targetId,
      flatten: true,
    });
    this.#manuallyAttached.delete(targetInfo.targetId);
    const session = this.#sessions.get(sessionId);
    if (!session) {
      throw new Error('CDPSession creation failed.');
    }
    return session;
  }

  /**
   * @param targetInfo - The target info
   * @returns The CDP session that is created
   */
  async createSession(
    targetInfo: Protocol.Target.TargetInfo,
  ): Promise<CDPSession> {
    return await this._createSession(targetInfo, false);
  }

  /**
   * @internal
   */
  getPendingProtocolErrors(): Error[] {
    const result: Error[] = [];
    result.push(...this.#callbacks.getPendingProtocolErrors());
    for (const session of this.#sessions.values()) {
      result.push(...session.getPendingProtocolErrors());
    }
    return result;
  }
}

/**
 * @internal
 */
export function isTargetClosedError(error: Error): boolean {
  return error instanceof TargetCloseError;
}
