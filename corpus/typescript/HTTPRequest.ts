/**
 * @license
 * Copyright 2020 Google Inc.
 * SPDX-License-Identifier: Apache-2.0
 */
import type {Protocol} from 'devtools-protocol';

import type {CDPSession} from '../api/CDPSession.js';
import type {Frame} from '../api/Frame.js';
import {
  type ContinueRequestOverrides,
  headersArray,
  HTTPRequest,
  type ResourceType,
  type ResponseForRequest,
  STATUS_TEXTS,
  handleError,
} from '../api/HTTPRequest.js';
import {debugError} from '../common/util.js';
import {
  mergeUint8Arrays,
  stringToBase64,
  stringToTypedArray,
} from '../util/encoding.js';

import type {CdpHTTPResponse} from './HTTPResponse.js';

/**
 * @internal
 */
export class CdpHTTPRequest extends HTTPRequest {
  override id: string;
  declare _redirectChain: CdpHTTPRequest[];
  declare _response: CdpHTTPResponse | null;

  #client: CDPSession;
  #isNavigationRequest: boolean;

  #url: string;
  #resourceType: ResourceType;

  #method: string;
  #hasPostData = false;
  #postData?: string;
  #headers: Record<string, string> = {};
  #frame: Frame | null;
  #initiator?: Protocol.Network.Initiator;

  override get client(): CDPSession {
    return this.#client;
  }

  override set client(newClient: CDPSession) {
    this.#client = newClient;
  }

  constructor(
    client: CDPSession,
    frame: Frame | null,
    interceptionId: string | undefined,
    allowInterception: boolean,
    data: {
      /**
       * Request identifier.
       */
      requestId: Protocol.Network.RequestId;
      /**
       * Loader identifier. Empty string if the request is fetched from worker.
       */
      loaderId?: Protocol.Network.LoaderId;
      /**
       * URL of the document this request is loaded for.
       */
      documentURL?: string;
      /**
       * Request data.
       */
      request: Protocol.Network.Request;
      /**
       * Request initiator.
       */
      initiator?: Protocol.Network.Initiator;
      /**
       * Type of this resource.
       */
      type?: Protocol.Network.ResourceType;
    },
    redirectChain: CdpHTTPRequest[],
  ) {
    super();
    this.#client = client;
    this.id = data.requestId;
    this.#isNavigationRequest =
      data.requestId === data.loaderId && data.type === 'Document';
    this._interceptionId = interceptionId;
    this.#url = data.request.url + (data.request.urlFragment ?? '');
    this.#resourceType = (data.type || 'other').toLowerCase() as ResourceType;
    this.#method = data.request.method;
    if (
      data.request.postDataEntries &&
      data.request.postDataEntries.length > 0
    ) {
      this.#postData = new TextDecoder().decode(
        mergeUint8Arrays(
          data.request.postDataEntries
            .map(entry => {
              return entry.bytes ? stringToTypedArray(entry.bytes, true) : null;
            })
            .filter((entry): entry is Uint8Array => {
              return entry !== null;
            }),
        ),
      );
    } else {
      this.#postData = data.request.postData;
    }
    this.#hasPostData = data.request.hasPostData ?? false;
    this.#frame = frame;
    this._redirectChain = redirectChain;
    this.#initiator = data.initiator;

    this.interception.enabled = allowInterception;

    this.updateHeaders(data.request.headers);
  }

  updateHeaders(headers: Protocol.Network.Headers): void {
    for (const [key, value] of Object.entries(headers)) {
      this.#headers[key.toLowerCase()] = value;
    }
  }

  override url(): string {
    return this.#url;
  }

  override resourceType(): ResourceType {
    return this.#resourceType;
  }

  override method(): string {
    return this.#method;
  }

  override postData(): string | undefined {
    return this.#postData;
  }

  override hasPostData(): boolean {
    return this.#hasPostData;
  }

  override async fetchPostData(): Promise<string | undefined> {
    try {
      const result = await this.#client.send('Network.getRequestPostData', {
        requestId: this.id,
      });
      return result.postData;
    } catch (err) {
      debugError(err);
      return;
    }
  }

  override headers(): Record<string, string> {
    // Callers should not be allowed to mutate internal structure.
    return structuredClone(this.#headers);
  }

  override response(): CdpHTTPResponse | null {
    return this._response;
  }

  override frame(): Frame | null {
    return this.#frame;
  }

  override isNavigationRequest(): boolean {
    return this.#isNavigationRequest;
  }

  override initiator(): Protocol.Network.Initiator | undefined {
    return this.#initiator;
  }

  override redirectChain(): CdpHTTPRequest[] {
    return this._redirectChain.slice();
  }

  override failure(): {errorText: string} | null {
    if (!this._failureText) {
      return null;
    }
    return {
      errorText: this._failureText,
    };
  }

  protected canBeIntercepted(): boolean {
    return !this.url().startsWith('data:') && !this._fromMemoryCache;
  }

  /**
   * @internal
   */
  async _continue(overrides: ContinueRequestOverrides = {}): Promise<void> {
    const {url, method, postData, headers} = overrides;
    this.interception.handled = true;

    const postDataBinaryBase64 = postData
      ? stringToBase64(postData)
      : undefined;

    if (this._interceptionId === undefined) {
      throw new Error(
        'HTTPRequest is missing _interceptionId needed for Fetch.continueRequest',
      );
    }
    await this.#client
      .send('Fetch.continueRequest', {
        requestId: this._interceptionId,
        url,
        method,
        postData: postDataBinaryBase64,
        headers: headers ? headersArray(headers) : undefined,
      })
      .catch(error => {
        this.interception.handled = false;
        return handleError(error);
      });
  }

  async _respond(response: Partial<ResponseForRequest>): Promise<void> {
    this.interception.handled = true;

    let parsedBody:
      | {
          contentLength: number;
          base64: string;
        }
      | undefined;
    if (response.body) {
      parsedBody = HTTPRequest.getResponse(response.body);
    }

    const responseHeaders: Record<string, string | string[]> = {};
    if (response.headers) {
      for (const header of Object.keys(response.headers)) {
        const value = response.headers[header];

        responseHeaders[header.toLowerCase()] = Array.isArray(value)
          ? value.map(item => {
              return String(item);
            })
          : String(value);
      }
    }
    if (response.contentType) {
      responseHeaders['content-type'] = response.contentType;
    }
    if (parsedBody?.contentLength && !('content-length' in responseHeaders)) {
      responseHeaders['content-length'] = String(parsedBody.contentLength);
    }

    const status = response.status || 200;
    if (this._interceptionId === undefined) {
      throw new Error(
        'HTTPRequest is missing _interceptionId needed for Fetch.fulfillRequest',
      );
    }
    await this.#client
      .send('Fetch.fulfillRequest', {
        requestId: this._interceptionId,
        responseCode: status,
        responsePhrase: STATUS_TEXTS[status],
        responseHeaders: headersArray(responseHeaders),
        body: parsedBody?.base64,
      })
      .catch(error => {
        this.interception.handled = false;
        return handleError(error);
      });
  }

  async _abort(
    errorReason: Protocol.Network.ErrorReason | null,
  ): Promise<void> {
    this.interception.handled = true;
    if (this._interceptionId === undefined) {
      throw new Error(
        'HTTPRequest is missing _interceptionId needed for Fetch.failRequest',
      );
    }
    await this.#client
      .send('Fetch.failRequest', {
        requestId: this._interceptionId,
        errorReason: errorReason || 'Failed',
      })
      .catch(handleError);
  }
}
