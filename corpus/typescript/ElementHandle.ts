/**
 * @license
 * Copyright 2019 Google Inc.
 * SPDX-License-Identifier: Apache-2.0
 */

import type {Protocol} from 'devtools-protocol';

import type {CDPSession} from '../api/CDPSession.js';
import {
  bindIsolatedHandle,
  ElementHandle,
  type AutofillData,
} from '../api/ElementHandle.js';
import type {AwaitableIterable} from '../common/types.js';
import {debugError} from '../common/util.js';
import {environment} from '../environment.js';
import {assert} from '../util/assert.js';
import {AsyncIterableUtil} from '../util/AsyncIterableUtil.js';
import {throwIfDisposed} from '../util/decorators.js';

import type {CdpFrame} from './Frame.js';
import type {FrameManager} from './FrameManager.js';
import type {IsolatedWorld} from './IsolatedWorld.js';
import {CdpJSHandle} from './JSHandle.js';

const NON_ELEMENT_NODE_ROLES = new Set(['StaticText', 'InlineTextBox']);

/**
 * The CdpElementHandle extends ElementHandle now to keep compatibility
 * with `instanceof` because of that we need to have methods for
 * CdpJSHandle to in this implementation as well.
 *
 * @internal
 */
export class CdpElementHandle<
  ElementType extends Node = Element,
> extends ElementHandle<ElementType> {
  declare protected readonly handle: CdpJSHandle<ElementType>;
  #backendNodeId?: number;

  constructor(
    world: IsolatedWorld,
    remoteObject: Protocol.Runtime.RemoteObject,
  ) {
    super(new CdpJSHandle(world, remoteObject));
  }

  override get realm(): IsolatedWorld {
    return this.handle.realm;
  }

  get client(): CDPSession {
    return this.handle.client;
  }

  override remoteObject(): Protocol.Runtime.RemoteObject {
    return this.handle.remoteObject();
  }

  get #frameManager(): FrameManager {
    return this.frame._frameManager;
  }

  override get frame(): CdpFrame {
    return this.realm.environment as CdpFrame;
  }

  override async contentFrame(
    this: ElementHandle<HTMLIFrameElement>,
  ): Promise<CdpFrame>;

  @throwIfDisposed()
  override async contentFrame(): Promise<CdpFrame | null> {
    const nodeInfo = await this.client.send('DOM.describeNode', {
      objectId: this.id,
    });
    if (typeof nodeInfo.node.frameId !== 'string') {
      return null;
    }
    return this.#frameManager.frame(nodeInfo.node.frameId);
  }

  @throwIfDisposed()
  @bindIsolatedHandle
  override async scrollIntoView(
    this: CdpElementHandle<Element>,
  ): Promise<void> {
    await this.assertConnectedElement();
    try {
      await this.client.send('DOM.scrollIntoViewIfNeeded', {
        objectId: this.id,
      });
    } catch (error) {
      debugError(error);
      // Fallback to Element.scrollIntoView if DOM.scrollIntoViewIfNeeded is not supported
      await super.scrollIntoView();
    }
  }

  @throwIfDisposed()
  @bindIsolatedHandle
  override async uploadFile(
    this: CdpElementHandle<HTMLInputElement>,
    ...files: string[]
  ): Promise<void> {
    const isMultiple = await this.evaluate(element => {
      return element.multiple;
    });
    assert(
      files.length <= 1 || isMultiple,
      'Multiple file uploads only work with <input type=file multiple>',
    );

    // Locate all files and confirm that they exist.
    const path = environment.value.path;
    if (path) {
      files = files.map(filePath => {
        if (
          path.win32.isAbsolute(filePath) ||
          path.posix.isAbsolute(filePath)
        ) {
          return filePath;
        } else {
          return path.resolve(filePath);
        }
      });
    }

    /**
     * The zero-length array is a special case, it seems that
     * DOM.setFileInputFiles does not actually update the files in that case, so
     * the solution is to eval the element value to a new FileList directly.
     */
    if (files.length === 0) {
      // XXX: These events should converted to trusted events. Perhaps do this
      // in `DOM.setFileInputFiles`?
      await this.evaluate(element => {
        element.files = new DataTransfer().files;

        // Dispatch events for this case because it should behave akin to a user action.
        element.dispatchEvent(
          new Event('input', {bubbles: true, composed: true}),
        );
        element.dispatchEvent(new Event('change', {bubbles: true}));
      });
      return;
    }

    const {
      node: {backendNodeId},
    } = await this.client.send('DOM.describeNode', {
      objectId: this.id,
    });
    await this.client.send('DOM.setFileInputFiles', {
      objectId: this.id,
      files,
      backendNodeId,
    });
  }

  @throwIfDisposed()
  override async autofill(data: AutofillData): Promise<void> {
    const nodeInfo = await this.client.send('DOM.describeNode', {
      objectId: this.handle.id,
    });
    const fieldId = nodeInfo.node.backendNodeId;
    const frameId = this.frame._id;
    await this.client.send('Autofill.trigger', {
      fieldId,
      frameId,
      card: data.creditCard,
      address: data.address,
    });
  }

  override async *queryAXTree(
    name?: string | undefined,
    role?: string | undefined,
  ): AwaitableIterable<ElementHandle<Node>> {
    const {nodes} = await this.client.send('Accessibility.queryAXTree', {
      objectId: this.id,
      accessibleName: name,
      role,
    });

    const results = nodes.filter(node => {
      if (node.ignored) {
        return false;
      }
      if (!node.role) {
        return false;
      }
      if (NON_ELEMENT_NODE_ROLES.has(node.role.value)) {
        return false;
      }
      return true;
    });

    return yield* AsyncIterableUtil.map(results, node => {
      return this.realm.adoptBackendNode(node.backendDOMNodeId) as Promise<
        ElementHandle<Node>
      >;
    });
  }

  override async backendNodeId(): Promise<number> {
    if (this.#backendNodeId) {
      return this.#backendNodeId;
    }
    const {node} = await this.client.send('DOM.describeNode', {
      objectId: this.handle.id,
    });
    this.#backendNodeId = node.backendNodeId;
    return this.#backendNodeId;
  }
}
