/**
 * @license
 * Copyright 2019 Google Inc.
 * SPDX-License-Identifier: Apache-2.0
 */

import type {Protocol} from 'devtools-protocol';

import {firstValueFrom, map, raceWith} from '../../third_party/rxjs/rxjs.js';
import type {CDPSession} from '../api/CDPSession.js';
import type {ElementHandle} from '../api/ElementHandle.js';
import type {Extension} from '../api/Extension.js';
import type {JSHandle} from '../api/JSHandle.js';
import {Realm} from '../api/Realm.js';
import {EventEmitter} from '../common/EventEmitter.js';
import type {TimeoutSettings} from '../common/TimeoutSettings.js';
import type {EvaluateFunc, HandleFor} from '../common/types.js';
import {
  fromEmitterEvent,
  timeout,
  withSourcePuppeteerURLIfNone,
} from '../common/util.js';
import {disposeSymbol} from '../util/disposable.js';

import {CdpElementHandle} from './ElementHandle.js';
import type {ExecutionContext} from './ExecutionContext.js';
import type {CdpFrame} from './Frame.js';
import type {PUPPETEER_WORLD} from './IsolatedWorlds.js';
import {MAIN_WORLD} from './IsolatedWorlds.js';
import {CdpJSHandle} from './JSHandle.js';
import {CdpWebWorker} from './WebWorker.js';

/**
 * @internal
 */
export interface PageBinding {
  name: string;
  // eslint-disable-next-line @typescript-eslint/no-unsafe-function-type
  pptrFunction: Function;
}

/**
 * @internal
 */
export interface IsolatedWorldChart {
  [key: string]: IsolatedWorld;
  [MAIN_WORLD]: IsolatedWorld;
  [PUPPETEER_WORLD]: IsolatedWorld;
}

/**
 * @internal
 */
export type IsolatedWorldEmitter = EventEmitter<{
  // Emitted when the isolated world gets a new execution context.
  context: ExecutionContext;
  // Emitted when the isolated world is disposed.
  disposed: undefined;
  // Emitted when a new console message is logged.
  consoleapicalled: Protocol.Runtime.ConsoleAPICalledEvent;
  /** Emitted when a binding that is not installed by the ExecutionContext is called. */
  bindingcalled: Protocol.Runtime.BindingCalledEvent;
}>;

/**
 * @internal
 */
export class IsolatedWorld extends Realm {
  #context?: ExecutionContext;
  #emitter: IsolatedWorldEmitter = new EventEmitter();
  #worldId: string | symbol;
  #origin?: string;

  readonly #frameOrWorker: CdpFrame | CdpWebWorker;

  constructor(
    frameOrWorker: CdpFrame | CdpWebWorker,
    timeoutSettings: TimeoutSettings,
    worldId: string | symbol,
  ) {
    super(timeoutSettings);
    this.#frameOrWorker = frameOrWorker;
    this.#worldId = worldId;
  }

  get environment(): CdpFrame | CdpWebWorker {
    return this.#frameOrWorker;
  }

  get client(): CDPSession {
    return this.#frameOrWorker.client;
  }

  get emitter(): IsolatedWorldEmitter {
    return this.#emitter;
  }

  setContext(context: ExecutionContext): void {
    this.#context?.[disposeSymbol]();
    context.once('disposed', this.#onContextDisposed.bind(this));
    context.on('consoleapicalled', this.#onContextConsoleApiCalled.bind(this));
    context.on('bindingcalled', this.#onContextBindingCalled.bind(this));
    this.#context = context;
    this.#emitter.emit('context', context);
    void this.taskManager.rerunAll();
  }

  #onContextDisposed(): void {
    this.#context = undefined;
    if ('clearDocumentHandle' in this.#frameOrWorker) {
      this.#frameOrWorker.clearDocumentHandle();
    }
  }

  #onContextConsoleApiCalled(
    event: Protocol.Runtime.ConsoleAPICalledEvent,
  ): void {
    this.#emitter.emit('consoleapicalled', event);
  }

  #onContextBindingCalled(event: Protocol.Runtime.BindingCalledEvent): void {
    this.#emitter.emit('bindingcalled', event);
  }

  hasContext(): boolean {
    return !!this.#context;
  }

  get context(): ExecutionContext | undefined {
    return this.#context;
  }

  #executionContext(): ExecutionContext | undefined {
    if (this.disposed) {
      throw new Error(
        `Execution context is not available in detached frame or worker "${this.environment.url()}" (are you trying to evaluate?)`,
      );
    }
    return this.#context;
  }

  /**
   * Waits for the next context to be set on the isolated world.
   */
  async #waitForExecutionContext(): Promise<ExecutionContext> {
    const error = new Error('Execution context was destroyed');
    const result = await firstValueFrom(
      fromEmitterEvent(this.#emitter, 'context').pipe(
        raceWith(
          fromEmitterEvent(this.#emitter, 'disposed').pipe(
            map(() => {
              // The message has to match the CDP message expected by the WaitTask class.
              throw error;
            }),
          ),
          timeout(this.timeoutSettings.timeout()),
        ),
      ),
    );
    return result;
  }

  async evaluateHandle<
    Params extends unknown[],
    Func extends EvaluateFunc<Params> = EvaluateFunc<Params>,
  >(
    pageFunction: Func | string,
    ...args: Params
  ): Promise<HandleFor<Awaited<ReturnType<Func>>>> {
    pageFunction = withSourcePuppeteerURLIfNone(
      this.evaluateHandle.name,
      pageFunction,
    );
    // This code needs to schedule evaluateHandle call synchronously (at
    // least when the context is there) so we cannot unconditionally
    // await.
    let context = this.#executionContext();
    if (!context) {
      context = await this.#waitForExecutionContext();
    }
    return await context.evaluateHandle(pageFunction, ...args);
  }

  async evaluate<
    Params extends unknown[],
    Func extends EvaluateFunc<Params> = EvaluateFunc<Params>,
  >(
    pageFunction: Func | string,
    ...args: Params
  ): Promise<Awaited<ReturnType<Func>>> {
    pageFunction = withSourcePuppeteerURLIfNone(
      this.evaluate.name,
      pageFunction,
    );
    // This code needs to schedule evaluate call synchronously (at
    // least when the context is there) so we cannot unconditionally
    // await.
    let context = this.#executionContext();
    if (!context) {
      context = await this.#waitForExecutionContext();
    }
    return await context.evaluate(pageFunction, ...args);
  }

  override async adoptBackendNode(
    backendNodeId?: Protocol.DOM.BackendNodeId,
  ): Promise<JSHandle<Node>> {
    // This code needs to schedule resolveNode call synchronously (at
    // least when the context is there) so we cannot unconditionally
    // await.
    let context = this.#executionContext();
    if (!context) {
      context = await this.#waitForExecutionContext();
    }
    const {object} = await this.client.send('DOM.resolveNode', {
      backendNodeId: backendNodeId,
      executionContextId: context.id,
    });
    return this.createCdpHandle(object) as JSHandle<Node>;
  }

  async adoptHandle<T extends JSHandle<Node>>(handle: T): Promise<T> {
    if (handle.realm === this) {
      // If the context has already adopted this handle, clone it so downstream
      // disposal doesn't become an issue.
      return (await handle.evaluateHandle(value => {
        return value;
      })) as unknown as T;
    }
    const nodeInfo = await this.client.send('DOM.describeNode', {
      objectId: handle.id,
    });
    return (await this.adoptBackendNode(nodeInfo.node.backendNodeId)) as T;
  }

  async transferHandle<T extends JSHandle<Node>>(handle: T): Promise<T> {
    if (handle.realm === this) {
      return handle;
    }
    // Implies it's a primitive value, probably.
    if (handle.remoteObject().objectId === undefined) {
      return handle;
    }
    const info = await this.client.send('DOM.describeNode', {
      objectId: handle.remoteObject().objectId,
    });
    const newHandle = (await this.adoptBackendNode(
      info.node.backendNodeId,
    )) as T;
    await handle.dispose();
    return newHandle;
  }

  /**
   * @internal
   */
  createCdpHandle(
    remoteObject: Protocol.Runtime.RemoteObject,
  ): JSHandle | ElementHandle<Node> {
    if (remoteObject.subtype === 'node') {
      return new CdpElementHandle(this, remoteObject);
    }
    return new CdpJSHandle(this, remoteObject);
  }

  override [disposeSymbol](): void {
    this.#context?.[disposeSymbol]();
    this.#emitter.emit('disposed', undefined);
    super[disposeSymbol]();
    this.#emitter.removeAllListeners();
  }

  override get origin(): string | undefined {
    return this.#origin;
  }

  set origin(origin: string) {
    this.#origin = origin;
  }

  setWorldId(worldId: string | symbol): void {
    this.#worldId = worldId;
  }

  async extension(): Promise<Extension | null> {
    if (this.#frameOrWorker instanceof CdpWebWorker) {
      throw new Error('Unable to get extension from Realm');
    }

    if (this.#worldId === MAIN_WORLD) {
      return null;
    }

    if (typeof this.#worldId === 'string') {
      const extensions = await this.#frameOrWorker._frameManager
        .page()
        .browser()
        .extensions();
      return extensions.get(this.#worldId) ?? null;
    }

    return null;
  }
}
