/**
 * @license
 * Copyright 2022 Google Inc.
 * SPDX-License-Identifier: Apache-2.0
 */

import type {Protocol} from 'devtools-protocol';

import {CdpHTTPRequest} from './HTTPRequest.js';

/**
 * @internal
 */
export interface QueuedEventGroup {
  responseReceivedEvent: Protocol.Network.ResponseReceivedEvent;
  loadingFinishedEvent?: Protocol.Network.LoadingFinishedEvent;
  loadingFailedEvent?: Protocol.Network.LoadingFailedEvent;
}

/**
 * @internal
 */
export type FetchRequestId = string;

/**
 * @internal
 */
export interface RedirectInfo {
  event: Protocol.Network.RequestWillBeSentEvent;
  fetchRequestId?: FetchRequestId;
}
type RedirectInfoList = RedirectInfo[];

/**
 * @internal
 */
export type NetworkRequestId = string;

/**
 * Helper class to track network events by request ID
 *
 * @internal
 */
export class NetworkEventManager {
  /**
   * There are four possible orders of events:
   * A. `_onRequestWillBeSent`
   * B. `_onRequestWillBeSent`, `_onRequestPaused`
   * C. `_onRequestPaused`, `_onRequestWillBeSent`
   * D. `_onRequestPaused`, `_onRequestWillBeSent`, `_onRequestPaused`,
   * `_onRequestWillBeSent`, `_onRequestPaused`, `_onRequestPaused`
   * (see crbug.com/1196004)
   *
   * For `_onRequest` we need the event from `_onRequestWillBeSent` and
   * optionally the `interceptionId` from `_onRequestPaused`.
   *
   * If request interception is disabled, call `_onRequest` once per call to
   * `_onRequestWillBeSent`.
   * If request interception is enabled, call `_onRequest` once per call to
   * `_onRequestPaused` (once per `interceptionId`).
   *
   * Events are stored to allow for subsequent events to call `_onRequest`.
   *
   * Note that (chains of) redirect requests have the same `requestId` (!) as
   * the original request. We have to anticipate series of events like these:
   * A. `_onRequestWillBeSent`,
   * `_onRequestWillBeSent`, ...
   * B. `_onRequestWillBeSent`, `_onRequestPaused`,
   * `_onRequestWillBeSent`, `_onRequestPaused`, ...
   * C. `_onRequestWillBeSent`, `_onRequestPaused`,
   * `_onRequestPaused`, `_onRequestWillBeSent`, ...
   * D. `_onRequestPaused`, `_onRequestWillBeSent`,
   * `_onRequestPaused`, `_onRequestWillBeSent`, `_onRequestPaused`,
   * `_onRequestWillBeSent`, `_onRequestPaused`, `_onRequestPaused`, ...
   * (see crbug.com/1196004)
   */
  #requestWillBeSentMap = new Map<
    NetworkRequestId,
    Protocol.Network.RequestWillBeSentEvent
  >();
  #requestPausedMap = new Map<
    NetworkRequestId,
    Protocol.Fetch.RequestPausedEvent
  >();
  #httpRequestsMap = new Map<NetworkRequestId, CdpHTTPRequest>();
  #requestWillBeSentExtraInfoMap = new Map<
    NetworkRequestId,
    Protocol.Network.RequestWillBeSentExtraInfoEvent[]
  >();
  /*
   * The below maps are used to reconcile Network.responseReceivedExtraInfo
   * events with their corresponding request. Each response and redirect
   * response gets an ExtraInfo event, and we don't know which will come first.
   * This means that we have to store a Response or an ExtraInfo for each
   * response, and emit the event when we get both of them. In addition, to
   * handle redirects, we have to make them Arrays to represent the chain of
   * events.
   */
  #responseReceivedExtraInfoMap = new Map<
    NetworkRequestId,
    Protocol.Network.ResponseReceivedExtraInfoEvent[]
  >();
  #queuedRedirectInfoMap = new Map<NetworkRequestId, RedirectInfoList>();
  #queuedEventGroupMap = new Map<NetworkRequestId, QueuedEventGroup>();

  forget(networkRequestId: NetworkRequestId): void {
    this.#requestWillBeSentMap.delete(networkRequestId);
    this.#requestPausedMap.delete(networkRequestId);
    this.#requestWillBeSentExtraInfoMap.delete(networkRequestId);
    this.#queuedEventGroupMap.delete(networkRequestId);
    this.#queuedRedirectInfoMap.delete(networkRequestId);
    this.#responseReceivedExtraInfoMap.delete(networkRequestId);
  }

  requestExtraInfo(
    networkRequestId: NetworkRequestId,
  ): Protocol.Network.RequestWillBeSentExtraInfoEvent[] {
    if (!this.#requestWillBeSentExtraInfoMap.has(networkRequestId)) {
      this.#requestWillBeSentExtraInfoMap.set(networkRequestId, []);
    }
    return this.#requestWillBeSentExtraInfoMap.get(
      networkRequestId,
    ) as Protocol.Network.RequestWillBeSentExtraInfoEvent[];
  }

  responseExtraInfo(
    networkRequestId: NetworkRequestId,
  ): Protocol.Network.ResponseReceivedExtraInfoEvent[] {
    if (!this.#responseReceivedExtraInfoMap.has(networkRequestId)) {
      this.#responseReceivedExtraInfoMap.set(networkRequestId, []);
    }
    return this.#responseReceivedExtraInfoMap.get(
      networkRequestId,
    ) as Protocol.Network.ResponseReceivedExtraInfoEvent[];
  }

  private queuedRedirectInfo(fetchRequestId: FetchRequestId): RedirectInfoList {
    if (!this.#queuedRedirectInfoMap.has(fetchRequestId)) {
      this.#queuedRedirectInfoMap.set(fetchRequestId, []);
    }
    return this.#queuedRedirectInfoMap.get(fetchRequestId) as RedirectInfoList;
  }

  queueRedirectInfo(
    fetchRequestId: FetchRequestId,
    redirectInfo: RedirectInfo,
  ): void {
    this.queuedRedirectInfo(fetchRequestId).push(redirectInfo);
  }

  takeQueuedRedirectInfo(
    fetchRequestId: FetchRequestId,
  ): RedirectInfo | undefined {
    return this.queuedRedirectInfo(fetchRequestId).shift();
  }

  inFlightRequestsCount(): number {
    let inFlightRequestCounter = 0;
    for (const request of this.#httpRequestsMap.values()) {
      if (!request.response()) {
        inFlightRequestCounter++;
      }
    }
    return inFlightRequestCounter;
  }

  storeRequestWillBeSent(
    networkRequestId: NetworkRequestId,
    event: Protocol.Network.RequestWillBeSentEvent,
  ): void {
    this.#requestWillBeSentMap.set(networkRequestId, event);
  }

  getRequestWillBeSent(
    networkRequestId: NetworkRequestId,
  ): Protocol.Network.RequestWillBeSentEvent | undefined {
    return this.#requestWillBeSentMap.get(networkRequestId);
  }

  forgetRequestWillBeSent(networkRequestId: NetworkRequestId): void {
    this.#requestWillBeSentMap.delete(networkRequestId);
  }

  getRequestPaused(
    networkRequestId: NetworkRequestId,
  ): Protocol.Fetch.RequestPausedEvent | undefined {
    return this.#requestPausedMap.get(networkRequestId);
  }

  forgetRequestPaused(networkRequestId: NetworkRequestId): void {
    this.#requestPausedMap.delete(networkRequestId);
  }

  storeRequestPaused(
    networkRequestId: NetworkRequestId,
    event: Protocol.Fetch.RequestPausedEvent,
  ): void {
    this.#requestPausedMap.set(networkRequestId, event);
  }

  getRequest(networkRequestId: NetworkRequestId): CdpHTTPRequest | undefined {
    return this.#httpRequestsMap.get(networkRequestId);
  }

  storeRequest(
    networkRequestId: NetworkRequestId,
    request: CdpHTTPRequest,
  ): void {
    this.#httpRequestsMap.set(networkRequestId, request);
  }

  forgetRequest(networkRequestId: NetworkRequestId): void {
    this.#httpRequestsMap.delete(networkRequestId);
  }

  getQueuedEventGroup(
    networkRequestId: NetworkRequestId,
  ): QueuedEventGroup | undefined {
    return this.#queuedEventGroupMap.get(networkRequestId);
  }

  queueEventGroup(
    networkRequestId: NetworkRequestId,
    event: QueuedEventGroup,
  ): void {
    this.#queuedEventGroupMap.set(networkRequestId, event);
  }

  forgetQueuedEventGroup(networkRequestId: NetworkRequestId): void {
    this.#queuedEventGroupMap.delete(networkRequestId);
  }

  printState(): void {
    function replacer(_key: unknown, value: unknown) {
      if (value instanceof Map) {
        return {
          dataType: 'Map',
          value: Array.from(value.entries()), // or with spread: value: [...value]
        };
      } else if (value instanceof CdpHTTPRequest) {
        return {
          dataType: 'CdpHTTPRequest',
          value: `${value.id}: ${value.url()}`,
        };
      }
      {
        return value;
      }
    }
    console.log(
      'httpRequestsMap',
      JSON.stringify(this.#httpRequestsMap, replacer, 2),
    );
    console.log(
      'requestWillBeSentMap',
      JSON.stringify(this.#requestWillBeSentMap, replacer, 2),
    );
    console.log(
      'requestWillBeSentMap',
      JSON.stringify(this.#responseReceivedExtraInfoMap, replacer, 2),
    );
    console.log(
      'requestWillBeSentMap',
      JSON.stringify(this.#requestPausedMap, replacer, 2),
    );
  }
}
