import type { Primitive } from "./helpers/typeAliases.js";
import { util, type ZodParsedType } from "./helpers/util.js";
import type { TypeOf, ZodType } from "./index.js";

type allKeys<T> = T extends any ? keyof T : never;

export type inferFlattenedErrors<T extends ZodType<any, any, any>, U = string> = typeToFlattenedError<TypeOf<T>, U>;
export type typeToFlattenedError<T, U = string> = {
  formErrors: U[];
  fieldErrors: {
    [P in allKeys<T>]?: U[];
  };
};

export const ZodIssueCode = util.arrayToEnum([
  "invalid_type",
  "invalid_literal",
  "custom",
  "invalid_union",
  "invalid_union_discriminator",
  "invalid_enum_value",
  "unrecognized_keys",
  "invalid_arguments",
  "invalid_return_type",
  "invalid_date",
  "invalid_string",
  "too_small",
  "too_big",
  "invalid_intersection_types",
  "not_multiple_of",
  "not_finite",
]);

export type ZodIssueCode = keyof typeof ZodIssueCode;

export type ZodIssueBase = {
  path: (string | number)[];
  message?: string | undefined;
};

export interface ZodInvalidTypeIssue extends ZodIssueBase {
  code: typeof ZodIssueCode.invalid_type;
  expected: ZodParsedType;
  received: ZodParsedType;
}

export interface ZodInvalidLiteralIssue extends ZodIssueBase {
  code: typeof ZodIssueCode.invalid_literal;
  expected: unknown;
  received: unknown;
}

export interface ZodUnrecognizedKeysIssue extends ZodIssueBase {
  code: typeof ZodIssueCode.unrecognized_keys;
  keys: string[];
}

export interface ZodInvalidUnionIssue extends ZodIssueBase {
  code: typeof ZodIssueCode.invalid_union;
  unionErrors: ZodError[];
}

export interface ZodInvalidUnionDiscriminatorIssue extends ZodIssueBase {
  code: typeof ZodIssueCode.invalid_union_discriminator;
  options: Primitive[];
}

export interface ZodInvalidEnumValueIssue extends ZodIssueBase {
  received: string | number;
  code: typeof ZodIssueCode.invalid_enum_value;
  options: (string | number)[];
}

export interface ZodInvalidArgumentsIssue extends ZodIssueBase {
  code: typeof ZodIssueCode.invalid_arguments;
  argumentsError: ZodError;
}

export interface ZodInvalidReturnTypeIssue extends ZodIssueBase {
  code: typeof ZodIssueCode.invalid_return_type;
  returnTypeError: ZodError;
}

export interface ZodInvalidDateIssue extends ZodIssueBase {
  code: typeof ZodIssueCode.invalid_date;
}

export type StringValidation =
  | "email"
  | "url"
  | "emoji"
  | "uuid"
  | "nanoid"
  | "regex"
  | "cuid"
  | "cuid2"
  | "ulid"
  | "datetime"
  | "date"
  | "time"
  | "duration"
  | "ip"
  | "cidr"
  | "base64"
  | "jwt"
  | "base64url"
  | { includes: string; position?: number | undefined }
  | { startsWith: string }
  | { endsWith: string };

export interface ZodInvalidStringIssue extends ZodIssueBase {
  code: typeof ZodIssueCode.invalid_string;
  validation: StringValidation;
}

export interface ZodTooSmallIssue extends ZodIssueBase {
  code: typeof ZodIssueCode.too_small;
  minimum: number | bigint;
  inclusive: boolean;
  exact?: boolean;
  type: "array" | "string" | "number" | "set" | "date" | "bigint";
}

export interface ZodTooBigIssue extends ZodIssueBase {
  code: typeof ZodIssueCode.too_big;
  maximum: number | bigint;
  inclusive: boolean;
  exact?: boolean;
  type: "array" | "string" | "number" | "set" | "date" | "bigint";
}

export interface ZodInvalidIntersectionTypesIssue extends ZodIssueBase {
  code: typeof ZodIssueCode.invalid_intersection_types;
}

export interface ZodNotMultipleOfIssue extends ZodIssueBase {
  code: typeof ZodIssueCode.not_multiple_of;
  multipleOf: number | bigint;
}

export interface ZodNotFiniteIssue extends ZodIssueBase {
  code: typeof ZodIssueCode.not_finite;
}

export interface ZodCustomIssue extends ZodIssueBase {
  code: typeof ZodIssueCode.custom;
  params?: { [k: string]: any };
}

export type DenormalizedError = { [k: string]: DenormalizedError | string[] };

export type ZodIssueOptionalMessage =
  | ZodInvalidTypeIssue
  | ZodInvalidLiteralIssue
  | ZodUnrecognizedKeysIssue
  | ZodInvalidUnionIssue
  | ZodInvalidUnionDiscriminatorIssue
  | ZodInvalidEnumValueIssue
  | ZodInvalidArgumentsIssue
  | ZodInvalidReturnTypeIssue
  | ZodInvalidDateIssue
  | ZodInvalidStringIssue
  | ZodTooSmallIssue
  | ZodTooBigIssue
  | ZodInvalidIntersectionTypesIssue
  | ZodNotMultipleOfIssue
  | ZodNotFiniteIssue
  | ZodCustomIssue;

export type ZodIssue = ZodIssueOptionalMessage & {
  fatal?: boolean | undefined;
  message: string;
};

export const quotelessJson = (obj: any) => {
  const json = JSON.stringify(obj, null, 2);
  return json.replace(/"([^"]+)":/g, "$1:");
};

type recursiveZodFormattedError<T> = T extends [any, ...any[]]
  ? { [K in keyof T]?: ZodFormattedError<T[K]> }
  : T extends any[]
    ? { [k: number]: ZodFormattedError<T[number]> }
    : T extends object
      ? { [K in keyof T]?: ZodFormattedError<T[K]> }
      : unknown;

export type ZodFormattedError<T, U = string> = {
  _errors: U[];
} & recursiveZodFormattedError<NonNullable<T>>;

export type inferFormattedError<T extends ZodType<any, any, any>, U = string> = ZodFormattedError<TypeOf<T>, U>;

export class ZodError<T = any> extends Error {
  issues: ZodIssue[] = [];

  get errors() {
    return this.issues;
  }

  constructor(issues: ZodIssue[]) {
    super();

    const actualProto = new.target.prototype;
    if (Object.setPrototypeOf) {
      // eslint-disable-next-line ban/ban
      Object.setPrototypeOf(this, actualProto);
    } else {
      (this as any).__proto__ = actualProto;
    }
    this.name = "ZodError";
    this.issues = issues;
  }

  format(): ZodFormattedError<T>;
  format<U>(mapper: (issue: ZodIssue) => U): ZodFormattedError<T, U>;
  format(_mapper?: any) {
    const mapper: (issue: ZodIssue) => any =
      _mapper ||
      function (issue: ZodIssue) {
        return issue.message;
      };
    const fieldErrors: ZodFormattedError<T> = { _errors: [] } as any;
    const processError = (error: ZodError) => {
      for (const issue of error.issues) {
        if (issue.code === "invalid_union") {
          issue.unionErrors.map(processError);
        } else if (issue.code === "invalid_return_type") {
          processError(issue.returnTypeError);
        } else if (issue.code === "invalid_arguments") {
          processError(issue.argumentsError);
        } else if (issue.path.length === 0) {
          (fieldErrors as any)._errors.push(mapper(issue));
        } else {
          let curr: any = fieldErrors;
          let i = 0;
          while (i < issue.path.length) {
            const el = issue.path[i]!;
            const terminal = i === issue.path.length - 1;

            if (!terminal) {
              curr[el] = curr[el] || { _errors: [] };
              // if (typeof el === "string") {
              //   curr[el] = curr[el] || { _errors: [] };
              // } else if (typeof el === "number") {
              //   const errorArray: any = [];
              //   errorArray._errors = [];
              //   curr[el] = curr[el] || errorArray;
              // }
            } else {
              curr[el] = curr[el] || { _errors: [] };
              curr[el]._errors.push(mapper(issue));
            }

            curr = curr[el];
            i++;
          }
        }
      }
    };

    processError(this);
    return fieldErrors;
  }

  static create = (issues: ZodIssue[]) => {
    const error = new ZodError(issues);
    return error;
  };

  static assert(value: unknown): asserts value is ZodError {
    if (!(value instanceof ZodError)) {
      throw new Error(`Not a ZodError: ${value}`);
    }
  }

  override toString() {
    return this.message;
  }
  override get message() {
    return JSON.stringify(this.issues, util.jsonStringifyReplacer, 2);
  }

  get isEmpty(): boolean {
    return this.issues.length === 0;
  }

  addIssue = (sub: ZodIssue) => {
    this.issues = [...this.issues, sub];
  };

  addIssues = (subs: ZodIssue[] = []) => {
    this.issues = [...this.issues, ...subs];
  };

  flatten(): typeToFlattenedError<T>;
  flatten<U>(mapper?: (issue: ZodIssue) => U): typeToFlattenedError<T, U>;
  flatten<U = string>(mapper: (issue: ZodIssue) => U = (issue: ZodIssue) => issue.message as any): any {
    const fieldErrors: any = {};
    const formErrors: U[] = [];
    for (const sub of this.issues) {
      if (sub.path.length > 0) {
        const firstEl = sub.path[0]!;
        fieldErrors[firstEl] = fieldErrors[firstEl] || [];
        fieldErrors[firstEl].push(mapper(sub));
      } else {
        formErrors.push(mapper(sub));
      }
    }
    return { formErrors, fieldErrors };
  }

  get formErrors() {
    return this.flatten();
  }
}

type stripPath<T extends object> = T extends any ? util.OmitKeys<T, "path"> : never;

export type IssueData = stripPath<ZodIssueOptionalMessage> & {
  path?: (string | number)[];
  fatal?: boolean | undefined;
};

export type ErrorMapCtx = {
  defaultError: string;
  data: any;
};

export type ZodErrorMap = (issue: ZodIssueOptionalMessage, _ctx: ErrorMapCtx) => { message: string };
