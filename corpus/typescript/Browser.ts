/**
 * @license
 * Copyright 2017 Google Inc.
 * SPDX-License-Identifier: Apache-2.0
 */

import type {ChildProcess} from 'node:child_process';

import type {Protocol} from 'devtools-protocol';

import type {CreatePageOptions, DebugInfo} from '../api/Browser.js';
import {
  Browser as BrowserBase,
  BrowserEvent,
  type BrowserCloseCallback,
  type BrowserContextOptions,
  type IsPageTargetCallback,
  type TargetFilterCallback,
  type ScreenInfo,
  type AddScreenParams,
  type WindowBounds,
  type WindowId,
} from '../api/Browser.js';
import {BrowserContextEvent} from '../api/BrowserContext.js';
import {CDPSessionEvent} from '../api/CDPSession.js';
import type {Extension} from '../api/Extension.js';
import type {Page} from '../api/Page.js';
import type {Target} from '../api/Target.js';
import type {DownloadBehavior} from '../common/DownloadBehavior.js';
import type {Viewport} from '../common/Viewport.js';

import {CdpBrowserContext} from './BrowserContext.js';
import type {CdpCDPSession} from './CdpSession.js';
import type {Connection} from './Connection.js';
import {CdpExtension} from './Extension.js';
import {
  DevToolsTarget,
  InitializationStatus,
  OtherTarget,
  PageTarget,
  WorkerTarget,
  type CdpTarget,
} from './Target.js';
import {TargetManagerEvent} from './TargetManageEvents.js';
import {TargetManager} from './TargetManager.js';

/**
 * @internal
 */
function isDevToolsPageTarget(url: string): boolean {
  return url.startsWith('devtools://devtools/bundled/devtools_app.html');
}

/**
 * @internal
 */
export class CdpBrowser extends BrowserBase {
  readonly protocol = 'cdp';

  static async _create(
    connection: Connection,
    contextIds: string[],
    acceptInsecureCerts: boolean,
    defaultViewport?: Viewport | null,
    downloadBehavior?: DownloadBehavior,
    process?: ChildProcess,
    closeCallback?: BrowserCloseCallback,
    targetFilterCallback?: TargetFilterCallback,
    isPageTargetCallback?: IsPageTargetCallback,
    waitForInitiallyDiscoveredTargets = true,
    networkEnabled = true,
    issuesEnabled = true,
    handleDevToolsAsPage = false,
    blockList?: string[],
  ): Promise<CdpBrowser> {
    const browser = new CdpBrowser(
      connection,
      contextIds,
      defaultViewport,
      process,
      closeCallback,
      targetFilterCallback,
      isPageTargetCallback,
      waitForInitiallyDiscoveredTargets,
      networkEnabled,
      issuesEnabled,
      handleDevToolsAsPage,
      blockList,
    );
    if (acceptInsecureCerts) {
      await connection.send('Security.setIgnoreCertificateErrors', {
        ignore: true,
      });
    }
    await browser._attach(downloadBehavior);
    return browser;
  }
  #defaultViewport?: Viewport | null;
  #process?: ChildProcess;
  #connection: Connection;
  #closeCallback: BrowserCloseCallback;
  #targetFilterCallback: TargetFilterCallback;
  #isPageTargetCallback!: IsPageTargetCallback;
  #defaultContext: CdpBrowserContext;
  #contexts = new Map<string, CdpBrowserContext>();
  #networkEnabled = true;
  #issuesEnabled = true;
  #targetManager: TargetManager;
  #handleDevToolsAsPage = false;
  #extensions = new Map<string, Extension>();

  constructor(
    connection: Connection,
    contextIds: string[],
    defaultViewport?: Viewport | null,
    process?: ChildProcess,
    closeCallback?: BrowserCloseCallback,
    targetFilterCallback?: TargetFilterCallback,
    isPageTargetCallback?: IsPageTargetCallback,
    waitForInitiallyDiscoveredTargets = true,
    networkEnabled = true,
    issuesEnabled = true,
    handleDevToolsAsPage = false,
    networkConditions?: string[],
  ) {
    super();
    this.#networkEnabled = networkEnabled;
    this.#issuesEnabled = issuesEnabled;
    this.#defaultViewport = defaultViewport;
    this.#process = process;
    this.#connection = connection;
    this.#closeCallback = closeCallback || (() => {});
    this.#targetFilterCallback =
      targetFilterCallback ||
      (() => {
        return true;
      });
    this.#handleDevToolsAsPage = handleDevToolsAsPage;
    this.#setIsPageTargetCallback(isPageTargetCallback);
    this.#targetManager = new TargetManager(
      connection,
      this.#createTarget,
      this.#targetFilterCallback,
      waitForInitiallyDiscoveredTargets,
      networkConditions,
    );
    this.#defaultContext = new CdpBrowserContext(this.#connection, this);
    for (const contextId of contextIds) {
      this.#contexts.set(
        contextId,
        new CdpBrowserContext(this.#connection, this, contextId),
      );
    }
  }

  #emitDisconnected = () => {
    this.emit(BrowserEvent.Disconnected, undefined);
  };

  async _attach(downloadBehavior: DownloadBehavior | undefined): Promise<void> {
    this.#connection.on(CDPSessionEvent.Disconnected, this.#emitDisconnected);
    if (downloadBehavior) {
      await this.#defaultContext.setDownloadBehavior(downloadBehavior);
    }
    this.#targetManager.on(
      TargetManagerEvent.TargetAvailable,
      this.#onAttachedToTarget,
    );
    this.#targetManager.on(
      TargetManagerEvent.TargetGone,
      this.#onDetachedFromTarget,
    );
    this.#targetManager.on(
      TargetManagerEvent.TargetChanged,
      this.#onTargetChanged,
    );
    this.#targetManager.on(
      TargetManagerEvent.TargetDiscovered,
      this.#onTargetDiscovered,
    );
    await this.#targetManager.initialize();
  }

  _detach(): void {
    this.#connection.off(CDPSessionEvent.Disconnected, this.#emitDisconnected);
    this.#targetManager.off(
      TargetManagerEvent.TargetAvailable,
      this.#onAttachedToTarget,
    );
    this.#targetManager.off(
      TargetManagerEvent.TargetGone,
      this.#onDetachedFromTarget,
    );
    this.#targetManager.off(
      TargetManagerEvent.TargetChanged,
      this.#onTargetChanged,
    );
    this.#targetManager.off(
      TargetManagerEvent.TargetDiscovered,
      this.#onTargetDiscovered,
    );
  }

  override process(): ChildProcess | null {
    return this.#process ?? null;
  }

  _targetManager(): TargetManager {
    return this.#targetManager;
  }

  #setIsPageTargetCallback(isPageTargetCallback?: IsPageTargetCallback): void {
    this.#isPageTargetCallback =
      isPageTargetCallback ||
      ((target: Target): boolean => {
        return (
          target.type() === 'page' ||
          target.type() === 'background_page' ||
          target.type() === 'webview' ||
          (this.#handleDevToolsAsPage &&
            target.type() === 'other' &&
            isDevToolsPageTarget(target.url()))
        );
      });
  }

  _getIsPageTargetCallback(): IsPageTargetCallback | undefined {
    return this.#isPageTargetCallback;
  }

  override async createBrowserContext(
    options: BrowserContextOptions = {},
  ): Promise<CdpBrowserContext> {
    const {proxyServer, proxyBypassList, downloadBehavior} = options;

    const {browserContextId} = await this.#connection.send(
      'Target.createBrowserContext',
      {
        proxyServer,
        proxyBypassList: proxyBypassList && proxyBypassList.join(','),
      },
    );
    const context = new CdpBrowserContext(
      this.#connection,
      this,
      browserContextId,
    );
    if (downloadBehavior) {
      await context.setDownloadBehavior(downloadBehavior);
    }
    this.#contexts.set(browserContextId, context);
    return context;
  }

  override browserContexts(): CdpBrowserContext[] {
    return [this.#defaultContext, ...Array.from(this.#contexts.values())];
  }

  override defaultBrowserContext(): CdpBrowserContext {
    return this.#defaultContext;
  }

  async _disposeContext(contextId?: string): Promise<void> {
    if (!contextId) {
      return;
    }
    await this.#connection.send('Target.disposeBrowserContext', {
      browserContextId: contextId,
    });
    this.#contexts.delete(contextId);
  }

  #createTarget = (
    targetInfo: Protocol.Target.TargetInfo,
    session?: CdpCDPSession,
  ) => {
    const {browserContextId} = targetInfo;
    const context =
      browserContextId && this.#contexts.has(browserContextId)
        ? this.#contexts.get(browserContextId)
        : this.#defaultContext;

    if (!context) {
      throw new Error('Missing browser context');
    }

    const createSession = (isAutoAttachEmulated: boolean) => {
      return this.#connection._createSession(targetInfo, isAutoAttachEmulated);
    };
    const otherTarget = new OtherTarget(
      targetInfo,
      session,
      context,
      this.#targetManager,
      createSession,
    );
    if (targetInfo.url && isDevToolsPageTarget(targetInfo.url)) {
      return new DevToolsTarget(
        targetInfo,
        session,
        context,
        this.#targetManager,
        createSession,
        this.#defaultViewport ?? null,
      );
    }
    if (this.#isPageTargetCallback(otherTarget)) {
      return new PageTarget(
        targetInfo,
        session,
        context,
        this.#targetManager,
        createSession,
        this.#defaultViewport ?? null,
      );
    }
    if (
      targetInfo.type === 'service_worker' ||
      targetInfo.type === 'shared_worker'
    ) {
      return new WorkerTarget(
        targetInfo,
        session,
        context,
        this.#targetManager,
        createSession,
      );
    }
    return otherTarget;
  };

  #onAttachedToTarget = async (target: CdpTarget) => {
    if (
      target._isTargetExposed() &&
      (await target._initializedDeferred.valueOrThrow()) ===
        InitializationStatus.SUCCESS
    ) {
      this.emit(BrowserEvent.TargetCreated, target);
      target.browserContext().emit(BrowserContextEvent.TargetCreated, target);
    }
  };

  #onDetachedFromTarget = async (target: CdpTarget): Promise<void> => {
    target._initializedDeferred.resolve(InitializationStatus.ABORTED);
    target._isClosedDeferred.resolve();
    if (
      target._isTargetExposed() &&
      (await target._initializedDeferred.valueOrThrow()) ===
        InitializationStatus.SUCCESS
    ) {
      this.emit(BrowserEvent.TargetDestroyed, target);
      target.browserContext().emit(BrowserContextEvent.TargetDestroyed, target);
    }
  };

  #onTargetChanged = ({target}: {target: CdpTarget}): void => {
    this.emit(BrowserEvent.TargetChanged, target);
    target.browserContext().emit(BrowserContextEvent.TargetChanged, target);
  };

  #onTargetDiscovered = (targetInfo: Protocol.Target.TargetInfo): void => {
    this.emit(BrowserEvent.TargetDiscovered, targetInfo);
  };

  override wsEndpoint(): string {
    return this.#connection.url();
  }

  override async newPage(options?: CreatePageOptions): Promise<Page> {
    return await this.#defaultContext.newPage(options);
  }

  async _createPageInContext(
    contextId?: string,
    options?: CreatePageOptions,
  ): Promise<Page> {
    const hasTargets =
      this.targets().filter(t => {
        return t.browserContext().id === contextId;
      }).length > 0;
    const windowBounds =
      options?.type === 'window' ? options.windowBounds : undefined;
    const {targetId} = await this.#connection.send('Target.createTarget', {
      url: 'about:blank',
      browserContextId: contextId || undefined,
      left: windowBounds?.left,
      top: windowBounds?.top,
      width: windowBounds?.width,
      height: windowBounds?.height,
      windowState: windowBounds?.windowState,
      // Works around crbug.com/454825274.
      newWindow: hasTargets && options?.type === 'window' ? true : undefined,
      background: options?.background,
    });
    const target = (await this.waitForTarget(t => {
      return (t as CdpTarget)._targetId === targetId;
    })) as CdpTarget;
    if (!target) {
      throw new Error(`Missing target for page (id = ${targetId})`);
    }
    const initialized =
      (await target._initializedDeferred.valueOrThrow()) ===
      InitializationStatus.SUCCESS;
    if (!initialized) {
      throw new Error(`Failed to create target for page (id = ${targetId})`);
    }
    const page = await target.page();
    if (!page) {
      throw new Error(
        `Failed to create a page for context (id = ${contextId})`,
      );
    }
    return page;
  }

  async _createDevToolsPage(pageTargetId: string): Promise<Page> {
    const openDevToolsResponse = await this.#connection.send(
      'Target.openDevTools',
      {
        targetId: pageTargetId,
      },
    );
    const target = (await this.waitForTarget(t => {
      return (t as CdpTarget)._targetId === openDevToolsResponse.targetId;
    })) as CdpTarget;
    if (!target) {
      throw new Error(
        `Missing target for DevTools page (id = ${pageTargetId})`,
      );
    }
    const initialized =
      (await target._initializedDeferred.valueOrThrow()) ===
      InitializationStatus.SUCCESS;
    if (!initialized) {
      throw new Error(
        `Failed to create target for DevTools page (id = ${pageTargetId})`,
      );
    }
    const page = await target.page();
    if (!page) {
      throw new Error(
        `Failed to create a DevTools Page for target (id = ${pageTargetId})`,
      );
    }
    return page;
  }

  async _hasDevToolsTarget(pageTargetId: string): Promise<string | undefined> {
    const response = await this.#connection.send('Target.getDevToolsTarget', {
      targetId: pageTargetId,
    });
    return response.targetId;
  }

  override async installExtension(path: string): Promise<string> {
    const {id} = await this.#connection.send('Extensions.loadUnpacked', {path});
    this.#extensions.delete(id);
    return id;
  }

  override async uninstallExtension(id: string): Promise<void> {
    await this.#connection.send('Extensions.uninstall', {id});

    // Currently sending the Extensions.uninstall command does not trigger
    // the Target.targetDestroyed event for service workers. This causes
    // flakiness in the extension tests.
    // TODO(nroscino): Remove this once the event is correctly emitted.
    const targetDestroyedPromises = [];
    for (const [targetId, targetInfo] of this._targetManager()
      .getDiscoveredTargetInfos()
      .entries()) {
      if (targetInfo.url.includes(id) && targetInfo.type === 'service_worker') {
        this._targetManager().addToIgnoreTarget(targetId);
        targetDestroyedPromises.push(
          new Promise(resolve => {
            return setTimeout(() => {
              this.#connection.emit('Target.targetDestroyed', {
                targetId: targetId,
              });
              resolve(null);
            }, 0);
          }),
        );
      }
    }
    await Promise.all(targetDestroyedPromises);

    this.#extensions.delete(id);
  }

  override async screens(): Promise<ScreenInfo[]> {
    const {screenInfos} = await this.#connection.send(
      'Emulation.getScreenInfos',
    );
    return screenInfos;
  }

  override async addScreen(params: AddScreenParams): Promise<ScreenInfo> {
    const {screenInfo} = await this.#connection.send(
      'Emulation.addScreen',
      params,
    );
    return screenInfo;
  }

  override async removeScreen(screenId: string): Promise<void> {
    return await this.#connection.send('Emulation.removeScreen', {screenId});
  }

  override async getWindowBounds(windowId: WindowId): Promise<WindowBounds> {
    const {bounds} = await this.#connection.send('Browser.getWindowBounds', {
      windowId: Number(windowId),
    });
    return bounds;
  }

  override async setWindowBounds(
    windowId: WindowId,
    windowBounds: WindowBounds,
  ): Promise<void> {
    await this.#connection.send('Browser.setWindowBounds', {
      windowId: Number(windowId),
      bounds: windowBounds,
    });
  }

  override targets(): CdpTarget[] {
    return Array.from(
      this.#targetManager.getAvailableTargets().values(),
    ).filter(target => {
      return (
        target._isTargetExposed() &&
        target._initializedDeferred.value() === InitializationStatus.SUCCESS
      );
    });
  }

  override target(): CdpTarget {
    const browserTarget = this.targets().find(target => {
      return target.type() === 'browser';
    });
    if (!browserTarget) {
      throw new Error('Browser target is not found');
    }
    return browserTarget;
  }

  override async version(): Promise<string> {
    const version = await this.#getVersion();
    return version.product;
  }

  override async userAgent(): Promise<string> {
    const version = await this.#getVersion();
    return version.userAgent;
  }

  override async close(): Promise<void> {
    await this.#closeCallback.call(null);
    await this.disconnect();
  }

  override disconnect(): Promise<void> {
    this.#targetManager.dispose();
    this.#connection.dispose();
    this._detach();
    return Promise.resolve();
  }

  /**
   * @internal
   */
  get _connection(): Connection {
    return this.#connection;
  }

  override get connected(): boolean {
    return !this.#connection._closed;
  }

  #getVersion(): Promise<Protocol.Browser.GetVersionResponse> {
    return this.#connection.send('Browser.getVersion');
  }

  override get debugInfo(): DebugInfo {
    return {
      pendingProtocolErrors: this.#connection.getPendingProtocolErrors(),
    };
  }

  override isNetworkEnabled(): boolean {
    return this.#networkEnabled;
  }

  override async extensions(): Promise<Map<string, Extension>> {
    const response = await this.#connection.send('Extensions.getExtensions');

    const extensionsMap = new Map<string, Extension>();

    for (const currExtension of response.extensions) {
      if (this.#extensions.has(currExtension.id)) {
        extensionsMap.set(
          currExtension.id,
          this.#extensions.get(currExtension.id)!,
        );
      } else {
        const newExtension = new CdpExtension(
          currExtension.id,
          currExtension.version,
          currExtension.name,
          currExtension.path,
          currExtension.enabled,
          this,
        );

        extensionsMap.set(currExtension.id, newExtension);
      }
    }

    this.#extensions = extensionsMap;
    return this.#extensions;
  }

  override isIssuesEnabled(): boolean {
    return this.#issuesEnabled;
  }
}
