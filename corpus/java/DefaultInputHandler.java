/*
 * DefaultInputHandler.java - Default implementation of an input handler
 * :tabSize=4:indentSize=4:noTabs=false:
 * :folding=explicit:collapseFolds=1:
 *
 * Copyright (C) 1999, 2003 Slava Pestov
 *
 * This program is free software; you can redistribute it and/or
 * modify it under the terms of the GNU General Public License
 * as published by the Free Software Foundation; either version 2
 * of the License, or any later version.
 *
 * This program is distributed in the hope that it will be useful,
 * but WITHOUT ANY WARRANTY; without even the implied warranty of
 * MERCHANTABILITY or FITNESS FOR A PARTICULAR PURPOSE.  See the
 * GNU General Public License for more details.
 *
 * You should have received a copy of the GNU General Public License
 * along with this program; if not, write to the Free Software
 * Foundation, Inc., 59 Temple Place - Suite 330, Boston, MA  02111-1307, USA.
 */

package org.gjt.sp.jedit.gui;

//{{{ Imports
import java.awt.event.InputEvent;
import java.util.Hashtable;
import java.util.Objects;

import org.gjt.sp.jedit.*;

import javax.annotation.Nonnull;
//}}}

/** The default input handler maps sequences of keystrokes into actions and inserts key typed events into the text area.
 *
 * @author Slava Pestov
 * @version $Id: DefaultInputHandler.java 25698 2023-11-17 01:31:50Z vampire0 $
 */
public class DefaultInputHandler extends InputHandler
{
	//{{{ DefaultInputHandler constructor
	/**
	 * Creates a new input handler with no key bindings defined.
	 * @param view The view
	 * @param bindings An explicitly-specified set of key bindings,
	 * must not be null.
	 * @since jEdit 4.3pre1
	 */
	public DefaultInputHandler(View view, @Nonnull Hashtable bindings)
	{
		super(view);
		Objects.requireNonNull(bindings);
		this.bindings = this.currentBindings = bindings;
	} //}}}

	//{{{ DefaultInputHandler constructor
	/**
	 * Creates a new input handler with no key bindings defined.
	 * @param view The view
	 */
	public DefaultInputHandler(View view)
	{
		this(view,new Hashtable());
	} //}}}

	//{{{ DefaultInputHandler constructor
	/**
	 * Creates a new input handler with the same set of key bindings
	 * as the one specified. Note that both input handlers share
	 * a pointer to exactly the same key binding table; so adding
	 * a key binding in one will also add it to the other.
	 * @param copy The input handler to copy key bindings from
	 * @param view The view
	 */
	public DefaultInputHandler(View view, DefaultInputHandler copy)
	{
		this(view,copy.bindings);
	} //}}}

	//{{{ isPrefixActive() method
	/**
	 * Returns if a prefix key has been pressed.
	 */
	@Override
	public boolean isPrefixActive()
	{
		return bindings != currentBindings
			|| super.isPrefixActive();
	} //}}}

	//{{{ setCurrentBindings() method
	@Override
	public void setCurrentBindings(Hashtable bindings)
	{
		view.getStatus().setMessage((String)bindings.get(PREFIX_STR));
		currentBindings = bindings;
	} //}}}

	//{{{ handleKey() method
	/**
	 * Handles the given keystroke.
	 * @param keyStroke The key stroke
	 * @param dryRun only calculate the return value, do not have any other effect
	 * @since jEdit 4.2pre5
	 */
	@Override
	public boolean handleKey(KeyEventTranslator.Key keyStroke, boolean dryRun)
	{
		char input = '\0';
		if(keyStroke.modifiers == null
			|| keyStroke.modifiers.equals("S"))
		{
			switch(keyStroke.key)
			{
			case '\n':
			case '\t':
				input = (char)keyStroke.key;
				break;
			default:
				input = keyStroke.input;
				break;
			}
		}

		if(readNextChar != null)
		{
			if(input != '\0')
			{
				if (!dryRun)
				{
					setCurrentBindings(bindings);
					invokeReadNextChar(input);
					repeatCount = 1;
				}
				return true;
			}
			else
			{
				if (!dryRun)
				{
					readNextChar = null;
					view.getStatus().setMessage(null);
				}
			}
		}

		Object o = currentBindings.get(keyStroke);
		if(o == null)
		{
			if (!dryRun)
			{
				// Don't beep if the user presses some
				// key we don't know about unless a
				// prefix is active. Otherwise it will
				// beep when caps lock is pressed, etc.
				if(currentBindings != bindings)
				{
					javax.swing.UIManager.getLookAndFeel().provideErrorFeedback(null); 
					// F10 should be passed on, but C+e F10
					// shouldn't
					repeatCount = 1;
					setCurrentBindings(bindings);
				}
				else if(input != '\0')
				{
					if (!keyStroke.isFromGlobalContext())
					{ // let user input be only local
						userInput(input);
					}
				}
				sendShortcutPrefixOff();
			}
		}
		else if(o instanceof Hashtable)
		{
			if (!dryRun)
			{
				setCurrentBindings((Hashtable)o);
				ShortcutPrefixActiveEvent.firePrefixStateChange(currentBindings, true);
				shortcutOn = true;
			}
			return true;
		}
		else if(o instanceof String)
		{
			if (!dryRun)
			{
				setCurrentBindings(bindings);
				sendShortcutPrefixOff();
				invokeAction((String)o);
			}
			return true;
		}
		else if(o instanceof EditAction)
		{
			if (!dryRun)
			{
				setCurrentBindings(bindings);
				sendShortcutPrefixOff();
				invokeAction((EditAction)o);
			}
			return true;
		}
		if (!dryRun)
		{
			sendShortcutPrefixOff();
		}
		return false;
	} //}}}

	//{{{ getSymbolicModifierName() method
	/**
	 * Returns a the symbolic modifier name for the specified Java modifier
	 * flag.
	 *
	 * @param mod A modifier constant from <code>InputEvent</code>
	 *
	 * @since jEdit 4.1pre3
	 */
	public static char getSymbolicModifierName(int mod)
	{
		return KeyEventTranslator.getSymbolicModifierName(mod);
	} //}}}

	//{{{ getModifierString() method
	/**
	 * Returns a string containing symbolic modifier names set in the
	 * specified event.
	 *
	 * @param evt The event
	 *
	 * @since jEdit 4.1pre3
	 */
	public static String getModifierString(InputEvent evt)
	{
		return KeyEventTranslator.getModifierString(evt);
	} //}}}
}
