/*
 * JEditHistoryModelSaver.java -
 * :tabSize=4:indentSize=4:noTabs=false:
 * :folding=explicit:collapseFolds=1:
 *
 * Copyright (C) 2006 Matthieu Casanova
 *
 * This program is free software; you can redistribute it and/or
 * modify it under the terms of the GNU General Public License
 * as published by the Free Software Foundation; either version 2
 * of the License, or any later version.
 *
 * This program is distributed in the hope that it will be useful,
 * but WITHOUT ANY WARRANTY; without even the implied warranty of
 * MERCHANTABILITY or FITNESS FOR A PARTICULAR PURPOSE.  See the
 * GNU General Public License for more details.
 *
 * You should have received a copy of the GNU General Public License
 * along with this program; if not, write to the Free Software
 * Foundation, Inc., 59 Temple Place - Suite 330, Boston, MA  02111-1307, USA.
 */
package org.gjt.sp.jedit.gui;

import org.gjt.sp.util.Log;
import org.gjt.sp.util.IOUtilities;
import org.gjt.sp.util.StandardUtilities;
import org.gjt.sp.jedit.MiscUtilities;
import org.gjt.sp.jedit.jEdit;

import java.io.*;
import java.nio.charset.Charset;
import java.nio.charset.CharacterCodingException;
import java.nio.charset.StandardCharsets;
import java.util.*;

/** Handles loading and saving of the "history" files.
 *
 * A history file is .ini format and stores historymodels for all
 * named historytextfields, separately but in the same file.
 *
 * @author Matthieu Casanova
 * @version $Id: FoldHandler.java 5568 2006-07-10 20:52:23Z kpouer $
 */
public class JEditHistoryModelSaver implements HistoryModelSaver
{
	//{{{ load() method
	@Override
	public Map<String, HistoryModel> load(Map<String, HistoryModel> models)
	{
		String settingsDirectory = jEdit.getSettingsDirectory();
		if(settingsDirectory == null)
			return models;

		history = new File(MiscUtilities.constructPath(
			settingsDirectory,"history"));
		if(!history.exists())
			return models;

		historyModTime = history.lastModified();

		Log.log(Log.MESSAGE,HistoryModel.class,"Loading history");

		if(models == null)
			models = Collections.synchronizedMap(new HashMap<String, HistoryModel>());

		BufferedReader in = null;
		try
		{
			// Try loading with UTF-8 and fallback to the system
			// default encoding to load a history which was made by
			// an old version as well.
			try
			{
				// Pass the decoder explicitly to report a decode error
				// as an exception instead of replacing with \xFFFD.
				in = new BufferedReader(new InputStreamReader(
					new FileInputStream(history),
					StandardCharsets.UTF_8.newDecoder()));
				models.putAll(loadFromReader(in));
			}
			catch(CharacterCodingException e)
			{
				// It seems to be made by an old version of jEdit.
				in.close();
				Log.log(Log.MESSAGE,HistoryModel.class,
					"Failed to load history with UTF-8." +
					" Fallbacking to the system default encoding.");

				in = new BufferedReader(new FileReader(history));
				models.putAll(loadFromReader(in));
			}
		}
		catch(FileNotFoundException fnf)
		{
			//Log.log(Log.DEBUG,HistoryModel.class,fnf);
		}
		catch(IOException io)
		{
			Log.log(Log.ERROR,HistoryModel.class,io);
		}
		finally
		{
			IOUtilities.closeQuietly((Closeable)in);
		}
		return models;
	} //}}}

	//{{{ save() method
	@Override
	public boolean save(Map<String, HistoryModel> models)
	{
		Log.log(Log.MESSAGE,HistoryModel.class,"Saving history");
		File file1 = new File(MiscUtilities.constructPath(
			jEdit.getSettingsDirectory(), "#history#save#"));
		File file2 = new File(MiscUtilities.constructPath(
			jEdit.getSettingsDirectory(), "history"));
		if(file2.exists() && file2.lastModified() != historyModTime)
		{
			Log.log(Log.WARNING,HistoryModel.class,file2
				+ " changed on disk; will not save history");
			return false;
		}

		jEdit.backupSettingsFile(file2);

		String lineSep = System.getProperty("line.separator");

		BufferedWriter out = null;

		try
		{
			out = new BufferedWriter(new OutputStreamWriter(
				new FileOutputStream(file1), StandardCharsets.UTF_8));

			if(models != null)
			{
				Collection<HistoryModel> values = models.values();
				for (HistoryModel model : values)
				{
					if(model.getSize() == 0)
						continue;

					out.write('[');
					out.write(StandardUtilities.charsToEscapes(
						model.getName(),TO_ESCAPE));
					out.write(']');
					out.write(lineSep);

					for(int i = 0; i < model.getSize(); i++)
					{
						out.write(StandardUtilities.charsToEscapes(
							model.getItem(i),
							TO_ESCAPE));
						out.write(lineSep);
					}
				}
			}

			out.close();

			/* to avoid data loss, only do this if the above
			 * completed successfully */
			file2.delete();
			file1.renameTo(file2);
		}
		catch(IOException io)
		{
			Log.log(Log.ERROR,HistoryModel.class,io);
		}
		finally
		{
			IOUtilities.closeQuietly((Closeable)out);
		}

		historyModTime = file2.lastModified();
		return true;
	} //}}}

	//{{{ Private members
	private static final String TO_ESCAPE = "\r\n\t\\\"'[]";
	private static File history;
	private static long historyModTime;

	//{{{ loadFromReader() method
	private static Map<String, HistoryModel> loadFromReader(BufferedReader in)
		throws IOException
	{
		Map<String, HistoryModel> result = new HashMap<>();

		HistoryModel currentModel = null;
		String line;

		while((line = in.readLine()) != null)
		{
			if(!line.isEmpty() && line.charAt(0) == '[' && line.charAt(line.length() - 1) == ']')
			{
				if(currentModel != null)
				{
					result.put(currentModel.getName(),
						currentModel);
				}

				String modelName = MiscUtilities
					.escapesToChars(line.substring(
					1,line.length() - 1));
				currentModel = new HistoryModel(
					modelName);
			}
			else if(currentModel == null)
			{
				throw new IOException("History data starts"
					+ " before model name");
			}
			else
			{
				currentModel.addElement(MiscUtilities
					.escapesToChars(line));
			}
		}

		if(currentModel != null)
		{
			result.put(currentModel.getName(),currentModel);
		}

		return result;
	} //}}}

	//}}}

}
