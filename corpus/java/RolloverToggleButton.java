/*
 * RolloverToggleButton.java - Class for buttons that implement rollovers
 * :tabSize=4:indentSize=4:noTabs=false:
 * :folding=explicit:collapseFolds=1:
 *
 * Copyright (C) 2002 Kris Kopicki
 * Portions copyright (C) 2003 Slava Pestov
 *
 * This program is free software; you can redistribute it and/or
 * modify it under the terms of the GNU General Public License
 * as published by the Free Software Foundation; either version 2
 * of the License, or any later version.
 *
 * This program is distributed in the hope that it will be useful,
 * but WITHOUT ANY WARRANTY; without even the implied warranty of
 * MERCHANTABILITY or FITNESS FOR A PARTICULAR PURPOSE.  See the
 * GNU General Public License for more details.
 *
 * You should have received a copy of the GNU General Public License
 * along with this program; if not, write to the Free Software
 * Foundation, Inc., 59 Temple Place - Suite 330, Boston, MA  02111-1307, USA.
 */

package org.gjt.sp.jedit.gui;

//{{{ Imports
import java.awt.*;
import java.awt.event.*;
import javax.swing.*;
import javax.swing.border.*;

//}}}

/** Class for buttons that implement rollovers
 *
 * If you wish to have rollovers on your buttons, use this class.
 *
 * Unlike the Swing rollover support, this class works outside of
 * <code>JToolBar</code>s, and does not require undocumented client
 * property hacks or JDK1.4-specific API calls.<p>
 *
 * Note: You should not call <code>setBorder()</code> on your buttons,
 * as they probably won't work properly.
 * @version $Id: RolloverButton.java 21831 2012-06-18 22:54:17Z ezust $
 */
public class RolloverToggleButton extends JToggleButton
{
	private final Border originalBorder;
	private final Border rolloverBorder;
	
	//{{{ RolloverButton constructor
	/**
	 * Setup the border
	 */
	public RolloverToggleButton()
	{
		setBorderPainted(true);
		Color originalColor = UIManager.getColor("Button.darkShadow");
		Color rolloverColor = UIManager.getColor("Button.foreground");
		originalBorder = BorderFactory.createLineBorder(originalColor, 1);
		rolloverBorder = BorderFactory.createLineBorder(rolloverColor, 1);
		setBorder(originalBorder);
		setContentAreaFilled(false);
		addMouseListener(new MouseOverHandler());
	} //}}}

	//{{{ RolloverToggleButton constructor
	/**
	 * Setup the border (invisible initially)
	 *
	 * @param icon the icon of this button
	 */
	public RolloverToggleButton(Icon icon)
	{
		this();

		setIcon(icon);
	} //}}}

	//{{{ updateUI() method
	@Override
	public void updateUI()
	{
		super.updateUI();
		setBorder(originalBorder);
		setRequestFocusEnabled(false);
	} //}}}

	//{{{ setEnabled() method
	@Override
	public void setEnabled(boolean b)
	{
		super.setEnabled(b);
		setBorderPainted(true);
		repaint();
	} //}}}

	//{{{ setBorderPainted() method
	@Override
	public void setBorderPainted(boolean b)
	{
		try
		{
			revalidateBlocked = true;
			super.setBorderPainted(b);
			setContentAreaFilled(false);
		}
		finally
		{
			revalidateBlocked = false;
		}
	} //}}}

	//{{{ revalidate() method
	/**
	 * We block calls to revalidate() from a setBorderPainted(), for
	 * performance reasons.
	 */
	@Override
	public void revalidate()
	{
		if(!revalidateBlocked)
			super.revalidate();
	} //}}}

	//{{{ paint() method
	@Override
	public void paint(Graphics g)
	{
		if(isEnabled())
			super.paint(g);
		else
		{
			Graphics2D g2 = (Graphics2D)g;
			g2.setComposite(c);
			super.paint(g2);
		}
	} //}}}

	//{{{ Private members
	private static final AlphaComposite c = AlphaComposite.getInstance(
		AlphaComposite.SRC_OVER, 0.5f);

	private boolean revalidateBlocked;

	//{{{ MouseHandler class
	/**
	 * Make the border visible/invisible on rollovers
	 */
	class MouseOverHandler extends MouseAdapter
	{
		@Override
		public void mouseEntered(MouseEvent e)
		{
			setBorder(rolloverBorder);
			setContentAreaFilled(false);
			setBorderPainted(true);
		}

		@Override
		public void mouseExited(MouseEvent e)
		{
			setBorder(originalBorder);
			setContentAreaFilled(false);
			setBorderPainted(true);
		}
	} //}}}
	//}}}
}
