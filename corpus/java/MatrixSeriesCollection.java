/* ===========================================================
 * JFreeChart : a free chart library for the Java(tm) platform
 * ===========================================================
 *
 * (C) Copyright 2000-2021, by Object Refinery Limited and Contributors.
 *
 * Project Info:  http://www.jfree.org/jfreechart/index.html
 *
 * This library is free software; you can redistribute it and/or modify it
 * under the terms of the GNU Lesser General Public License as published by
 * the Free Software Foundation; either version 2.1 of the License, or
 * (at your option) any later version.
 *
 * This library is distributed in the hope that it will be useful, but
 * WITHOUT ANY WARRANTY; without even the implied warranty of MERCHANTABILITY
 * or FITNESS FOR A PARTICULAR PURPOSE. See the GNU Lesser General Public
 * License for more details.
 *
 * You should have received a copy of the GNU Lesser General Public
 * License along with this library; if not, write to the Free Software
 * Foundation, Inc., 51 Franklin Street, Fifth Floor, Boston, MA  02110-1301,
 * USA.
 *
 * [Oracle and Java are registered trademarks of Oracle and/or its affiliates. 
 * Other names may be trademarks of their respective owners.]
 *
 * ---------------------------
 * MatrixSeriesCollection.java
 * ---------------------------
 * (C) Copyright 2003-2021, by Barak Naveh and Contributors.
 *
 * Original Author:  Barak Naveh;
 * Contributor(s):   David Gilbert (for Object Refinery Limited);
 *
 */

package org.jfree.data.xy;

import java.io.Serializable;
import java.util.List;
import java.util.Objects;
import org.jfree.chart.util.ObjectUtils;
import org.jfree.chart.util.Args;
import org.jfree.chart.util.PublicCloneable;

/**
 * Represents a collection of {@link MatrixSeries} that can be used as a
 * dataset.
 *
 * @see org.jfree.data.xy.MatrixSeries
 */
public class MatrixSeriesCollection extends AbstractXYZDataset
        implements XYZDataset, PublicCloneable, Serializable {

    /** For serialization. */
    private static final long serialVersionUID = -3197705779242543945L;

    /** The series that are included in the collection. */
    private List seriesList;

    /**
     * Constructs an empty dataset.
     */
    public MatrixSeriesCollection() {
        this(null);
    }


    /**
     * Constructs a dataset and populates it with a single matrix series.
     *
     * @param series the time series.
     */
    public MatrixSeriesCollection(MatrixSeries series) {
        this.seriesList = new java.util.ArrayList();

        if (series != null) {
            this.seriesList.add(series);
            series.addChangeListener(this);
        }
    }

    /**
     * Returns the number of items in the specified series.
     *
     * @param seriesIndex zero-based series index.
     *
     * @return The number of items in the specified series.
     */
    @Override
    public int getItemCount(int seriesIndex) {
        return getSeries(seriesIndex).getItemCount();
    }


    /**
     * Returns the series having the specified index.
     *
     * @param seriesIndex zero-based series index.
     *
     * @return The series.
     */
    public MatrixSeries getSeries(int seriesIndex) {
        if ((seriesIndex < 0) || (seriesIndex > getSeriesCount())) {
            throw new IllegalArgumentException("Index outside valid range.");
        }
        MatrixSeries series = (MatrixSeries) this.seriesList.get(seriesIndex);
        return series;
    }


    /**
     * Returns the number of series in the collection.
     *
     * @return The number of series in the collection.
     */
    @Override
    public int getSeriesCount() {
        return this.seriesList.size();
    }


    /**
     * Returns the key for a series.
     *
     * @param seriesIndex zero-based series index.
     *
     * @return The key for a series.
     */
    @Override
    public Comparable getSeriesKey(int seriesIndex) {
        return getSeries(seriesIndex).getKey();
    }


    /**
     * Returns the j index value of the specified Mij matrix item in the
     * specified matrix series.
     *
     * @param seriesIndex zero-based series index.
     * @param itemIndex zero-based item index.
     *
     * @return The j index value for the specified matrix item.
     *
     * @see org.jfree.data.xy.XYDataset#getXValue(int, int)
     */
    @Override
    public Number getX(int seriesIndex, int itemIndex) {
        MatrixSeries series = (MatrixSeries) this.seriesList.get(seriesIndex);
        return series.getItemColumn(itemIndex);
    }


    /**
     * Returns the i index value of the specified Mij matrix item in the
     * specified matrix series.
     *
     * @param seriesIndex zero-based series index.
     * @param itemIndex zero-based item index.
     *
     * @return The i index value for the specified matrix item.
     *
     * @see org.jfree.data.xy.XYDataset#getYValue(int, int)
     */
    @Override
    public Number getY(int seriesIndex, int itemIndex) {
        MatrixSeries series = (MatrixSeries) this.seriesList.get(seriesIndex);
        int y = series.getItemRow(itemIndex);

        return y; // I know it's bad to create object. better idea?
    }


    /**
     * Returns the Mij item value of the specified Mij matrix item in the
     * specified matrix series.
     *
     * @param seriesIndex the series (zero-based index).
     * @param itemIndex zero-based item index.
     *
     * @return The Mij item value for the specified matrix item.
     *
     * @see org.jfree.data.xy.XYZDataset#getZValue(int, int)
     */
    @Override
    public Number getZ(int seriesIndex, int itemIndex) {
        MatrixSeries series = (MatrixSeries) this.seriesList.get(seriesIndex);
        Number z = series.getItem(itemIndex);
        return z;
    }


    /**
     * Adds a series to the collection.
     * <P>
     * Notifies all registered listeners that the dataset has changed.
     * </p>
     *
     * @param series the series ({@code null} not permitted).
     */
    public void addSeries(MatrixSeries series) {
        Args.nullNotPermitted(series, "series");
        // FIXME: Check that there isn't already a series with the same key

        // add the series...
        this.seriesList.add(series);
        series.addChangeListener(this);
        fireDatasetChanged();
    }


    /**
     * Tests this collection for equality with an arbitrary object.
     *
     * @param obj the object.
     *
     * @return A boolean.
     */
    @Override
    public boolean equals(Object obj) {
        if (obj == null) {
            return false;
        }

        if (obj == this) {
            return true;
        }

        if (obj instanceof MatrixSeriesCollection) {
            MatrixSeriesCollection c = (MatrixSeriesCollection) obj;

            return Objects.equals(this.seriesList, c.seriesList);
        }

        return false;
    }

    /**
     * Returns a hash code.
     *
     * @return A hash code.
     */
    @Override
    public int hashCode() {
        return (this.seriesList != null ? this.seriesList.hashCode() : 0);
    }

    /**
     * Returns a clone of this instance.
     *
     * @return A clone.
     *
     * @throws CloneNotSupportedException if there is a problem.
     */
    @Override
    public Object clone() throws CloneNotSupportedException {
        MatrixSeriesCollection clone = (MatrixSeriesCollection) super.clone();
        clone.seriesList = (List) ObjectUtils.deepClone(this.seriesList);
        return clone;
    }

    /**
     * Removes all the series from the collection.
     * <P>
     * Notifies all registered listeners that the dataset has changed.
     * </p>
     */
    public void removeAllSeries() {
        // Unregister the collection as a change listener to each series in
        // the collection.
        for (int i = 0; i < this.seriesList.size(); i++) {
            MatrixSeries series = (MatrixSeries) this.seriesList.get(i);
            series.removeChangeListener(this);
        }

        // Remove all the series from the collection and notify listeners.
        this.seriesList.clear();
        fireDatasetChanged();
    }


    /**
     * Removes a series from the collection.
     * <P>
     * Notifies all registered listeners that the dataset has changed.
     * </p>
     *
     * @param series the series ({@code null}).
     */
    public void removeSeries(MatrixSeries series) {
        Args.nullNotPermitted(series, "series");
        if (this.seriesList.contains(series)) {
            series.removeChangeListener(this);
            this.seriesList.remove(series);
            fireDatasetChanged();
        }
    }


    /**
     * Removes a series from the collection.
     * <P>
     * Notifies all registered listeners that the dataset has changed.
     *
     * @param seriesIndex the series (zero based index).
     */
    public void removeSeries(int seriesIndex) {
        // check arguments...
        if ((seriesIndex < 0) || (seriesIndex > getSeriesCount())) {
            throw new IllegalArgumentException("Index outside valid range.");
        }

        // fetch the series, remove the change listener, then remove the series.
        MatrixSeries series = (MatrixSeries) this.seriesList.get(seriesIndex);
        series.removeChangeListener(this);
        this.seriesList.remove(seriesIndex);
        fireDatasetChanged();
    }

}
