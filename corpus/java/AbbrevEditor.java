/*
 * AbbrevEditor.java - Panel for editing abbreviations
 * :tabSize=4:indentSize=4:noTabs=false:
 * :folding=explicit:collapseFolds=1:
 *
 * Copyright (C) 2001 Slava Pestov
 *
 * This program is free software; you can redistribute it and/or
 * modify it under the terms of the GNU General Public License
 * as published by the Free Software Foundation; either version 2
 * of the License, or any later version.
 *
 * This program is distributed in the hope that it will be useful,
 * but WITHOUT ANY WARRANTY; without even the implied warranty of
 * MERCHANTABILITY or FITNESS FOR A PARTICULAR PURPOSE.  See the
 * GNU General Public License for more details.
 *
 * You should have received a copy of the GNU General Public License
 * along with this program; if not, write to the Free Software
 * Foundation, Inc., 59 Temple Place - Suite 330, Boston, MA  02111-1307, USA.
 */

package org.gjt.sp.jedit.gui;

//{{{ Imports
import javax.swing.border.*;
import javax.swing.*;
import java.awt.*;
import org.gjt.sp.jedit.*;

import static java.awt.GridBagConstraints.*;
//}}}

/** Panel for editing abbreviations */
public class AbbrevEditor extends JPanel
{
	//{{{ AbbrevEditor constructor
	public AbbrevEditor()
	{
		GridBagLayout layout = new GridBagLayout();
		setLayout(layout);

		GridBagConstraints cons = new GridBagConstraints();
		cons.anchor = WEST;
		cons.fill = BOTH;
		cons.weightx = 0.0f;
		cons.gridx = 1;
		cons.gridy = 1;

		JLabel label = new JLabel(jEdit.getProperty("abbrev-editor.abbrev"),
			SwingConstants.RIGHT);
		label.setBorder(new EmptyBorder(0,0,0,12));
		layout.setConstraints(label,cons);
		add(label);
		cons.gridx++;
		cons.weightx = 1.0f;
		abbrev = new JTextField();
		layout.setConstraints(abbrev,cons);
		add(abbrev);

		cons.gridx = 1;
		cons.weightx = 0.0f;
		cons.gridwidth = 2;

		cons.gridy++;
		label = new JLabel(jEdit.getProperty("abbrev-editor.before"));
		label.setBorder(new EmptyBorder(6,0,3,0));
		layout.setConstraints(label,cons);
		add(label);

		cons.gridy++;
		cons.weighty = 1.0f;
		beforeCaret = new JTextArea(4,40);
		JScrollPane scroller = new JScrollPane(beforeCaret);
		layout.setConstraints(scroller,cons);
		add(scroller);

		cons.gridy++;
		cons.weighty = 0.0f;
		label = new JLabel(jEdit.getProperty("abbrev-editor.after"));
		label.setBorder(new EmptyBorder(6,0,3,0));
		layout.setConstraints(label,cons);
		add(label);

		cons.gridy++;
		cons.weighty = 1.0f;
		afterCaret = new JTextArea(4,40);
		scroller = new JScrollPane(afterCaret);
		layout.setConstraints(scroller,cons);
		add(scroller);
	} //}}}

	//{{{ getAbbrev() method
	public String getAbbrev()
	{
		return abbrev.getText();
	} //}}}

	//{{{ setAbbrev() method
	public void setAbbrev(String abbrev)
	{
		this.abbrev.setText(abbrev);
	} //}}}

	//{{{ getExpansion() method
	public String getExpansion()
	{
		StringBuilder buf = new StringBuilder();

		String beforeCaretText = beforeCaret.getText();
		String afterCaretText = afterCaret.getText();

		for(int i = 0; i < beforeCaretText.length(); i++)
		{
			char ch = beforeCaretText.charAt(i);
			switch(ch)
			{
			case '\n':
				buf.append("\\n");
				break;
			case '\t':
				buf.append("\\t");
				break;
			case '\\':
				buf.append("\\\\");
				break;
			default:
				buf.append(ch);
				break;
			}
		}

		if(!afterCaretText.isEmpty())
		{
			buf.append("\\|");

			for(int i = 0; i < afterCaretText.length(); i++)
			{
				char ch = afterCaretText.charAt(i);
				switch(ch)
				{
				case '\n':
					buf.append("\\n");
					break;
				case '\t':
					buf.append("\\t");
					break;
				case '\\':
					buf.append("\\\\");
					break;
				default:
					buf.append(ch);
					break;
				}
			}
		}

		return buf.toString();
	} //}}}

	//{{{ setExpansion() method
	public void setExpansion(String expansion)
	{
		if(expansion == null)
		{
			beforeCaret.setText(null);
			afterCaret.setText(null);
			return;
		}

		String beforeCaretText = null;
		String afterCaretText = null;
		StringBuilder buf = new StringBuilder();

		for(int i = 0; i < expansion.length(); i++)
		{
			char ch = expansion.charAt(i);

			if(ch == '\\' && i != expansion.length() - 1)
			{
				ch = expansion.charAt(++i);
				switch(ch)
				{
				case 't':
					buf.append('\t');
					break;
				case 'n':
					buf.append('\n');
					break;
				case '|':
					beforeCaretText = buf.toString();
					buf.setLength(0);
					break;
				default:
					buf.append(ch);
					break;
				}
			}
			else
				buf.append(ch);
		}

		if(beforeCaretText == null)
			beforeCaretText = buf.toString();
		else
			afterCaretText = buf.toString();

		beforeCaret.setText(beforeCaretText);
		afterCaret.setText(afterCaretText);
	} //}}}

	//{{{ getAbbrevField() method
	public JTextField getAbbrevField()
	{
		return abbrev;
	} //}}}

	//{{{ getBeforeCaretTextArea() method
	public JTextArea getBeforeCaretTextArea()
	{
		return beforeCaret;
	} //}}}

	//{{{ getAfterCaretTextArea() method
	public JTextArea getAfterCaretTextArea()
	{
		return afterCaret;
	} //}}}

	//{{{ Private members
	private final JTextField abbrev;
	private final JTextArea beforeCaret;
	private final JTextArea afterCaret;
	//}}}
}
