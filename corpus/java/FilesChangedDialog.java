/*
 * FilesChangedDialog.java - Files changed on disk
 * :tabSize=4:indentSize=4:noTabs=false:
 * :folding=explicit:collapseFolds=1:
 *
 * Copyright (C) 2003 Slava Pestov
 *
 * This program is free software; you can redistribute it and/or
 * modify it under the terms of the GNU General Public License
 * as published by the Free Software Foundation; either version 2
 * of the License, or any later version.
 *
 * This program is distributed in the hope that it will be useful,
 * but WITHOUT ANY WARRANTY; without even the implied warranty of
 * MERCHANTABILITY or FITNESS FOR A PARTICULAR PURPOSE.  See the
 * GNU General Public License for more details.
 *
 * You should have received a copy of the GNU General Public License
 * along with this program; if not, write to the Free Software
 * Foundation, Inc., 59 Temple Place - Suite 330, Boston, MA  02111-1307, USA.
 */

package org.gjt.sp.jedit.gui;

//{{{ Imports
import javax.swing.event.*;
import javax.swing.tree.*;
import javax.swing.*;
import java.awt.*;

import org.gjt.sp.jedit.*;
import org.gjt.sp.jedit.manager.BufferManager;
import org.gjt.sp.util.EnhancedTreeCellRenderer;
import org.gjt.sp.util.GenericGUIUtilities;
//}}}

/**
 * Files changed on disk dialog.
 *
 * @author Slava Pestov
 * @version $Id: FilesChangedDialog.java 25239 2020-04-14 20:00:17Z kpouer $
 */
public class FilesChangedDialog extends EnhancedDialog
{
	//{{{ FilesChangedDialog constructor
	public FilesChangedDialog(View view, int[] states,
		boolean alreadyReloaded)
	{
		super(view,jEdit.getProperty("files-changed.title"),false);

		this.view = view;

		JPanel content = new JPanel(new BorderLayout());
		content.setBorder(BorderFactory.createEmptyBorder(12, 12, 11, 11));
		setContentPane(content);

		Box iconBox = new Box(BoxLayout.Y_AXIS);
		iconBox.add(new JLabel(UIManager.getIcon("OptionPane.warningIcon")));
		iconBox.add(Box.createGlue());
		content.add(BorderLayout.WEST,iconBox);

		JPanel centerPanel = new JPanel(new BorderLayout());

		JLabel label = new JLabel(jEdit.getProperty("files-changed.caption"));
		label.setBorder(BorderFactory.createEmptyBorder(0, 0, 6, 0));
		centerPanel.add(BorderLayout.NORTH, label);

		DefaultMutableTreeNode deleted = new DefaultMutableTreeNode(
			jEdit.getProperty("files-changed.deleted"),true);
		DefaultMutableTreeNode changed = new DefaultMutableTreeNode(
			jEdit.getProperty("files-changed.changed"
			+ (alreadyReloaded ? "-auto" : "")),true);
		DefaultMutableTreeNode changedDirty = new DefaultMutableTreeNode(
			jEdit.getProperty("files-changed.changed-dirty"
			+ (alreadyReloaded ? "-auto" : "")),true);
		java.util.List<Buffer> buffers = jEdit.getBufferManager().getBuffers();
		for(int i = 0; i < states.length; i++)
		{
			Buffer buffer = buffers.get(i);
			DefaultMutableTreeNode addTo;
			switch(states[i])
			{
			case Buffer.FILE_DELETED:
				addTo = deleted;
				break;
			case Buffer.FILE_CHANGED:
				addTo = buffer.isDirty() ? changedDirty : changed;
				break;
			default:
				addTo = null;
				break;
			}

			if(addTo != null)
			{
				addTo.add(new DefaultMutableTreeNode(
					buffer.getPath()));
			}
		}

		root = new DefaultMutableTreeNode("",true);
		if(deleted.getChildCount() != 0)
		{
			root.add(deleted);
		}
		if(changed.getChildCount() != 0)
		{
			root.add(changed);
		}
		if(changedDirty.getChildCount() != 0)
		{
			root.add(changedDirty);
		}

		bufferTreeModel = new DefaultTreeModel(root);
		bufferTree = new JTree(bufferTreeModel);
		bufferTree.setRowHeight(0);
		bufferTree.setRootVisible(false);
		bufferTree.setVisibleRowCount(10);
		bufferTree.setCellRenderer(new Renderer());
		bufferTree.getSelectionModel().addTreeSelectionListener(new TreeHandler());
		bufferTree.getSelectionModel().setSelectionMode(
			TreeSelectionModel.DISCONTIGUOUS_TREE_SELECTION);

		centerPanel.add(BorderLayout.CENTER, new JScrollPane(bufferTree));

		content.add(BorderLayout.CENTER, centerPanel);

		Box buttons = new Box(BoxLayout.X_AXIS);
		buttons.setBorder(BorderFactory.createEmptyBorder(17, 0, 0, 0));
		buttons.add(Box.createGlue());

		if(!alreadyReloaded)
		{
			JButton selectAll = new JButton(jEdit.getProperty(
				"files-changed.select-all"));
			selectAll.setMnemonic(jEdit.getProperty(
				"files-changed.select-all.mnemonic").charAt(0));
			buttons.add(selectAll);
			selectAll.addActionListener(e -> selectAll());

			buttons.add(Box.createHorizontalStrut(6));

			reload = new JButton(jEdit.getProperty(
				"files-changed.reload"));
			reload.setMnemonic(jEdit.getProperty(
				"files-changed.reload.mnemonic").charAt(0));
			buttons.add(reload);
			reload.addActionListener(e -> action("RELOAD"));

			buttons.add(Box.createHorizontalStrut(6));

			ignore = new JButton(jEdit.getProperty("files-changed.ignore"));
			ignore.setMnemonic(jEdit.getProperty(
				"files-changed.ignore.mnemonic").charAt(0));
			buttons.add(ignore);
			ignore.addActionListener(e -> action("IGNORE"));

			buttons.add(Box.createHorizontalStrut(6));
		}

		JButton close = new JButton(jEdit.getProperty("common.close"));
		getRootPane().setDefaultButton(close);
		buttons.add(close);
		close.addActionListener(e -> dispose());

		content.add(BorderLayout.SOUTH, buttons);

		bufferTree.expandPath(new TreePath(
			new Object[] {
				root,
				deleted
			}));
		bufferTree.expandPath(new TreePath(
			new Object[] {
				root,
				changed
			}));
		bufferTree.expandPath(new TreePath(
			new Object[] {
				root,
				changedDirty
			}));

		GenericGUIUtilities.requestFocus(this,bufferTree);

		updateEnabled();

		pack();
		setLocationRelativeTo(view);
		setVisible(true);
	} //}}}

	//{{{ ok() method
	@Override
	public void ok()
	{
		dispose();
	} //}}}

	//{{{ cancel() method
	@Override
	public void cancel()
	{
		dispose();
	} //}}}

	//{{{ Private members
	private final View view;
	private final JTree bufferTree;
	private final DefaultTreeModel bufferTreeModel;
	private final DefaultMutableTreeNode root;

	// hack so that 'select all' does not change current buffer
	private boolean selectAllInProgress;

	private JButton reload;
	private JButton ignore;

	//{{{ updateEnabled() method
	private void updateEnabled()
	{
		TreePath[] paths = bufferTree
			.getSelectionPaths();
		boolean enabled = false;
		if(paths != null)
		{
			for (TreePath tp : paths)
			{
				Object[] path = tp.getPath();
				if (path.length == 3)
					enabled = true;
			}
		}

		if(reload != null)
			reload.setEnabled(enabled);

		if (ignore != null)
			ignore.setEnabled(enabled);
	} //}}}

	//{{{ selectAll() method
	private void selectAll()
	{
		selectAllInProgress = true;

		TreeNode[] path = new TreeNode[3];
		path[0] = root;
		for(int i = 0; i < root.getChildCount(); i++)
		{
			DefaultMutableTreeNode node =
				(DefaultMutableTreeNode)
				root.getChildAt(i);
			path[1] = node;
			for(int j = 0; j < node.getChildCount(); j++)
			{
				DefaultMutableTreeNode node2 =
					(DefaultMutableTreeNode)
					node.getChildAt(j);
				path[2] = node2;
				bufferTree.getSelectionModel()
					.addSelectionPath(
					new TreePath(path));
			}
		}

		selectAllInProgress = false;

		updateEnabled();
	} //}}}

	//{{{ reload() method
	private void action(String action)
	{
		TreePath[] paths = bufferTree
			.getSelectionPaths();
		if(paths == null || paths.length == 0)
			return;

		int row = bufferTree.getRowForPath(paths[0]);

		BufferManager bufferManager = jEdit.getBufferManager();
		for (TreePath path : paths)
		{
			// is it a header?
			if (path.getPathCount() == 2)
				continue;

			DefaultMutableTreeNode node = (DefaultMutableTreeNode) path.getLastPathComponent();
			if (!(node.getUserObject() instanceof String))
				return;

			bufferManager.getBuffer((String) node.getUserObject())
				.ifPresent(buffer ->
				{
					if ("RELOAD".equals(action))
						buffer.reload(view);
					else
					{
						buffer.setAutoReload(false);
						buffer.setAutoReloadDialog(false);
					}

					MutableTreeNode parent = (MutableTreeNode) node.getParent();
					parent.remove(node);
				});
		}

		bufferTreeModel.reload(root);

		// we expand those that are non-empty, and
		// remove those that are empty
		TreeNode[] nodes = { root, null };

		// remove empty category branches
		for(int j = 0; j < root.getChildCount(); j++)
		{
			DefaultMutableTreeNode node
				= (DefaultMutableTreeNode)
				root.getChildAt(j);
			if(root.getChildAt(j)
				.getChildCount() == 0)
			{
				root.remove(j);
				j--;
			}
			else
			{
				nodes[1] = node;
				bufferTree.expandPath(
					new TreePath(nodes));
			}
		}

		if(root.getChildCount() == 0)
			dispose();
		else
		{
			if(row >= bufferTree.getRowCount())
				row = bufferTree.getRowCount() - 1;
			TreePath path = bufferTree.getPathForRow(row);
			if(path.getPathCount() == 2)
			{
				// selected a header; skip to the next row
				bufferTree.setSelectionRow(row + 1);
			}
			else
				bufferTree.setSelectionPath(path);
		}
	} //}}}

	//}}}

	//{{{ TreeHandler class
	class TreeHandler implements TreeSelectionListener
	{
		@Override
		public void valueChanged(TreeSelectionEvent evt)
		{
			if(selectAllInProgress)
				return;

			updateEnabled();

			TreePath[] paths = bufferTree
				.getSelectionPaths();
			if(paths == null || paths.length == 0)
				return;
			TreePath path = paths[paths.length - 1];
			DefaultMutableTreeNode node = (DefaultMutableTreeNode)
				path.getLastPathComponent();
			if(node.getUserObject() instanceof String)
			{
				jEdit.getBufferManager()
					.getBuffer((String)node.getUserObject())
					.ifPresent(buffer -> view.showBuffer(buffer));
			}
		}
	} //}}}

	//{{{ Renderer class
	static class Renderer extends EnhancedTreeCellRenderer
	{
		Renderer()
		{
			entryFont = UIManager.getFont("Tree.font");
			if(entryFont == null)
				entryFont = jEdit.getFontProperty("metal.secondary.font");
			groupFont = entryFont.deriveFont(Font.BOLD);
		}

		@Override
		protected TreeCellRenderer newInstance()
		{
			return new Renderer();
		}

		@Override
		protected void configureTreeCellRendererComponent(JTree tree,
			Object value, boolean selected, boolean expanded,
			boolean leaf, int row, boolean hasFocus)
		{
			DefaultMutableTreeNode node = (DefaultMutableTreeNode)value;

			if(node.getParent() == tree.getModel().getRoot())
				setFont(groupFont);
			else
				setFont(entryFont);

			setIcon(null);
		}

		private Font entryFont;
		private final Font groupFont;
	} //}}}
}
