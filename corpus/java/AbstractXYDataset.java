/* ===========================================================
 * JFreeChart : a free chart library for the Java(tm) platform
 * ===========================================================
 *
 * (C) Copyright 2000-2020, by Object Refinery Limited and Contributors.
 *
 * Project Info:  http://www.jfree.org/jfreechart/index.html
 *
 * This library is free software; you can redistribute it and/or modify it
 * under the terms of the GNU Lesser General Public License as published by
 * the Free Software Foundation; either version 2.1 of the License, or
 * (at your option) any later version.
 *
 * This library is distributed in the hope that it will be useful, but
 * WITHOUT ANY WARRANTY; without even the implied warranty of MERCHANTABILITY
 * or FITNESS FOR A PARTICULAR PURPOSE. See the GNU Lesser General Public
 * License for more details.
 *
 * You should have received a copy of the GNU Lesser General Public
 * License along with this library; if not, write to the Free Software
 * Foundation, Inc., 51 Franklin Street, Fifth Floor, Boston, MA  02110-1301,
 * USA.
 *
 * [Oracle and Java are registered trademarks of Oracle and/or its affiliates. 
 * Other names may be trademarks of their respective owners.]
 *
 * ----------------------
 * AbstractXYDataset.java
 * ----------------------
 * (C) Copyright 2004-2020, by Object Refinery Limited.
 *
 * Original Author:  David Gilbert (for Object Refinery Limited).
 * Contributor(s):   -;
 *
 */

package org.jfree.data.xy;

import org.jfree.data.DomainOrder;
import org.jfree.data.general.AbstractSeriesDataset;

/**
 * An base class that you can use to create new implementations of the
 * {@link XYDataset} interface.
 */
public abstract class AbstractXYDataset extends AbstractSeriesDataset
        implements XYDataset {

    /**
     * Returns the order of the domain (X) values.
     *
     * @return The domain order.
     */
    @Override
    public DomainOrder getDomainOrder() {
        return DomainOrder.NONE;
    }

    /**
     * Returns the x-value (as a double primitive) for an item within a series.
     *
     * @param series  the series index (zero-based).
     * @param item  the item index (zero-based).
     *
     * @return The value.
     */
    @Override
    public double getXValue(int series, int item) {
        double result = Double.NaN;
        Number x = getX(series, item);
        if (x != null) {
            result = x.doubleValue();
        }
        return result;
    }

    /**
     * Returns the y-value (as a double primitive) for an item within a series.
     *
     * @param series  the series index (zero-based).
     * @param item  the item index (zero-based).
     *
     * @return The value.
     */
    @Override
    public double getYValue(int series, int item) {
        double result = Double.NaN;
        Number y = getY(series, item);
        if (y != null) {
            result = y.doubleValue();
        }
        return result;
    }

}
