/* ===========================================================
 * JFreeChart : a free chart library for the Java(tm) platform
 * ===========================================================
 *
 * (C) Copyright 2000-2021, by Object Refinery Limited and Contributors.
 *
 * Project Info:  http://www.jfree.org/jfreechart/index.html
 *
 * This library is free software; you can redistribute it and/or modify it
 * under the terms of the GNU Lesser General Public License as published by
 * the Free Software Foundation; either version 2.1 of the License, or
 * (at your option) any later version.
 *
 * This library is distributed in the hope that it will be useful, but
 * WITHOUT ANY WARRANTY; without even the implied warranty of MERCHANTABILITY
 * or FITNESS FOR A PARTICULAR PURPOSE. See the GNU Lesser General Public
 * License for more details.
 *
 * You should have received a copy of the GNU Lesser General Public
 * License along with this library; if not, write to the Free Software
 * Foundation, Inc., 51 Franklin Street, Fifth Floor, Boston, MA  02110-1301,
 * USA.
 *
 * [Oracle and Java are registered trademarks of Oracle and/or its affiliates. 
 * Other names may be trademarks of their respective owners.]
 *
 * ---------------
 * XYDataItem.java
 * ---------------
 * (C) Copyright 2003-2021, by Object Refinery Limited.
 *
 * Original Author:  David Gilbert (for Object Refinery Limited);
 * Contributor(s):   -;
 *
 */

package org.jfree.data.xy;

import java.io.Serializable;
import java.util.Objects;
import org.jfree.chart.util.Args;

/**
 * Represents one (x, y) data item for an {@link XYSeries}.  Note that
 * subclasses are REQUIRED to support cloning.
 */
public class XYDataItem implements Cloneable, Comparable, Serializable {

    /** For serialization. */
    private static final long serialVersionUID = 2751513470325494890L;

    /** The x-value ({@code null} not permitted). */
    private Number x;

    /** The y-value. */
    private Number y;

    /**
     * Constructs a new data item.
     *
     * @param x  the x-value ({@code null} NOT permitted).
     * @param y  the y-value ({@code null} permitted).
     */
    public XYDataItem(Number x, Number y) {
        Args.nullNotPermitted(x, "x");
        this.x = x;
        this.y = y;
    }

    /**
     * Constructs a new data item.
     *
     * @param x  the x-value.
     * @param y  the y-value.
     */
    public XYDataItem(double x, double y) {
        this(Double.valueOf(x), Double.valueOf(y));
    }

    /**
     * Returns the x-value.
     *
     * @return The x-value (never {@code null}).
     */
    public Number getX() {
        return this.x;
    }

    /**
     * Returns the x-value as a double primitive.
     *
     * @return The x-value.
     *
     * @see #getX()
     * @see #getYValue()
     */
    public double getXValue() {
        // this.x is not allowed to be null...
        return this.x.doubleValue();
    }

    /**
     * Returns the y-value.
     *
     * @return The y-value (possibly {@code null}).
     */
    public Number getY() {
        return this.y;
    }

    /**
     * Returns the y-value as a double primitive.
     *
     * @return The y-value.
     *
     * @see #getY()
     * @see #getXValue()
     */
    public double getYValue() {
        double result = Double.NaN;
        if (this.y != null) {
            result = this.y.doubleValue();
        }
        return result;
    }

    /**
     * Sets the y-value for this data item.  Note that there is no
     * corresponding method to change the x-value.
     *
     * @param y  the new y-value.
     */
    public void setY(double y) {
        setY(Double.valueOf(y));
    }

    /**
     * Sets the y-value for this data item.  Note that there is no
     * corresponding method to change the x-value.
     *
     * @param y  the new y-value ({@code null} permitted).
     */
    public void setY(Number y) {
        this.y = y;
    }

    /**
     * Returns an integer indicating the order of this object relative to
     * another object.
     * <P>
     * For the order we consider only the x-value:
     * negative == "less-than", zero == "equal", positive == "greater-than".
     *
     * @param o1  the object being compared to.
     *
     * @return An integer indicating the order of this data pair object
     *      relative to another object.
     */
    @Override
    public int compareTo(Object o1) {

        int result;

        // CASE 1 : Comparing to another TimeSeriesDataPair object
        // -------------------------------------------------------
        if (o1 instanceof XYDataItem) {
            XYDataItem dataItem = (XYDataItem) o1;
            double compare = this.x.doubleValue()
                             - dataItem.getX().doubleValue();
            if (compare > 0.0) {
                result = 1;
            }
            else {
                if (compare < 0.0) {
                    result = -1;
                }
                else {
                    result = 0;
                }
            }
        }

        // CASE 2 : Comparing to a general object
        // ---------------------------------------------
        else {
            // consider time periods to be ordered after general objects
            result = 1;
        }

        return result;

    }

    /**
     * Returns a clone of this object.
     *
     * @return A clone.
     */
    @Override
    public Object clone() {
        Object clone = null;
        try {
            clone = super.clone();
        }
        catch (CloneNotSupportedException e) { // won't get here...
            e.printStackTrace();
        }
        return clone;
    }

    /**
     * Tests if this object is equal to another.
     *
     * @param obj  the object to test against for equality ({@code null}
     *             permitted).
     *
     * @return A boolean.
     */
    @Override
    public boolean equals(Object obj) {
        if (obj == this) {
            return true;
        }
        if (!(obj instanceof XYDataItem)) {
            return false;
        }
        XYDataItem that = (XYDataItem) obj;
        if (!this.x.equals(that.x)) {
            return false;
        }
        if (!Objects.equals(this.y, that.y)) {
            return false;
        }
        return true;
    }

    /**
     * Returns a hash code.
     *
     * @return A hash code.
     */
    @Override
    public int hashCode() {
        int result;
        result = this.x.hashCode();
        result = 29 * result + (this.y != null ? this.y.hashCode() : 0);
        return result;
    }

    /**
     * Returns a string representing this instance, primarily for debugging
     * use.
     *
     * @return A string.
     */
    @Override
    public String toString() {
        return "[" + getXValue() + ", " + getYValue() + "]";
    }

}
