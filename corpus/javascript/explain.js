const { explainNode } = require('../utils/explain-dep.js')
const npa = require('npm-package-arg')
const semver = require('semver')
const { relative, resolve } = require('node:path')
const validName = require('validate-npm-package-name')
const { output } = require('proc-log')
const ArboristWorkspaceCmd = require('../arborist-cmd.js')

class Explain extends ArboristWorkspaceCmd {
  static description = 'Explain installed packages'
  static name = 'explain'
  static usage = ['<package-spec>']
  static params = [
    'json',
    'workspace',
  ]

  static ignoreImplicitWorkspace = false

  // TODO
  /* istanbul ignore next */
  static async completion (opts, npm) {
    const completion = require('../utils/installed-deep.js')
    return completion(npm, opts)
  }

  async exec (args) {
    if (!args.length) {
      throw this.usageError()
    }

    const Arborist = require('@npmcli/arborist')
    const arb = new Arborist({ path: this.npm.prefix, ...this.npm.flatOptions })
    const tree = await arb.loadActual()

    if (this.npm.flatOptions.workspacesEnabled
      && this.workspaceNames
      && this.workspaceNames.length
    ) {
      this.filterSet = arb.workspaceDependencySet(tree, this.workspaceNames)
    } else if (!this.npm.flatOptions.workspacesEnabled) {
      this.filterSet =
        arb.excludeWorkspacesDependencySet(tree)
    }

    const nodes = new Set()
    for (const arg of args) {
      for (const node of this.getNodes(tree, arg)) {
        const filteredOut = this.filterSet
          && this.filterSet.size > 0
          && !this.filterSet.has(node)
        if (!filteredOut) {
          nodes.add(node)
        }
      }
    }
    if (nodes.size === 0) {
      throw new Error(`No dependencies found matching ${args.join(', ')}`)
    }

    const expls = []
    for (const node of nodes) {
      const { extraneous, dev, optional, devOptional, peer, inBundle, overridden } = node
      const expl = node.explain()
      if (extraneous) {
        expl.extraneous = true
      } else {
        expl.dev = dev
        expl.optional = optional
        expl.devOptional = devOptional
        expl.peer = peer
        expl.bundled = inBundle
        expl.overridden = overridden
      }
      expls.push(expl)
    }

    if (this.npm.flatOptions.json) {
      output.buffer(expls)
    } else {
      output.standard(expls.map(expl => {
        return explainNode(expl, Infinity, this.npm.chalk)
      }).join('\n\n'))
    }
  }

  getNodes (tree, arg) {
    // if it's just a name, return packages by that name
    const { validForOldPackages: valid } = validName(arg)
    if (valid) {
      return tree.inventory.query('packageName', arg)
    }

    // if it's a location, get that node
    const maybeLoc = arg.replace(/\\/g, '/').replace(/\/+$/, '')
    const nodeByLoc = tree.inventory.get(maybeLoc)
    if (nodeByLoc) {
      return [nodeByLoc]
    }

    // maybe a path to a node_modules folder
    const maybePath = relative(this.npm.prefix, resolve(maybeLoc))
      .replace(/\\/g, '/').replace(/\/+$/, '')
    const nodeByPath = tree.inventory.get(maybePath)
    if (nodeByPath) {
      return [nodeByPath]
    }

    // otherwise, try to select all matching nodes
    try {
      return this.getNodesByVersion(tree, arg)
    } catch (er) {
      return []
    }
  }

  getNodesByVersion (tree, arg) {
    const spec = npa(arg, this.npm.prefix)
    if (spec.type !== 'version' && spec.type !== 'range') {
      return []
    }

    return tree.inventory.filter(node => {
      return node.package.name === spec.name &&
        semver.satisfies(node.package.version, spec.rawSpec)
    })
  }
}

module.exports = Explain
