const { mkdir, readFile, writeFile } = require('node:fs/promises')
const { dirname, resolve } = require('node:path')
const { spawn } = require('node:child_process')
const { EOL } = require('node:os')
const localeCompare = require('@isaacs/string-locale-compare')('en')
const pkgJson = require('@npmcli/package-json')
const { defaults, definitions } = require('@npmcli/config/lib/definitions')
const { log, output } = require('proc-log')
const BaseCommand = require('../base-cmd.js')
const { redact } = require('@npmcli/redact')

// These are the configs that we can nerf-dart. Not all of them currently even
// *have* config definitions so we have to explicitly validate them here.
// This is used to validate during "npm config set"
const nerfDarts = [
  '_auth',
  '_authToken',
  '_password',
  'certfile',
  'email',
  'keyfile',
  'username',
]
// These are the config values to swap with "protected".  It does not catch
// every single sensitive thing a user may put in the npmrc file but it gets
// the common ones.  This is distinct from nerfDarts because that is used to
// validate valid configs during "npm config set", and folks may have old
// invalid entries lying around in a config file that we still want to protect
// when running "npm config list"
// This is a more general list of values to consider protected.  You can not
// "npm config get" them, and they will not display during "npm config list"
const protected = [
  'auth',
  'authToken',
  'certfile',
  'email',
  'keyfile',
  'password',
  'username',
]

// take an array of `[key, value, k2=v2, k3, v3, ...]` and turn into
// { key: value, k2: v2, k3: v3 }
const keyValues = args => {
  const kv = {}
  for (let i = 0; i < args.length; i++) {
    const arg = args[i].split('=')
    const key = arg.shift()
    const val = arg.length ? arg.join('=')
      : i < args.length - 1 ? args[++i]
      : ''
    kv[key.trim()] = val.trim()
  }
  return kv
}

const isProtected = (k) => {
  // _password
  if (k.startsWith('_')) {
    return true
  }
  if (protected.includes(k)) {
    return true
  }
  // //localhost:8080/:_password
  if (k.startsWith('//')) {
    if (k.includes(':_')) {
      return true
    }
    // //registry:_authToken or //registry:authToken
    for (const p of protected) {
      if (k.endsWith(`:${p}`) || k.endsWith(`:_${p}`)) {
        return true
      }
    }
  }
  return false
}

// Private fields are either protected or they can redacted info
const isPrivate = (k, v) => isProtected(k) || redact(v) !== v

const displayVar = (k, v) =>
  `${k} = ${isProtected(k, v) ? '(protected)' : JSON.stringify(redact(v))}`

class Config extends BaseCommand {
  static description = 'Manage the npm configuration files'
  static name = 'config'
  static usage = [
    'set <key>=<value> [<key>=<value> ...]',
    'get [<key> [<key> ...]]',
    'delete <key> [<key> ...]',
    'list [--json]',
    'edit',
    'fix',
  ]

  static params = [
    'json',
    'global',
    'editor',
    'location',
    'long',
  ]

  static ignoreImplicitWorkspace = false

  static skipConfigValidation = true

  static async completion (opts) {
    const argv = opts.conf.argv.remain
    if (argv[1] !== 'config') {
      argv.unshift('config')
    }

    if (argv.length === 2) {
      const cmds = ['get', 'set', 'delete', 'ls', 'rm', 'edit', 'fix']
      if (opts.partialWord !== 'l') {
        cmds.push('list')
      }

      return cmds
    }

    const action = argv[2]
    switch (action) {
      case 'set':
        // todo: complete with valid values, if possible.
        if (argv.length > 3) {
          return []
        }

        // fallthrough
        /* eslint no-fallthrough:0 */
      case 'get':
      case 'delete':
      case 'rm':
        return Object.keys(definitions)
      case 'edit':
      case 'list':
      case 'ls':
      case 'fix':
      default:
        return []
    }
  }

  async exec ([action, ...args]) {
    switch (action) {
      case 'set':
        await this.set(args)
        break
      case 'get':
        await this.get(args)
        break
      case 'delete':
      case 'rm':
      case 'del':
        await this.del(args)
        break
      case 'list':
      case 'ls':
        await (this.npm.flatOptions.json ? this.listJson() : this.list())
        break
      case 'edit':
        await this.edit()
        break
      case 'fix':
        await this.fix()
        break
      default:
        throw this.usageError()
    }
  }

  async set (args) {
    if (!args.length) {
      throw this.usageError()
    }

    const where = this.npm.flatOptions.location
    for (const [key, val] of Object.entries(keyValues(args))) {
      log.info('config', 'set %j %j', key, val)
      const baseKey = key.split(':').pop()
      if (!this.npm.config.definitions[baseKey] && !nerfDarts.includes(baseKey)) {
        throw new Error(`\`${baseKey}\` is not a valid npm option`)
      }
      const deprecated = this.npm.config.definitions[baseKey]?.deprecated
      if (deprecated) {
        throw new Error(
          `The \`${baseKey}\` option is deprecated, and can not be set in this way${deprecated}`
        )
      }

      if (val === '') {
        this.npm.config.delete(key, where)
      } else {
        this.npm.config.set(key, val, where)
      }

      if (!this.npm.config.validate(where)) {
        log.warn('config', 'omitting invalid config values')
      }
    }

    await this.npm.config.save(where)
  }

  async get (keys) {
    if (!keys.length) {
      return this.list()
    }

    const out = []
    for (const key of keys) {
      const val = this.npm.config.get(key)
      if (isPrivate(key, val)) {
        throw new Error(`The ${key} option is protected, and can not be retrieved in this way`)
      }

      const pref = keys.length > 1 ? `${key}=` : ''
      out.push(pref + val)
    }
    output.standard(out.join('\n'))
  }

  async del (keys) {
    if (!keys.length) {
      throw this.usageError()
    }

    const where = this.npm.flatOptions.location
    for (const key of keys) {
      this.npm.config.delete(key, where)
    }
    await this.npm.config.save(where)
  }

  async edit () {
    const ini = require('ini')
    const e = this.npm.flatOptions.editor
    const where = this.npm.flatOptions.location
    const file = this.npm.config.data.get(where).source

    // save first, just to make sure it's synced up
    // this also removes all the comments from the last time we edited it.
    await this.npm.config.save(where)

    const data = (
      await readFile(file, 'utf8').catch(() => '')
    ).replace(/\r\n/g, '\n')
    const entries = Object.entries(defaults)
    const defData = entries.reduce((str, [key, val]) => {
      const obj = { [key]: val }
      const i = ini.stringify(obj)
        .replace(/\r\n/g, '\n') // normalizes output from ini.stringify
        .replace(/\n$/m, '')
        .replace(/^/g, '; ')
        .replace(/\n/g, '\n; ')
        .split('\n')
      return str + '\n' + i
    }, '')

    const tmpData = `;;;;
; npm ${where}config file: ${file}
; this is a simple ini-formatted file
; lines that start with semi-colons are comments
; run \`npm help 7 config\` for documentation of the various options
;
; Configs like \`@scope:registry\` map a scope to a given registry url.
;
; Configs like \`//<hostname>/:_authToken\` are auth that is restricted
; to the registry host specified.

${data.split('\n').sort(localeCompare).join('\n').trim()}

;;;;
; all available options shown below with default values
;;;;

${defData}
`.split('\n').join(EOL)
    await mkdir(dirname(file), { recursive: true })
    await writeFile(file, tmpData, 'utf8')
    await new Promise((res, rej) => {
      const [bin, ...args] = e.split(/\s+/)
      const editor = spawn(bin, [...args, file], { stdio: 'inherit' })
      editor.on('exit', (code) => {
        if (code) {
          return rej(new Error(`editor process exited with code: ${code}`))
        }
        return res()
      })
    })
  }

  async fix () {
    let problems

    try {
      this.npm.config.validate()
      return // if validate doesn't throw we have nothing to do
    } catch (err) {
      // coverage skipped because we don't need to test rethrowing errors
      // istanbul ignore next
      if (err.code !== 'ERR_INVALID_AUTH') {
        throw err
      }

      problems = err.problems
    }

    if (!this.npm.config.isDefault('location')) {
      problems = problems.filter((problem) => {
        return problem.where === this.npm.config.get('location')
      })
    }

    this.npm.config.repair(problems)
    const locations = []

    output.standard('The following configuration problems have been repaired:\n')
    const summary = problems.map(({ action, from, to, key, where }) => {
      // coverage disabled for else branch because it is intentionally omitted
      // istanbul ignore else
      if (action === 'rename') {
        // we keep track of which configs were modified here so we know what to save later
        locations.push(where)
        return `~ \`${from}\` renamed to \`${to}\` in ${where} config`
      } else if (action === 'delete') {
        locations.push(where)
        return `- \`${key}\` deleted from ${where} config`
      }
    }).join('\n')
    output.standard(summary)

    return await Promise.all(locations.map((location) => this.npm.config.save(location)))
  }

  async list () {
    const msg = []
    // long does not have a flattener
    const long = this.npm.config.get('long')
    for (const [where, { data, source }] of this.npm.config.data.entries()) {
      if (where === 'default' && !long) {
        continue
      }

      const entries = Object.entries(data).sort(([a], [b]) => localeCompare(a, b))
      if (!entries.length) {
        continue
      }

      msg.push(`; "${where}" config from ${source}`, '')
      for (const [k, v] of entries) {
        const display = displayVar(k, v)
        const src = this.npm.config.find(k)
        msg.push(src === where ? display : `; ${display} ; overridden by ${src}`)
        msg.push()
      }
      msg.push('')
    }

    if (!long) {
      msg.push(
        `; node bin location = ${process.execPath}`,
        `; node version = ${process.version}`,
        `; npm local prefix = ${this.npm.localPrefix}`,
        `; npm version = ${this.npm.version}`,
        `; cwd = ${process.cwd()}`,
        `; HOME = ${process.env.HOME}`,
        '; Run `npm config ls -l` to show all defaults.'
      )
      msg.push('')
    }

    if (!this.npm.global) {
      const { content } = await pkgJson.normalize(this.npm.prefix).catch(() => ({ content: {} }))

      if (content.publishConfig) {
        const pkgPath = resolve(this.npm.prefix, 'package.json')
        msg.push(`; "publishConfig" from ${pkgPath}`)
        msg.push('; This set of config values will be used at publish-time.', '')
        const entries = Object.entries(content.publishConfig)
          .sort(([a], [b]) => localeCompare(a, b))
        for (const [k, value] of entries) {
          msg.push(displayVar(k, value))
        }
        msg.push('')
      }
    }

    output.standard(msg.join('\n').trim())
  }

  async listJson () {
    const publicConf = {}
    for (const key in this.npm.config.list[0]) {
      const value = this.npm.config.get(key)
      if (isPrivate(key, value)) {
        continue
      }

      publicConf[key] = value
    }
    output.buffer(publicConf)
  }
}

module.exports = Config
