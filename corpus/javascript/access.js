const libnpmaccess = require('libnpmaccess')
const npa = require('npm-package-arg')
const { output } = require('proc-log')
const pkgJson = require('@npmcli/package-json')
const localeCompare = require('@isaacs/string-locale-compare')('en')
const { otplease } = require('../utils/auth.js')
const getIdentity = require('../utils/get-identity.js')
const BaseCommand = require('../base-cmd.js')

const commands = [
  'get',
  'grant',
  'list',
  'revoke',
  'set',
]

const setCommands = [
  'status=public',
  'status=private',
  'mfa=none',
  'mfa=publish',
  'mfa=automation',
  '2fa=none',
  '2fa=publish',
  '2fa=automation',
]

class Access extends BaseCommand {
  static description = 'Set access level on published packages'
  static name = 'access'
  static params = [
    'json',
    'otp',
    'registry',
  ]

  static usage = [
    'list packages [<user>|<scope>|<scope:team>] [<package>]',
    'list collaborators [<package> [<user>]]',
    'get status [<package>]',
    'set status=public|private [<package>]',
    'set mfa=none|publish|automation [<package>]',
    'grant <read-only|read-write> <scope:team> [<package>]',
    'revoke <scope:team> [<package>]',
  ]

  static async completion (opts) {
    const argv = opts.conf.argv.remain
    if (argv.length === 2) {
      return commands
    }

    if (argv.length === 3) {
      switch (argv[2]) {
        case 'grant':
          return ['read-only', 'read-write']
        case 'revoke':
          return []
        case 'list':
        case 'ls':
          return ['packages', 'collaborators']
        case 'get':
          return ['status']
        case 'set':
          return setCommands
        default:
          throw new Error(argv[2] + ' not recognized')
      }
    }
  }

  async exec ([cmd, subcmd, ...args]) {
    if (!cmd) {
      throw this.usageError()
    }
    if (!commands.includes(cmd)) {
      throw this.usageError(`${cmd} is not a valid access command`)
    }
    // All commands take at least one more parameter so we can do this check up front
    if (!subcmd) {
      throw this.usageError()
    }

    switch (cmd) {
      case 'grant':
        if (!['read-only', 'read-write'].includes(subcmd)) {
          throw this.usageError('grant must be either `read-only` or `read-write`')
        }
        if (!args[0]) {
          throw this.usageError('`<scope:team>` argument is required')
        }
        return this.#grant(subcmd, args[0], args[1])
      case 'revoke':
        return this.#revoke(subcmd, args[0])
      case 'list':
      case 'ls':
        if (subcmd === 'packages') {
          return this.#listPackages(args[0], args[1])
        }
        if (subcmd === 'collaborators') {
          return this.#listCollaborators(args[0], args[1])
        }
        throw this.usageError(`list ${subcmd} is not a valid access command`)
      case 'get':
        if (subcmd !== 'status') {
          throw this.usageError(`get ${subcmd} is not a valid access command`)
        }
        return this.#getStatus(args[0])
      case 'set':
        if (!setCommands.includes(subcmd)) {
          throw this.usageError(`set ${subcmd} is not a valid access command`)
        }
        return this.#set(subcmd, args[0])
    }
  }

  async #grant (permissions, scope, pkg) {
    await libnpmaccess.setPermissions(scope, pkg, permissions, this.npm.flatOptions)
  }

  async #revoke (scope, pkg) {
    await libnpmaccess.removePermissions(scope, pkg, this.npm.flatOptions)
  }

  async #listPackages (owner, pkg) {
    if (!owner) {
      owner = await getIdentity(this.npm, this.npm.flatOptions)
    }
    const pkgs = await libnpmaccess.getPackages(owner, this.npm.flatOptions)
    this.#output(pkgs, pkg)
  }

  async #listCollaborators (pkg, user) {
    const pkgName = await this.#getPackage(pkg, false)
    const collabs = await libnpmaccess.getCollaborators(pkgName, this.npm.flatOptions)
    this.#output(collabs, user)
  }

  async #getStatus (pkg) {
    const pkgName = await this.#getPackage(pkg, false)
    const visibility = await libnpmaccess.getVisibility(pkgName, this.npm.flatOptions)
    this.#output({ [pkgName]: visibility.public ? 'public' : 'private' })
  }

  async #set (subcmd, pkg) {
    const [subkey, subval] = subcmd.split('=')
    switch (subkey) {
      case 'mfa':
      case '2fa':
        return this.#setMfa(pkg, subval)
      case 'status':
        return this.#setStatus(pkg, subval)
    }
  }

  async #setMfa (pkg, level) {
    const pkgName = await this.#getPackage(pkg, false)
    await otplease(this.npm, this.npm.flatOptions, (opts) => {
      return libnpmaccess.setMfa(pkgName, level, opts)
    })
  }

  async #setStatus (pkg, status) {
    // only scoped packages can have their access changed
    const pkgName = await this.#getPackage(pkg, true)
    if (status === 'private') {
      status = 'restricted'
    }
    await otplease(this.npm, this.npm.flatOptions, (opts) => {
      return libnpmaccess.setAccess(pkgName, status, opts)
    })
    return this.#getStatus(pkgName)
  }

  async #getPackage (name, requireScope) {
    if (!name) {
      try {
        const { content } = await pkgJson.normalize(this.npm.prefix)
        name = content.name
      } catch (err) {
        if (err.code === 'ENOENT') {
          throw Object.assign(new Error('no package name given and no package.json found'), {
            code: 'ENOENT',
          })
        } else {
          throw err
        }
      }
    }

    const spec = npa(name)
    if (requireScope && !spec.scope) {
      throw this.usageError('This command is only available for scoped packages.')
    }
    return name
  }

  #output (items, limiter) {
    const outputs = {}
    const lookup = {
      __proto__: null,
      read: 'read-only',
      write: 'read-write',
    }
    for (const item in items) {
      const val = items[item]
      outputs[item] = lookup[val] || val
    }
    if (this.npm.config.get('json')) {
      output.buffer(outputs)
    } else {
      for (const item of Object.keys(outputs).sort(localeCompare)) {
        if (!limiter || limiter === item) {
          output.standard(`${item}: ${outputs[item]}`)
        }
      }
    }
  }
}

module.exports = Access
