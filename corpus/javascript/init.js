const { statSync } = require('node:fs')
const { relative, resolve } = require('node:path')
const { mkdir } = require('node:fs/promises')
const initJson = require('init-package-json')
const npa = require('npm-package-arg')
const libexec = require('libnpmexec')
const mapWorkspaces = require('@npmcli/map-workspaces')
const PackageJson = require('@npmcli/package-json')
const { log, output, input } = require('proc-log')
const updateWorkspaces = require('../utils/update-workspaces.js')
const BaseCommand = require('../base-cmd.js')

const posixPath = p => p.split('\\').join('/')

class Init extends BaseCommand {
  static description = 'Create a package.json file'
  static params = [
    'init-author-name',
    'init-author-url',
    'init-license',
    'init-module',
    'init-version',
    'yes',
    'force',
    'scope',
    'workspace',
    'workspaces',
    'workspaces-update',
    'include-workspace-root',
  ]

  static name = 'init'
  static usage = [
    '<package-spec> (same as `npx <package-spec>`)',
    '<@scope> (same as `npx <@scope>/create`)',
  ]

  static workspaces = true
  static ignoreImplicitWorkspace = false

  async exec (args) {
    // npm exec style
    if (args.length) {
      return await this.execCreate(args)
    }

    // no args, uses classic init-package-json boilerplate
    await this.template()
  }

  async execWorkspaces (args) {
    // if the root package is uninitiated, take care of it first
    if (this.npm.flatOptions.includeWorkspaceRoot) {
      await this.exec(args)
    }

    // reads package.json for the top-level folder first, by doing this we
    // ensure the command throw if no package.json is found before trying
    // to create a workspace package.json file or its folders
    const { content: pkg } = await PackageJson.normalize(this.npm.localPrefix).catch(err => {
      if (err.code === 'ENOENT') {
        log.warn('init', 'Missing package.json. Try with `--include-workspace-root`.')
      }
      throw err
    })

    // these are workspaces that are being created, so we cant use
    // this.setWorkspaces()
    const filters = this.npm.config.get('workspace')
    const wPath = filterArg => resolve(this.npm.localPrefix, filterArg)

    const workspacesPaths = []
    // npm-exec style, runs in the context of each workspace filter
    if (args.length) {
      for (const filterArg of filters) {
        const path = wPath(filterArg)
        await mkdir(path, { recursive: true })
        workspacesPaths.push(path)
        await this.execCreate(args, path)
        await this.setWorkspace(pkg, path)
      }
      return
    }

    // no args, uses classic init-package-json boilerplate
    for (const filterArg of filters) {
      const path = wPath(filterArg)
      await mkdir(path, { recursive: true })
      workspacesPaths.push(path)
      await this.template(path)
      await this.setWorkspace(pkg, path)
    }

    // reify packages once all workspaces have been initialized
    await this.update(workspacesPaths)
  }

  async execCreate (args, path = process.cwd()) {
    const [initerName, ...otherArgs] = args
    let packageName = initerName

    // Only a scope, possibly with a version
    if (/^@[^/]+$/.test(initerName)) {
      const [, scope, version] = initerName.split('@')
      packageName = `@${scope}/create`
      if (version) {
        packageName = `${packageName}@${version}`
      }
    } else {
      const req = npa(initerName)
      if (req.type === 'git' && req.hosted) {
        const { user, project } = req.hosted
        packageName = initerName.replace(`${user}/${project}`, `${user}/create-${project}`)
      } else if (req.registry) {
        packageName = `${req.name.replace(/^(@[^/]+\/)?/, '$1create-')}@${req.rawSpec}`
      } else {
        throw Object.assign(new Error(
          'Unrecognized initializer: ' + initerName +
          '\nFor more package binary executing power check out `npx`:' +
          '\nhttps://docs.npmjs.com/cli/commands/npx'
        ), { code: 'EUNSUPPORTED' })
      }
    }

    const newArgs = [packageName, ...otherArgs]
    const {
      flatOptions,
      localBin,
      globalBin,
      chalk,
    } = this.npm
    const runPath = path
    const scriptShell = this.npm.config.get('script-shell') || undefined
    const yes = this.npm.config.get('yes')

    await libexec({
      ...flatOptions,
      args: newArgs,
      localBin,
      globalBin,
      output,
      chalk,
      path,
      runPath,
      scriptShell,
      yes,
    })
  }

  async template (path = process.cwd()) {
    const initFile = this.npm.config.get('init-module')
    if (!this.npm.config.get('yes') && !this.npm.config.get('force')) {
      output.standard([
        'This utility will walk you through creating a package.json file.',
        'It only covers the most common items, and tries to guess sensible defaults.',
        '',
        'See `npm help init` for definitive documentation on these fields',
        'and exactly what they do.',
        '',
        'Use `npm install <pkg>` afterwards to install a package and',
        'save it as a dependency in the package.json file.',
        '',
        'Press ^C at any time to quit.',
      ].join('\n'))
    }

    try {
      const data = await input.read(() => initJson(path, initFile, this.npm.config))
      log.silly('package data', data)
      return data
    } catch (er) {
      if (er.message === 'canceled') {
        log.warn('init', 'canceled')
      } else {
        throw er
      }
    }
  }

  async setWorkspace (pkg, workspacePath) {
    const workspaces = await mapWorkspaces({ cwd: this.npm.localPrefix, pkg })

    // skip setting workspace if current package.json glob already satisfies it
    for (const wPath of workspaces.values()) {
      if (wPath === workspacePath) {
        return
      }
    }

    // if a create-pkg didn't generate a package.json at the workspace
    // folder level, it might not be recognized as a workspace by
    // mapWorkspaces, so we're just going to avoid touching the
    // top-level package.json
    try {
      statSync(resolve(workspacePath, 'package.json'))
    } catch (err) {
      return
    }

    const pkgJson = await PackageJson.load(this.npm.localPrefix)

    pkgJson.update({
      workspaces: [
        ...(pkgJson.content.workspaces || []),
        posixPath(relative(this.npm.localPrefix, workspacePath)),
      ],
    })

    await pkgJson.save()
  }

  async update (workspacesPaths) {
    // translate workspaces paths into an array containing workspaces names
    const workspaces = []
    for (const path of workspacesPaths) {
      const { content: { name } } = await PackageJson.normalize(path).catch(() => ({ content: {} }))

      if (name) {
        workspaces.push(name)
      }
    }

    const {
      config,
      flatOptions,
      localPrefix,
    } = this.npm

    await updateWorkspaces({
      config,
      flatOptions,
      localPrefix,
      npm: this.npm,
      workspaces,
    })
  }
}

module.exports = Init
