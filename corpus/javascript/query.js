const { resolve } = require('node:path')
const BaseCommand = require('../base-cmd.js')
const { log, output } = require('proc-log')

class QuerySelectorItem {
  constructor (node) {
    // all enumerable properties from the target
    Object.assign(this, node.target.package)

    // append extra info
    this.pkgid = node.target.pkgid
    this.location = node.target.location
    this.path = node.target.path
    this.realpath = node.target.realpath
    this.resolved = node.target.resolved
    this.from = []
    this.to = []
    this.dev = node.target.dev
    this.inBundle = node.target.inBundle
    this.deduped = this.from.length > 1
    this.overridden = node.overridden
    this.queryContext = node.queryContext
    for (const edge of node.target.edgesIn) {
      this.from.push(edge.from.location)
    }
    for (const [, edge] of node.target.edgesOut) {
      if (edge.to) {
        this.to.push(edge.to.location)
      }
    }
  }
}

class Query extends BaseCommand {
  #response = [] // response is the query response
  #seen = new Set() // paths we've seen so we can keep response deduped

  static description = 'Retrieve a filtered list of packages'
  static name = 'query'
  static usage = ['<selector>']

  static workspaces = true
  static ignoreImplicitWorkspace = false

  static params = [
    'global',
    'workspace',
    'workspaces',
    'include-workspace-root',
    'package-lock-only',
    'expect-results',
  ]

  constructor (...args) {
    super(...args)
    this.npm.config.set('json', true)
  }

  async exec (args) {
    const packageLock = this.npm.config.get('package-lock-only')
    const Arborist = require('@npmcli/arborist')
    const arb = new Arborist({
      ...this.npm.flatOptions,
      // one dir up from wherever node_modules lives
      path: resolve(this.npm.dir, '..'),
      forceActual: !packageLock,
    })
    let tree
    if (packageLock) {
      try {
        tree = await arb.loadVirtual()
      } catch (err) {
        log.verbose('loadVirtual', err.stack)
        throw this.usageError(
          'A package lock or shrinkwrap file is required in package-lock-only mode'
        )
      }
    } else {
      tree = await arb.loadActual()
    }
    await this.#queryTree(tree, args[0])
    this.#output()
  }

  async execWorkspaces (args) {
    await this.setWorkspaces()
    const Arborist = require('@npmcli/arborist')
    const arb = new Arborist({
      ...this.npm.flatOptions,
      path: this.npm.prefix,
    })
    // FIXME: Workspace support in query does not work as expected so this does not
    // do the same package-lock-only check as this.exec().
    // https://github.com/npm/cli/pull/6732#issuecomment-1708804921
    const tree = await arb.loadActual()
    for (const path of this.workspacePaths) {
      const wsTree = path === tree.root.path
        ? tree // --includes-workspace-root
        : await tree.querySelectorAll(`.workspace:path(${path})`).then(r => r[0].target)
      await this.#queryTree(wsTree, args[0])
    }
    this.#output()
  }

  #output () {
    this.checkExpected(this.#response.length)
    output.buffer(this.#response)
  }

  // builds a normalized inventory
  async #queryTree (tree, arg) {
    const items = await tree.querySelectorAll(arg, this.npm.flatOptions)
    for (const node of items) {
      const { location } = node.target
      if (!location || !this.#seen.has(location)) {
        const item = new QuerySelectorItem(node)
        this.#response.push(item)
        if (location) {
          this.#seen.add(item.location)
        }
      }
    }
  }
}

module.exports = Query
