const libaccess = require('libnpmaccess')
const libunpub = require('libnpmpublish').unpublish
const npa = require('npm-package-arg')
const pacote = require('pacote')
const { output, log } = require('proc-log')
const pkgJson = require('@npmcli/package-json')
const { flatten } = require('@npmcli/config/lib/definitions')
const getIdentity = require('../utils/get-identity.js')
const { otplease } = require('../utils/auth.js')
const BaseCommand = require('../base-cmd.js')

const LAST_REMAINING_VERSION_ERROR = 'Refusing to delete the last version of the package. ' +
'It will block from republishing a new version for 24 hours.\n' +
'Run with --force to do this.'

class Unpublish extends BaseCommand {
  static description = 'Remove a package from the registry'
  static name = 'unpublish'
  static params = ['dry-run', 'force', 'workspace', 'workspaces']
  static usage = ['[<package-spec>]']
  static workspaces = true
  static ignoreImplicitWorkspace = false

  static async getKeysOfVersions (name, opts) {
    const packument = await pacote.packument(name, {
      ...opts,
      spec: name,
      query: { write: true },
    })
    return Object.keys(packument.versions)
  }

  static async completion (args, npm) {
    const { partialWord, conf } = args

    if (conf.argv.remain.length >= 3) {
      return []
    }

    const opts = { ...npm.flatOptions }
    const username = await getIdentity(npm, { ...opts }).catch(() => null)
    if (!username) {
      return []
    }

    const access = await libaccess.getPackages(username, opts)
    // do a bit of filtering at this point, so that we don't need
    // to fetch versions for more than one thing, but also don't
    // accidentally unpublish a whole project
    let pkgs = Object.keys(access)
    if (!partialWord || !pkgs.length) {
      return pkgs
    }

    const pp = npa(partialWord).name
    pkgs = pkgs.filter(p => !p.indexOf(pp))
    if (pkgs.length > 1) {
      return pkgs
    }

    const versions = await Unpublish.getKeysOfVersions(pkgs[0], opts)
    if (!versions.length) {
      return pkgs
    } else {
      return versions.map(v => `${pkgs[0]}@${v}`)
    }
  }

  async exec (args, { localPrefix } = {}) {
    if (args.length > 1) {
      throw this.usageError()
    }

    // workspace mode
    if (!localPrefix) {
      localPrefix = this.npm.localPrefix
    }

    const force = this.npm.config.get('force')
    const { silent } = this.npm
    const dryRun = this.npm.config.get('dry-run')

    let spec
    if (args.length) {
      spec = npa(args[0])
      if (spec.type !== 'version' && spec.rawSpec !== '*') {
        throw this.usageError(
          'Can only unpublish a single version, or the entire project.\n' +
          'Tags and ranges are not supported.'
        )
      }
    }

    log.silly('unpublish', 'args[0]', args[0])
    log.silly('unpublish', 'spec', spec)

    if (spec?.rawSpec === '*' && !force) {
      throw this.usageError(
        'Refusing to delete entire project.\n' +
        'Run with --force to do this.'
      )
    }

    const opts = { ...this.npm.flatOptions }

    let manifest
    try {
      const { content } = await pkgJson.prepare(localPrefix)
      manifest = content
    } catch (err) {
      if (err.code === 'ENOENT' || err.code === 'ENOTDIR') {
        if (!spec) {
          // We needed a local package.json to figure out what package to
          // unpublish
          throw this.usageError()
        }
      } else {
        // folks should know if ANY local package.json had a parsing error.
        // They may be relying on `publishConfig` to be loading and we don't
        // want to ignore errors in that case.
        throw err
      }
    }

    let pkgVersion // for cli output
    if (spec) {
      pkgVersion = spec.type === 'version' ? `@${spec.rawSpec}` : ''
    } else {
      spec = npa.resolve(manifest.name, manifest.version)
      log.verbose('unpublish', manifest)
      pkgVersion = manifest.version ? `@${manifest.version}` : ''
      if (!manifest.version && !force) {
        throw this.usageError(
          'Refusing to delete entire project.\n' +
          'Run with --force to do this.'
        )
      }
    }

    // If localPrefix has a package.json with a name that matches the package
    // being unpublished, load up the publishConfig
    if (manifest?.name === spec.name && manifest.publishConfig) {
      const cliFlags = this.npm.config.data.get('cli').raw
      // Filter out properties set in CLI flags to prioritize them over
      // corresponding `publishConfig` settings
      const filteredPublishConfig = Object.fromEntries(
        Object.entries(manifest.publishConfig).filter(([key]) => !(key in cliFlags)))
      flatten(filteredPublishConfig, opts)
    }

    const versions = await Unpublish.getKeysOfVersions(spec.name, opts)
    if (versions.length === 1 && spec.rawSpec === versions[0] && !force) {
      throw this.usageError(LAST_REMAINING_VERSION_ERROR)
    }
    if (versions.length === 1) {
      pkgVersion = ''
    }

    if (!dryRun) {
      await otplease(this.npm, opts, o => libunpub(spec, o))
    }
    if (!silent) {
      output.standard(`- ${spec.name}${pkgVersion}`)
    }
  }

  async execWorkspaces (args) {
    await this.setWorkspaces()

    for (const path of this.workspacePaths) {
      await this.exec(args, { localPrefix: path })
    }
  }
}

module.exports = Unpublish
