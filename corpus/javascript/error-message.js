const { format } = require('node:util')
const { resolve } = require('node:path')
const { redactLog: replaceInfo } = require('@npmcli/redact')
const { log } = require('proc-log')

const errorMessage = (er, npm) => {
  const summary = []
  const detail = []
  const files = []

  er.message &&= replaceInfo(er.message)
  er.stack &&= replaceInfo(er.stack)

  switch (er.code) {
    case 'ERESOLVE': {
      const { report } = require('./explain-eresolve.js')
      summary.push(['ERESOLVE', er.message])
      detail.push(['', ''])
      // XXX(display): error messages are logged so we use the logColor since that is based
      // on stderr. This should be handled solely by the display layer so it could also be
      // printed to stdout if necessary.
      const { explanation, file } = report(er, npm.logChalk, npm.noColorChalk)
      detail.push(['', explanation])
      files.push(['eresolve-report.txt', file])
      break
    }

    case 'ENOLOCK': {
      const cmd = npm.command || ''
      summary.push([cmd, 'This command requires an existing lockfile.'])
      detail.push([cmd, 'Try creating one first with: npm i --package-lock-only'])
      detail.push([cmd, `Original error: ${er.message}`])
      break
    }

    case 'ENOAUDIT':
      summary.push(['audit', er.message])
      break

    case 'ECONNREFUSED':
      summary.push(['', er])
      detail.push(['', [
        '',
        'If you are behind a proxy, please make sure that the',
        "'proxy' config is set properly.  See: 'npm help config'",
      ].join('\n')])
      break

    case 'EACCES':
    case 'EPERM': {
      const isCachePath =
        typeof er.path === 'string' && npm.loaded && er.path.startsWith(npm.config.get('cache'))
      const isCacheDest =
        typeof er.dest === 'string' && npm.loaded && er.dest.startsWith(npm.config.get('cache'))

      if (process.platform !== 'win32' && (isCachePath || isCacheDest)) {
        // user probably doesn't need this, but still add it to the debug log
        log.verbose(er.stack)
        summary.push(['', [
          '',
          'Your cache folder contains root-owned files, due to a bug in',
          'previous versions of npm which has since been addressed.',
          '',
          'To permanently fix this problem, please run:',
          `  sudo chown -R ${process.getuid()}:${process.getgid()} "${npm.config.get('cache')}"`,
        ].join('\n')])
      } else {
        summary.push(['', er])
        detail.push(['', [
          '',
          'The operation was rejected by your operating system.',
          ...process.platform === 'win32' ? [
            "It's possible that the file was already in use (by a text editor or antivirus),",
            'or that you lack permissions to access it.',
          ] : [
            'It is likely you do not have the permissions to access this file as the current user',
          ],
          '',
          'If you believe this might be a permissions issue, please double-check the',
          'permissions of the file and its containing directories, or try running',
          'the command again as root/Administrator.',
        ].join('\n')])
      }
      break
    }

    case 'ENOGIT':
      summary.push(['', er.message])
      detail.push(['', [
        '',
        'Failed using git.',
        'Please check if you have git installed and in your PATH.',
      ].join('\n')])
      break

    case 'EJSONPARSE':
      // Check whether we ran into a conflict in our own package.json
      if (er.path === resolve(npm.prefix, 'package.json')) {
        const { isDiff } = require('parse-conflict-json')
        const txt = require('node:fs').readFileSync(er.path, 'utf8').replace(/\r\n/g, '\n')
        if (isDiff(txt)) {
          detail.push(['', [
            'Merge conflict detected in your package.json.',
            '',
            'Please resolve the package.json conflict and retry.',
          ].join('\n')])
          break
        }
      }
      summary.push(['JSON.parse', er.message])
      detail.push(['JSON.parse', [
        'Failed to parse JSON data.',
        'Note: package.json must be actual JSON, not just JavaScript.',
      ].join('\n')])
      break

    case 'EOTP':
    case 'E401':
      // E401 is for places where we accidentally neglect OTP stuff
      if (er.code === 'EOTP' || /one-time pass/.test(er.message)) {
        summary.push(['', 'This operation requires a one-time password from your authenticator.'])
        detail.push(['', [
          'You can provide a one-time password by passing --otp=<code> to the command you ran.',
          'If you already provided a one-time password then it is likely that you either typoed',
          'it, or it timed out. Please try again.',
        ].join('\n')])
      } else {
        // npm ERR! code E401
        // npm ERR! Unable to authenticate, need: Basic
        const auth = !er.headers || !er.headers['www-authenticate']
          ? []
          : er.headers['www-authenticate'].map(au => au.split(/[,\s]+/))[0]

        if (auth.includes('Bearer')) {
          summary.push(['',
            'Unable to authenticate, your authentication token seems to be invalid.',
          ])
          detail.push(['', [
            'To correct this please try logging in again with:',
            '  npm login',
          ].join('\n')])
        } else if (auth.includes('Basic')) {
          summary.push(['', 'Incorrect or missing password.'])
          detail.push(['', [
            'If you were trying to login, change your password, create an',
            'authentication token or enable two-factor authentication then',
            'that means you likely typed your password in incorrectly.',
            'Please try again, or recover your password at:',
            '  https://www.npmjs.com/forgot',
            '',
            'If you were doing some other operation then your saved credentials are',
            'probably out of date. To correct this please try logging in again with:',
            '  npm login',
          ].join('\n')])
        } else {
          summary.push(['', er.message || er])
        }
      }
      break

    case 'E404':
      // There's no need to have 404 in the message as well.
      summary.push(['404', er.message.replace(/^404\s+/, '')])
      if (er.pkgid && er.pkgid !== '-') {
        const pkg = er.pkgid.replace(/(?!^)@.*$/, '')

        detail.push(['404', ''])
        detail.push(['404', '', `'${replaceInfo(er.pkgid)}' is not in this registry.`])

        const nameValidator = require('validate-npm-package-name')
        const valResult = nameValidator(pkg)

        if (!valResult.validForNewPackages) {
          detail.push(['404', 'This package name is not valid, because', ''])

          const errorsArray = [...(valResult.errors || []), ...(valResult.warnings || [])]
          errorsArray.forEach((item, idx) => detail.push(['404', ' ' + (idx + 1) + '. ' + item]))
        }

        detail.push(['404', ''])
        detail.push(['404', 'Note that you can also install from a'])
        detail.push(['404', 'tarball, folder, http url, or git url.'])
      }
      break

    case 'EPUBLISHCONFLICT':
      summary.push(['publish fail', 'Cannot publish over existing version.'])
      detail.push(['publish fail', "Update the 'version' field in package.json and try again."])
      detail.push(['publish fail', ''])
      detail.push(['publish fail', 'To automatically increment version numbers, see:'])
      detail.push(['publish fail', '  npm help version'])
      break

    case 'EISGIT':
      summary.push(['git', er.message])
      summary.push(['git', `  ${er.path}`])
      detail.push(['git', [
        'Refusing to remove it. Update manually,',
        'or move it out of the way first.',
      ].join('\n')])
      break

    case 'EBADPLATFORM': {
      const actual = er.current
      const expected = { ...er.required }
      const checkedKeys = []
      for (const key in expected) {
        if (Array.isArray(expected[key]) && expected[key].length > 0) {
          expected[key] = expected[key].join(',')
          checkedKeys.push(key)
        } else if (expected[key] === undefined ||
            Array.isArray(expected[key]) && expected[key].length === 0) {
          delete expected[key]
          delete actual[key]
        } else {
          checkedKeys.push(key)
        }
      }

      const longestKey = Math.max(...checkedKeys.map((key) => key.length))
      const detailEntry = []
      for (const key of checkedKeys) {
        const padding = key.length === longestKey
          ? 1
          : 1 + (longestKey - key.length)

        // padding + 1 because 'actual' is longer than 'valid'
        detailEntry.push(`Valid ${key}:${' '.repeat(padding + 1)}${expected[key]}`)
        detailEntry.push(`Actual ${key}:${' '.repeat(padding)}${actual[key]}`)
      }

      summary.push(['notsup', format(
        'Unsupported platform for %s: wanted %j (current: %j)',
        er.pkgid,
        expected,
        actual
      )])
      detail.push(['notsup', detailEntry.join('\n')])
      break
    }

    case 'EEXIST':
      summary.push(['', er.message])
      summary.push(['', 'File exists: ' + (er.dest || er.path)])
      detail.push(['', 'Remove the existing file and try again, or run npm'])
      detail.push(['', 'with --force to overwrite files recklessly.'])
      break

    case 'ENEEDAUTH':
      summary.push(['need auth', er.message])
      detail.push(['need auth', 'You need to authorize this machine using `npm adduser`'])
      break

    case 'ECONNRESET':
    case 'ENOTFOUND':
    case 'ETIMEDOUT':
    case 'ERR_SOCKET_TIMEOUT':
    case 'EAI_FAIL':
      summary.push(['network', er.message])
      detail.push(['network', [
        'This is a problem related to network connectivity.',
        'In most cases you are behind a proxy or have bad network settings.',
        '',
        'If you are behind a proxy, please make sure that the',
        "'proxy' config is set properly.  See: 'npm help config'",
      ].join('\n')])
      break

    case 'ETARGET':
      summary.push(['notarget', er.message])
      detail.push(['notarget', [
        'In most cases you or one of your dependencies are requesting',
        "a package version that doesn't exist.",
      ].join('\n')])
      break

    case 'E403':
      summary.push(['403', er.message])
      detail.push(['403', [
        'In most cases, you or one of your dependencies are requesting',
        'a package version that is forbidden by your security policy, or',
        'on a server you do not have access to.',
      ].join('\n')])
      break

    case 'EBADENGINE':
      summary.push(['engine', er.message])
      summary.push(['engine', 'Not compatible with your version of node/npm: ' + er.pkgid])
      detail.push(['notsup', [
        'Not compatible with your version of node/npm: ' + er.pkgid,
        'Required: ' + JSON.stringify(er.required),
        'Actual:   ' +
        JSON.stringify({ npm: npm.version, node: process.version }),
      ].join('\n')])
      break

    case 'ENOSPC':
      summary.push(['nospc', er.message])
      detail.push(['nospc', [
        'There appears to be insufficient space on your system to finish.',
        'Clear up some disk space and try again.',
      ].join('\n')])
      break

    case 'EROFS':
      summary.push(['rofs', er.message])
      detail.push(['rofs', [
        'Often virtualized file systems, or other file systems',
        "that don't support symlinks, give this error.",
      ].join('\n')])
      break

    case 'ENOENT':
      summary.push(['enoent', er.message])
      detail.push(['enoent', [
        'This is related to npm not being able to find a file.',
        er.file ? `\nCheck if the file '${er.file}' is present.` : '',
      ].join('\n')])
      break

    case 'EMISSINGARG':
    case 'EUNKNOWNTYPE':
    case 'EINVALIDTYPE':
    case 'ETOOMANYARGS':
      summary.push(['typeerror', er.stack])
      detail.push(['typeerror', [
        'This is an error with npm itself. Please report this error at:',
        '  https://github.com/npm/cli/issues',
      ].join('\n')])
      break

    default:
      summary.push(['', er.message || er])
      if (er.cause) {
        detail.push(['cause', er.cause.message])
      }
      if (er.signal) {
        detail.push(['signal', er.signal])
      }
      if (er.cmd && Array.isArray(er.args)) {
        detail.push(['command', ...[er.cmd, ...er.args.map(replaceInfo)]])
      }
      if (er.stdout) {
        detail.push(['', er.stdout.trim()])
      }
      if (er.stderr) {
        detail.push(['', er.stderr.trim()])
      }
      break
  }

  return {
    summary,
    detail,
    files,
  }
}

const getExitCodeFromError = (err) => {
  if (typeof err?.errno === 'number') {
    return err.errno
  } else if (typeof err?.code === 'number') {
    return err.code
  }
}

const getError = (err, { npm, command, pkg }) => {
  // if we got a command that just shells out to something else, then it
  // will presumably print its own errors and exit with a proper status
  // code if there's a problem.  If we got an error with a code=0, then...
  // something else went wrong along the way, so maybe an npm problem?
  if (command?.constructor?.isShellout && typeof err.code === 'number' && err.code) {
    return {
      exitCode: err.code,
      suppressError: true,
    }
  }

  // XXX: we should stop throwing strings
  if (typeof err === 'string') {
    return {
      exitCode: 1,
      suppressError: true,
      summary: [['', err]],
    }
  }

  // XXX: we should stop throwing other non-errors
  if (!(err instanceof Error)) {
    return {
      exitCode: 1,
      suppressError: true,
      summary: [['weird error', err]],
    }
  }

  if (err.code === 'EUNKNOWNCOMMAND') {
    const suggestions = require('./did-you-mean.js')(pkg, err.command)
    return {
      exitCode: 1,
      suppressError: true,
      standard: [
        `Unknown command: "${err.command}"`,
        suggestions,
        'To see a list of supported npm commands, run:',
        '  npm help',
      ],
    }
  }

  // Anything after this is not suppressed and get more logged information

  // add a code to the error if it doesnt have one and mutate some properties
  // so they have redacted information
  err.code ??= err.message.match(/^(?:Error: )?(E[A-Z]+)/)?.[1]
  // this mutates the error and redacts stack/message
  const { summary, detail, files } = errorMessage(err, npm)

  return {
    err,
    code: err.code,
    exitCode: getExitCodeFromError(err) || 1,
    suppressError: false,
    summary,
    detail,
    files,
    verbose: ['type', 'stack', 'statusCode', 'pkgid']
      .filter(k => err[k])
      .map(k => [k, replaceInfo(err[k])]),
    error: ['code', 'syscall', 'file', 'path', 'dest', 'errno']
      .filter(k => err[k])
      .map(k => [k, err[k]]),
  }
}

module.exports = {
  getExitCodeFromError,
  errorMessage,
  getError,
}
