const { resolve } = require('node:path')
const { stripVTControlCharacters } = require('node:util')
const pacote = require('pacote')
const table = require('text-table')
const npa = require('npm-package-arg')
const pickManifest = require('npm-pick-manifest')
const { output } = require('proc-log')
const localeCompare = require('@isaacs/string-locale-compare')('en')
const ArboristWorkspaceCmd = require('../arborist-cmd.js')

const safeNpa = (spec) => {
  try {
    return npa(spec)
  } catch {
    return null
  }
}

// This string is load bearing and is shared with Arborist
const MISSING = 'MISSING'

class Outdated extends ArboristWorkspaceCmd {
  static description = 'Check for outdated packages'
  static name = 'outdated'
  static usage = ['[<package-spec> ...]']
  static params = [
    'all',
    'json',
    'long',
    'parseable',
    'global',
    'workspace',
  ]

  #tree
  #list = []
  #edges = new Set()
  #filterSet

  async exec (args) {
    const Arborist = require('@npmcli/arborist')
    const arb = new Arborist({
      ...this.npm.flatOptions,
      path: this.npm.global ? resolve(this.npm.globalDir, '..') : this.npm.prefix,
    })
    this.#tree = await arb.loadActual()

    if (this.workspaceNames?.length) {
      this.#filterSet = arb.workspaceDependencySet(
        this.#tree,
        this.workspaceNames,
        this.npm.flatOptions.includeWorkspaceRoot
      )
    } else if (!this.npm.flatOptions.workspacesEnabled) {
      this.#filterSet = arb.excludeWorkspacesDependencySet(this.#tree)
    }

    if (args.length) {
      for (const arg of args) {
        // specific deps
        this.#getEdges(this.#tree.inventory.query('name', arg), 'edgesIn')
      }
    } else {
      if (this.npm.config.get('all')) {
        // all deps in tree
        this.#getEdges(this.#tree.inventory.values(), 'edgesOut')
      }
      // top-level deps
      this.#getEdges()
    }

    await Promise.all([...this.#edges].map((e) => this.#getOutdatedInfo(e)))

    // sorts list alphabetically by name and then dependent
    const outdated = this.#list
      .sort((a, b) => localeCompare(a.name, b.name) || localeCompare(a.dependent, b.dependent))

    if (outdated.length) {
      process.exitCode = 1
    }

    if (this.npm.config.get('json')) {
      output.buffer(this.#json(outdated))
      return
    }

    const res = this.npm.config.get('parseable')
      ? this.#parseable(outdated)
      : this.#pretty(outdated)

    if (res) {
      output.standard(res)
    }
  }

  #getEdges (nodes, type) {
    // when no nodes are provided then it should only read direct deps
    // from the root node and its workspaces direct dependencies
    if (!nodes) {
      this.#getEdgesOut(this.#tree)
      this.#getWorkspacesEdges()
      return
    }

    for (const node of nodes) {
      if (type === 'edgesOut') {
        this.#getEdgesOut(node)
      } else {
        this.#getEdgesIn(node)
      }
    }
  }

  #getEdgesIn (node) {
    for (const edge of node.edgesIn) {
      this.#trackEdge(edge)
    }
  }

  #getEdgesOut (node) {
    // TODO: normalize usage of edges and avoid looping through nodes here
    const edges = this.npm.global ? node.children.values() : node.edgesOut.values()
    for (const edge of edges) {
      this.#trackEdge(edge)
    }
  }

  #trackEdge (edge) {
    if (edge.from && this.#filterSet?.size > 0 && !this.#filterSet.has(edge.from.target)) {
      return
    }
    this.#edges.add(edge)
  }

  #getWorkspacesEdges () {
    if (this.npm.global) {
      return
    }

    for (const edge of this.#tree.edgesOut.values()) {
      if (edge?.to?.target?.isWorkspace) {
        this.#getEdgesOut(edge.to.target)
      }
    }
  }

  async #getPackument (spec) {
    return pacote.packument(spec, {
      ...this.npm.flatOptions,
      fullMetadata: this.npm.config.get('long'),
      preferOnline: true,
    })
  }

  async #getOutdatedInfo (edge) {
    const alias = safeNpa(edge.spec)?.subSpec
    const spec = npa(alias ? alias.name : edge.name)
    const node = edge.to || edge
    const { path, location, package: { version: current } = {} } = node

    const type = edge.optional ? 'optionalDependencies'
      : edge.peer ? 'peerDependencies'
      : edge.dev ? 'devDependencies'
      : 'dependencies'

    for (const omitType of this.npm.flatOptions.omit) {
      if (node[omitType]) {
        return
      }
    }

    // deps different from prod not currently
    // on disk are not included in the output
    if (edge.error === MISSING && type !== 'dependencies') {
      return
    }

    // if it's not a range, version, or tag, skip it
    if (!safeNpa(`${edge.name}@${edge.spec}`)?.registry) {
      return null
    }

    try {
      const packument = await this.#getPackument(spec)
      const expected = alias ? alias.fetchSpec : edge.spec
      const wanted = pickManifest(packument, expected, this.npm.flatOptions)
      const latest = pickManifest(packument, '*', this.npm.flatOptions)
      if (!current || current !== wanted.version || wanted.version !== latest.version) {
        this.#list.push({
          name: alias ? edge.spec.replace('npm', edge.name) : edge.name,
          path,
          type,
          current,
          location,
          wanted: wanted.version,
          latest: latest.version,
          workspaceDependent: edge.from?.isWorkspace ? edge.from.pkgid : null,
          dependent: edge.from?.name ?? 'global',
          homepage: packument.homepage,
        })
      }
    } catch (err) {
      // silently catch and ignore ETARGET, E403 &
      // E404 errors, deps are just skipped
      if (!['ETARGET', 'E404', 'E404'].includes(err.code)) {
        throw err
      }
    }
  }

  // formatting functions

  #pretty (list) {
    if (!list.length) {
      return
    }

    const long = this.npm.config.get('long')
    const { bold, yellow, red, cyan, blue } = this.npm.chalk

    return table([
      [
        'Package',
        'Current',
        'Wanted',
        'Latest',
        'Location',
        'Depended by',
        ...long ? ['Package Type', 'Homepage'] : [],
      ].map(h => bold.underline(h)),
      ...list.map((d) => [
        d.current === d.wanted ? yellow(d.name) : red(d.name),
        d.current ?? 'MISSING',
        cyan(d.wanted),
        blue(d.latest),
        d.location ?? '-',
        d.workspaceDependent ? blue(d.workspaceDependent) : d.dependent,
        ...long ? [d.type, blue(d.homepage ?? '')] : [],
      ]),
    ], {
      align: ['l', 'r', 'r', 'r', 'l'],
      stringLength: s => stripVTControlCharacters(s).length,
    })
  }

  // --parseable creates output like this:
  // <fullpath>:<name@wanted>:<name@installed>:<name@latest>:<dependedby>
  #parseable (list) {
    return list.map(d => [
      d.path,
      `${d.name}@${d.wanted}`,
      d.current ? `${d.name}@${d.current}` : 'MISSING',
      `${d.name}@${d.latest}`,
      d.dependent,
      ...this.npm.config.get('long') ? [d.type, d.homepage] : [],
    ].join(':')).join('\n')
  }

  #json (list) {
    // TODO(BREAKING_CHANGE): this should just return an array. It's a list and
    // turing it into an object with keys is lossy since multiple items in the
    // list could have the same key. For now we hack that by only changing
    // top level values into arrays if they have multiple outdated items
    return list.reduce((acc, d) => {
      const dep = {
        current: d.current,
        wanted: d.wanted,
        latest: d.latest,
        dependent: d.dependent,
        location: d.path,
        ...this.npm.config.get('long') ? { type: d.type, homepage: d.homepage } : {},
      }
      acc[d.name] = acc[d.name]
        // If this item alread has an outdated dep then we turn it into an array
        ? (Array.isArray(acc[d.name]) ? acc[d.name] : [acc[d.name]]).concat(dep)
        : dep
      return acc
    }, {})
  }
}

module.exports = Outdated
