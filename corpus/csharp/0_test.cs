////////////////////////////////////////////////////////////////////////////////
//                                                                            //
// MIT X11 license, Copyright (c) 2005-2006 by:                               //
//                                                                            //
// Authors:                                                                   //
//      Michael Dominic K. <michaldominik@gmail.com>                          //
//                                                                            //
// Permission is hereby granted, free of charge, to any person obtaining a    //
// copy of this software and associated documentation files (the "Software"), //
// to deal in the Software without restriction, including without limitation  //
// the rights to use, copy, modify, merge, publish, distribute, sublicense,   //
// and/or sell copies of the Software, and to permit persons to whom the      //
// Software is furnished to do so, subject to the following conditions:       //
//                                                                            //
// The above copyright notice and this permission notice shall be included    //
// in all copies or substantial portions of the Software.                     //
//                                                                            //
// THE SOFTWARE IS PROVIDED "AS IS", WITHOUT WARRANTY OF ANY KIND, EXPRESS    //
// OR IMPLIED, INCLUDING BUT NOT LIMITED TO THE WARRANTIES OF                 //
// MERCHANTABILITY, FITNESS FOR A PARTICULAR PURPOSE AND NONINFRINGEMENT. IN  //
// NO EVENT SHALL THE AUTHORS OR COPYRIGHT HOLDERS BE LIABLE FOR ANY CLAIM,   //
// DAMAGES OR OTHER LIABILITY, WHETHER IN AN ACTION OF CONTRACT, TORT OR      //
// OTHERWISE, ARISING FROM, OUT OF OR IN CONNECTION WITH THE SOFTWARE OR THE  //
// USE OR OTHER DEALINGS IN THE SOFTWARE.                                     //
//                                                                            //
////////////////////////////////////////////////////////////////////////////////

namespace Diva.Core {
        
        using System;
        using Widgets;
        using System.Xml;
        using Util;
        using System.Collections.Generic;
        using System.Collections;
        using Basics;

        public class OpenerTask : Task, IBoilProvider {

                // Private structs ////////////////////////////////////////////
                
                struct ObjectInfo {

                        public ObjectContainer Container;
                        public int[] Depends;
                        public string SystemType;
                        public int RefId;
                        
                        /* CONSTRUCTOR */
                        public ObjectInfo (ObjectContainer container)
                        {
                                Container = container;
                                Depends = container.Depends.ToArray ();
                                SystemType = container.SystemType;
                                RefId = container.RefId;
                        }
                        
                        public override string ToString ()
                        {
                                return String.Format ("Type: {0} Deps count: {1} Id: {2}",
                                                      SystemType, Depends.Length, RefId);
                        }
                        
                        public bool IsUnBoilable (IBoilProvider provider)
                        {
                                if (Depends.Length == 0)
                                        return true;
                                
                                foreach (int id in Depends)
                                        if (! (provider.Contains (id)))
                                                return false;
                                
                                return true;
                        }
                        
                }
                                 
                // Enums //////////////////////////////////////////////////////
                
                enum OpenerTaskStep { Init, Header, ProjectInfoRead, ObjectListRead,
                                      ObjectListParse, ObjectListUnBoil, FindRoots,
                                      Finished };
                
                // Fields /////////////////////////////////////////////////////
                
                string fileName;                         // Filename we're reading
                XmlDocument xmlDocument;                 // Our document
                //XmlNode projectInfoNode;               // <projectinfo> node
                IEnumerator objectsEnumerator;           // Enumerator
                List <ObjectInfo> objectsList;           // Objects list
                ObjectListContainer objectListContainer;
                OpenerTaskStep currentStep;              // Our current step
                
                Dictionary <int, object> idToObject;     // Id -> object
                Dictionary <object, int> objectToId;     // Object -> Id

                string projectName = String.Empty;
                string projectDirectory = String.Empty;
                TagList projectTagList;
                StuffList projectStuffList;
                TrackList projectTrackList;
                ClipList projectClipList;
                MediaItemList projectMediaItemList;
                Commander projectCommander;
                Gdv.Pipeline projectPipeline;
                Gdv.ProjectFormat projectFormat;
                
                // Properties /////////////////////////////////////////////////
                
                public string ProjectName {
                        get { return projectName; }
                }
                
                public string ProjectDirectory {
                        get { return projectDirectory; }
                }
                
                public TagList ProjectTagList {
                        get { return projectTagList; }
                }
                
                public StuffList ProjectStuffList {
                        get { return projectStuffList; }
                }
                
                public TrackList ProjectTrackList {
                        get { return projectTrackList; }
                }

                public ClipList ProjectClipList {
                        get { return projectClipList; }
                }
                
                public MediaItemList ProjectMediaItemList {
                        get { return projectMediaItemList; }
                }
                
                public Commander ProjectCommander {
                        get { return projectCommander; }
                }
                
                public Gdv.Pipeline ProjectPipeline {
                        get { return projectPipeline; }
                }

                public Gdv.ProjectFormat ProjectFormat {
                        get { return projectFormat; }
                }

                // Public methods /////////////////////////////////////////////
                
                /* CONSTRUCTOR */
                public OpenerTask (string fileName)
                {
                        this.fileName = fileName;
                        var verbatimString = @"c:\test\";

                        var verbatimStringWithNewline = @"test \\ \n \t \r
a
b
c";
                        var verbatimStringWithEscapedQuotes = @"He said
""she says \"" is not an escaped character in verbatimstrings""
";

                        int[] numbers = { 5,6,4,2,4,6,8,9,7,0 };
                        var linqExample = from n in numbers
                                          where n > 5
                                          select n;

                        var anotherlinqExample = from n in numbers
                                                 orderby n descending
                                                 select n;

                        int[] someMoreNumbers = { 8,2,17,34,8,9,9,5,3,4,2,1,5 };
                        var moreLinq = from n in numbers
                                       join mn in moreNumbers on n equals mn + 2
                                       select new {n, mn};
                }
                
                public override void Reset ()
                {
                        objectToId = new Dictionary <object, int> ();
                        idToObject = new Dictionary <int, object> ();
                        
                        xmlDocument = null;
                        //projectInfoNode = null;
                        
                        currentStep = OpenerTaskStep.Init;
                        
                        base.Reset ();
                }
                
                public int GetIdForObject (object o)
                {
                        return objectToId [o];
                }
                
                public object GetObjectForId (int id)
                {
                        return idToObject [id];
                }
                
                public bool Contains (int id)
                {
                        return idToObject.ContainsKey (id);
                }
                
                // Private methods ////////////////////////////////////////////
                
                protected override TaskStatus ExecuteStep (int s)
                {
                        bool cont = true;
                        
                        // Main
                        switch (currentStep) {
                                        
                                case OpenerTaskStep.Init:
                                        objectsList = new List <ObjectInfo> ();
                                        xmlDocument = new XmlDocument ();
                                        xmlDocument.Load (fileName);
                                        currentStep = OpenerTaskStep.Header;
                                        break;
                                        
                                case OpenerTaskStep.Header:
                                        //ReadHeader ();
                                        currentStep = OpenerTaskStep.ProjectInfoRead;
                                        break;

                                case OpenerTaskStep.ProjectInfoRead:
                                        foreach (XmlNode node in xmlDocument.DocumentElement.ChildNodes)
                                                if (node.Name == "projectinfo") 
                                                        ResolveProjectInfoNode (node);

                                        // FIXME: Fail if not found/not resolved
                                        currentStep = OpenerTaskStep.ObjectListRead;
                                        break;
                                        
                                case OpenerTaskStep.ObjectListRead:
                                        foreach (XmlNode node in xmlDocument.DocumentElement.ChildNodes)
                                                if (node.Name == "objectlist") 
                                                        objectListContainer = (ObjectListContainer)
                                                                DataFactory.MakeDataElement  (node as XmlElement);
                                                        
                                        if (objectListContainer == null)
                                                throw new Exception ("ObjectListContainer not found!");

                                        currentStep = OpenerTaskStep.ObjectListParse;
                                        break;

                                case OpenerTaskStep.ObjectListParse:
                                        bool flush = EnumerateSomeObjects ();
                                        if (flush)
                                                currentStep = OpenerTaskStep.ObjectListUnBoil;
                                        break;

                                case OpenerTaskStep.ObjectListUnBoil:
                                        bool done = UnBoilSomeObjects ();
                                        if (done)
                                                currentStep = OpenerTaskStep.FindRoots;
                                        break;
                                        
                                        
                                case OpenerTaskStep.FindRoots:
                                        projectTrackList = (TrackList) FindRoot ("tracklist");
                                        projectTagList = (TagList) FindRoot ("taglist");
                                        projectStuffList = (StuffList) FindRoot ("stufflist");
                                        projectClipList = (ClipList) FindRoot ("cliplist");
                                        projectMediaItemList = (MediaItemList) FindRoot ("mediaitemlist");
                                        projectPipeline = (Gdv.Pipeline) FindRoot ("pipeline");
                                        projectCommander = (Commander) FindRoot ("commander");
                                        projectFormat = (Gdv.ProjectFormat) FindRoot ("projectformat");
                                        
                                        currentStep = OpenerTaskStep.Finished;
                                        break;
                                        
                                case OpenerTaskStep.Finished:
                                        cont = false;
                                        break;
                                        
                                default:
                                        break;
                        }
                                                
                        // Post 
                        if (cont) 
                                return TaskStatus.Running;
                        else
                                return TaskStatus.Done;
                }

                /*
                void ReadHeader ()
                {
                        // FIXME: Read all the attributes from the <divaproject> element
                        }*/

                void ResolveProjectInfoNode (XmlNode node)
                {
                        foreach (XmlNode childNode in node) {
                                
                                switch (childNode.Name) {
                                        
                                        case "name":
                                                projectName = childNode.FirstChild.Value;
                                                break;
                                        
                                        case "directory":
                                                projectDirectory = childNode.FirstChild.Value;
                                                break;

                                                // FIXME: Duration etc.
                                }
                        }
                }
                
                bool EnumerateSomeObjects ()
                {
                        if (objectsEnumerator == null)
                                objectsEnumerator = objectListContainer.FindAllObjects ().GetEnumerator ();
                        
                        for (int i = 0; i < 10; i++) {
                                if (objectsEnumerator.MoveNext () == false)
                                        return true;

                                ObjectContainer container = (ObjectContainer)
                                        objectsEnumerator.Current;
                                
                                ObjectInfo newInfo = new ObjectInfo (container);
                                objectsList.Add (newInfo);
                        }
                        
                        return false;
                }

                ObjectInfo GetNextCandidate ()
                {
                        foreach (ObjectInfo objInfo in objectsList)
                                if (objInfo.IsUnBoilable (this))
                                        return objInfo;
                        
                        throw new Exception ("FIXME: No more unboilable objects found. Recursive?");
                }
                
                bool UnBoilSomeObjects ()
                {
                        for (int i = 0; i < 5; i++) {
                                // All unboiled
                                if (objectsList.Count == 0)
                                        return true;
                                
                                ObjectInfo objInfo = GetNextCandidate ();

                                object o = BoilFactory.UnBoil (objInfo.Container, this);
                                objectsList.Remove (objInfo);

                                // Add
                                idToObject [objInfo.RefId] = o;
                                objectToId [o] = objInfo.RefId;

                        }
                        
                        return false;
                }

                object FindRoot (string rootString)
                {
                        ObjectContainer container = objectListContainer.FindObjectContainer (rootString);
                        return idToObject [container.RefId];
                }
                
        }
        
}
