public class CSharpNumbers
{
    public int[] TheInts = { 123, 10543765Lu, 0xFf, 0X1ba044fEL, 0x1ade3FE129AaUL, 0xabc, 0x123, 0b101, 0B10011010u, 0b111111110000UL, 0B111 };
    public float[] TheReals = { 1.234567, 1.3e5f, .3e5f, 2345E-20, 15D, 19.73M, 1.2F, 1.2f, .3e5F };
}