// Copyright 2017 - Refael Ackermann
// Distributed under MIT style license
// See accompanying file LICENSE at https://github.com/node4good/windows-autoconf

// Usage:
// powershell -ExecutionPolicy Unrestricted -Command "Add-Type -Path Find-VisualStudio.cs; [VisualStudioConfiguration.Main]::PrintJson()"
// This script needs to be compatible with PowerShell v2 to run on Windows 2008R2 and Windows 7.

using System;
using System.Text;
using System.Runtime.InteropServices;
using System.Collections.Generic;

namespace VisualStudioConfiguration
{
    [Flags]
    public enum InstanceState : uint
    {
        None = 0,
        Local = 1,
        Registered = 2,
        NoRebootRequired = 4,
        NoErrors = 8,
        Complete = 4294967295,
    }

    [Guid("6380BCFF-41D3-4B2E-8B2E-BF8A6810C848")]
    [InterfaceType(ComInterfaceType.InterfaceIsIUnknown)]
    [ComImport]
    public interface IEnumSetupInstances
    {

        void Next([MarshalAs(UnmanagedType.U4), In] int celt,
            [MarshalAs(UnmanagedType.LPArray, ArraySubType = UnmanagedType.Interface), Out] ISetupInstance[] rgelt,
            [MarshalAs(UnmanagedType.U4)] out int pceltFetched);

        void Skip([MarshalAs(UnmanagedType.U4), In] int celt);

        void Reset();

        [return: MarshalAs(UnmanagedType.Interface)]
        IEnumSetupInstances Clone();
    }

    [Guid("42843719-DB4C-46C2-8E7C-64F1816EFD5B")]
    [InterfaceType(ComInterfaceType.InterfaceIsIUnknown)]
    [ComImport]
    public interface ISetupConfiguration
    {
    }

    [Guid("26AAB78C-4A60-49D6-AF3B-3C35BC93365D")]
    [InterfaceType(ComInterfaceType.InterfaceIsIUnknown)]
    [ComImport]
    public interface ISetupConfiguration2 : ISetupConfiguration
    {

        [return: MarshalAs(UnmanagedType.Interface)]
        IEnumSetupInstances EnumInstances();

        [return: MarshalAs(UnmanagedType.Interface)]
        ISetupInstance GetInstanceForCurrentProcess();

        [return: MarshalAs(UnmanagedType.Interface)]
        ISetupInstance GetInstanceForPath([MarshalAs(UnmanagedType.LPWStr), In] string path);

        [return: MarshalAs(UnmanagedType.Interface)]
        IEnumSetupInstances EnumAllInstances();
    }

    [Guid("B41463C3-8866-43B5-BC33-2B0676F7F42E")]
    [InterfaceType(ComInterfaceType.InterfaceIsIUnknown)]
    [ComImport]
    public interface ISetupInstance
    {
    }

    [Guid("89143C9A-05AF-49B0-B717-72E218A2185C")]
    [InterfaceType(ComInterfaceType.InterfaceIsIUnknown)]
    [ComImport]
    public interface ISetupInstance2 : ISetupInstance
    {
        [return: MarshalAs(UnmanagedType.BStr)]
        string GetInstanceId();

        [return: MarshalAs(UnmanagedType.Struct)]
        System.Runtime.InteropServices.ComTypes.FILETIME GetInstallDate();

        [return: MarshalAs(UnmanagedType.BStr)]
        string GetInstallationName();

        [return: MarshalAs(UnmanagedType.BStr)]
        string GetInstallationPath();

        [return: MarshalAs(UnmanagedType.BStr)]
        string GetInstallationVersion();

        [return: MarshalAs(UnmanagedType.BStr)]
        string GetDisplayName([MarshalAs(UnmanagedType.U4), In] int lcid);

        [return: MarshalAs(UnmanagedType.BStr)]
        string GetDescription([MarshalAs(UnmanagedType.U4), In] int lcid);

        [return: MarshalAs(UnmanagedType.BStr)]
        string ResolvePath([MarshalAs(UnmanagedType.LPWStr), In] string pwszRelativePath);

        [return: MarshalAs(UnmanagedType.U4)]
        InstanceState GetState();

        [return: MarshalAs(UnmanagedType.SafeArray, SafeArraySubType = VarEnum.VT_UNKNOWN)]
        ISetupPackageReference[] GetPackages();

        ISetupPackageReference GetProduct();

        [return: MarshalAs(UnmanagedType.BStr)]
        string GetProductPath();

        [return: MarshalAs(UnmanagedType.VariantBool)]
        bool IsLaunchable();

        [return: MarshalAs(UnmanagedType.VariantBool)]
        bool IsComplete();

        [return: MarshalAs(UnmanagedType.SafeArray, SafeArraySubType = VarEnum.VT_UNKNOWN)]
        ISetupPropertyStore GetProperties();

        [return: MarshalAs(UnmanagedType.BStr)]
        string GetEnginePath();
    }

    [Guid("DA8D8A16-B2B6-4487-A2F1-594CCCCD6BF5")]
    [InterfaceType(ComInterfaceType.InterfaceIsIUnknown)]
    [ComImport]
    public interface ISetupPackageReference
    {

        [return: MarshalAs(UnmanagedType.BStr)]
        string GetId();

        [return: MarshalAs(UnmanagedType.BStr)]
        string GetVersion();

        [return: MarshalAs(UnmanagedType.BStr)]
        string GetChip();

        [return: MarshalAs(UnmanagedType.BStr)]
        string GetLanguage();

        [return: MarshalAs(UnmanagedType.BStr)]
        string GetBranch();

        [return: MarshalAs(UnmanagedType.BStr)]
        string GetType();

        [return: MarshalAs(UnmanagedType.BStr)]
        string GetUniqueId();

        [return: MarshalAs(UnmanagedType.VariantBool)]
        bool GetIsExtension();
    }

    [Guid("c601c175-a3be-44bc-91f6-4568d230fc83")]
    [InterfaceType(ComInterfaceType.InterfaceIsIUnknown)]
    [ComImport]
    public interface ISetupPropertyStore
    {

        [return: MarshalAs(UnmanagedType.SafeArray, SafeArraySubType = VarEnum.VT_BSTR)]
        string[] GetNames();

        object GetValue([MarshalAs(UnmanagedType.LPWStr), In] string pwszName);
    }

    [Guid("42843719-DB4C-46C2-8E7C-64F1816EFD5B")]
    [CoClass(typeof(SetupConfigurationClass))]
    [ComImport]
    public interface SetupConfiguration : ISetupConfiguration2, ISetupConfiguration
    {
    }

    [Guid("177F0C4A-1CD3-4DE7-A32C-71DBBB9FA36D")]
    [ClassInterface(ClassInterfaceType.None)]
    [ComImport]
    public class SetupConfigurationClass
    {
    }

    public static class Main
    {
        public static void PrintJson()
        {
            ISetupConfiguration query = new SetupConfiguration();
            ISetupConfiguration2 query2 = (ISetupConfiguration2)query;
            IEnumSetupInstances e = query2.EnumAllInstances();

            int pceltFetched;
            ISetupInstance2[] rgelt = new ISetupInstance2[1];
            List<string> instances = new List<string>();
            while (true)
            {
                e.Next(1, rgelt, out pceltFetched);
                if (pceltFetched <= 0)
                {
                    Console.WriteLine(String.Format("[{0}]", string.Join(",", instances.ToArray())));
                    return;
                }

                try
                {
                    instances.Add(InstanceJson(rgelt[0]));
                }
                catch (COMException)
                {
                    // Ignore instances that can't be queried.
                }
            }
        }

        private static string JsonString(string s)
        {
            return "\"" + s.Replace("\\", "\\\\").Replace("\"", "\\\"") + "\"";
        }

        private static string InstanceJson(ISetupInstance2 setupInstance2)
        {
            // Visual Studio component directory:
            // https://docs.microsoft.com/en-us/visualstudio/install/workload-and-component-ids

            StringBuilder json = new StringBuilder();
            json.Append("{");

            string path = JsonString(setupInstance2.GetInstallationPath());
            json.Append(String.Format("\"path\":{0},", path));

            string version = JsonString(setupInstance2.GetInstallationVersion());
            json.Append(String.Format("\"version\":{0},", version));

            List<string> packages = new List<string>();
            foreach (ISetupPackageReference package in setupInstance2.GetPackages())
            {
                string id = JsonString(package.GetId());
                packages.Add(id);
            }
            json.Append(String.Format("\"packages\":[{0}]", string.Join(",", packages.ToArray())));

            json.Append("}");
            return json.ToString();
        }
    }
}
