// Example for use of GNU gettext.
// This file is in the public domain.
//
// Source code of the C# program.

using System; /* String, Console */
using GNU.Gettext; /* GettextResourceManager */
using System.Diagnostics; /* Process */

public class Hello {
  public static void Main (String[] args) {
    GettextResourceManager catalog =
      new GettextResourceManager("hello-csharp");
    Console.WriteLine(catalog.GetString("Hello, world!"));
    Console.WriteLine(
        String.Format(
            catalog.GetString("This program is running as process number {0}."),
            Process.GetCurrentProcess().Id));
  }
}
