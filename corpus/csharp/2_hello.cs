// Example for use of GNU gettext.
// This file is in the public domain.
//
// Source code of the C#/Forms program.

using System; /* String, EventHandler */
using GNU.Gettext; /* GettextResourceManager */
using System.Diagnostics; /* Process */
using System.Threading; /* Thread */
using System.Drawing; /* Point, Size */
using System.Windows.Forms; /* Application, Form, Label, Button */

public class Hello {

  private static GettextResourceManager catalog =
    new GettextResourceManager("hello-csharp-forms");

  class HelloWindow : Form {

    private int border;
    private Label label1;
    private Label label2;
    private Button ok;

    public HelloWindow () {
      border = 2;

      label1 = new Label();
      label1.Text = catalog.GetString("Hello, world!");
      label1.ClientSize = new Size(label1.PreferredWidth, label1.PreferredHeight);
      Controls.Add(label1);

      label2 = new Label();
      label2.Text =
        String.Format(
            catalog.GetString("This program is running as process number {0}."),
            Process.GetCurrentProcess().Id);
      label2.ClientSize = new Size(label2.PreferredWidth, label2.PreferredHeight);
      Controls.Add(label2);

      ok = new Button();
      Label okLabel = new Label();
      ok.Text = okLabel.Text = "OK";
      ok.ClientSize = new Size(okLabel.PreferredWidth + 12, okLabel.PreferredHeight + 4);
      ok.Click += new EventHandler(Quit);
      Controls.Add(ok);

      Size total = ComputePreferredSizeWithoutBorder();
      LayoutControls(total.Width, total.Height);
      ClientSize = new Size(border + total.Width + border, border + total.Height + border);
    }

    protected override void OnResize(EventArgs ev) {
      LayoutControls(ClientSize.Width - border - border, ClientSize.Height - border - border);
      base.OnResize(ev);
    }

    // Layout computation, part 1: The preferred size of this panel.
    private Size ComputePreferredSizeWithoutBorder () {
      int totalWidth = Math.Max(Math.Max(label1.PreferredWidth, label2.PreferredWidth),
                                ok.Width);
      int totalHeight = label1.PreferredHeight + label2.PreferredHeight + 6 + ok.Height;
      return new Size(totalWidth, totalHeight);
    }

    // Layout computation, part 2: Determine where to put the sub-controls.
    private void LayoutControls (int totalWidth, int totalHeight) {
      label1.Location = new Point(border, border);
      label2.Location = new Point(border, border + label1.PreferredHeight);
      ok.Location = new Point(border + totalWidth - ok.Width, border + totalHeight - ok.Height);
    }

    private void Quit (Object sender, EventArgs ev) {
      Application.Exit();
    }
  }

  public static void Main () {
    Application.Run(new HelloWindow());
  }
}
