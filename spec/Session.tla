------------------------------ MODULE Session ------------------------------
(***************************************************************************)
(* C06 - analysis is deterministic, order-independent and isolated.        *)
(*                                                                         *)
(* A process is a history of analysed files.  Whatever hidden state the    *)
(* process carries (module-level pattern objects, counters, predicate      *)
(* state left behind by an aborted match) is opaque here; the property is  *)
(* that it never shows: Analyze(f) must return R[f], the result fixed at   *)
(* the first observation of f anywhere (any process, any hash seed).       *)
(*   known[f]   the result digest first observed for file f, or None       *)
(* The generator enumerates the schedules: every sequence of analyses over *)
(* the file pool up to MaxLen in which a file occurs at most MaxRepeat      *)
(* times - that is every permutation, every prefix, and repetitions.       *)
(* SessionTrace.tla replays the recorded digests: Observe(f, d) is enabled  *)
(* iff known[f] \in {None, d}.                                              *)
(***************************************************************************)
EXTENDS Naturals, Sequences, FiniteSets, TLC

CONSTANTS Files, MaxLen, MaxRepeat
None == "none"

VARIABLES sched
Count(s, f) == Cardinality({ i \in 1..Len(s) : s[i] = f })
Init == sched = <<>>
Analyze(f) == Len(sched) < MaxLen /\ Count(sched, f) < MaxRepeat /\ sched' = Append(sched, f)
Next == \E f \in Files : Analyze(f)
Spec == Init /\ [][Next]_sched
Bounded == Len(sched) <= MaxLen /\ \A f \in Files : Count(sched, f) <= MaxRepeat

(* reference for the acceptor *)
Consistent(known, f, d) == known[f] \in {None, d}
=============================================================================
