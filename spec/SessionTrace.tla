--------------------------- MODULE SessionTrace ---------------------------
(***************************************************************************)
(* Acceptor (role A) for C06: one event per analysis of a file, in the     *)
(* order they happened inside each process, processes concatenated:        *)
(*  {id, kind: "analyze", proc, seed, file, digest}                         *)
(*  {id, kind: "tree", proc, seed, tree, digest}   a whole-tree scan,      *)
(*       digest of the report without identifier / timestamp / file order  *)
(* known is the state: the first digest seen for a file (tree) is the      *)
(* reference, every later observation - same process or another, same hash *)
(* seed or another, after whatever other files - must equal it.            *)
(***************************************************************************)
EXTENDS Session, Json, IOUtils

Calls == ndJsonDeserialize(IOEnv.TRACE_FILE)
Keys == { Calls[k].file : k \in 1..Len(Calls) }
VARIABLES i, known
Init2 == i = 1 /\ known = [f \in Keys |-> None] /\ sched = <<>>
Observe == /\ i <= Len(Calls)
           /\ LET c == Calls[i] IN
                IF Consistent(known, c.file, c.digest)
                THEN known' = [known EXCEPT ![c.file] = c.digest]
                ELSE /\ PrintT(<<"REJECT", c.id, IF c.kind = "tree" THEN "TreeScanReproducible" ELSE "SameResultWhateverCameBefore">>)
                     /\ known' = known
           /\ i' = i + 1 /\ UNCHANGED sched
TSpec == Init2 /\ [][Observe]_<<i, known, sched>>
AllConsumed == TLCGet("stats").diameter - 1 = Len(Calls)
=============================================================================
