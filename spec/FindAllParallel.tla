-------------------------- MODULE FindAllParallel --------------------------
(***************************************************************************)
(* HISTORICAL: matcher.find_all as it was before commit d7bef04 - every    *)
(* position starts an attempt, all active attempts advance in parallel, an *)
(* attempt that starts before the end of the LAST committed match is       *)
(* dropped, the tail loop commits the surviving accepting attempts         *)
(* (TailGuard = FALSE: before 05f3540, no overlap guard there).            *)
(* Kept as the record of two design defects that TLC exhibits:             *)
(*   TailGuard = FALSE : Ordered fails (OneOrMore(a) on `a a`)             *)
(*   TailGuard = TRUE  : Covers fails - a match that starts later and ends *)
(*                       earlier is committed first and evicts the         *)
(*                       enclosing attempt (F10-C14); CoversUpToEviction   *)
(*                       holds.                                            *)
(* Used by ./check --selftest only; the Covers configuration is expected   *)
(* to FAIL.                                                                *)
(***************************************************************************)
EXTENDS Regex, TLC
CONSTANTS Sigma, MaxSize, MaxLen, TailGuard

VARIABLES re, w, idx, active, matches, phase
vars == <<re, w, idx, active, matches, phase>>

Accepting(s, e) == InL(re, Sub(w, s, e))
Stuck(s, e) == \A a \in Sigma : ~Viable(re, Append(Sub(w, s, e), a))
RECURSIVE Proc(_, _, _, _)
Proc(acts, i, ms, keep) ==
  IF acts = <<>> THEN <<keep, ms>> ELSE
  LET s == Head(acts) rest == Tail(acts) IN
  IF ms # <<>> /\ s < ms[Len(ms)][2] THEN Proc(rest, i, ms, keep)
  ELSE IF Stuck(s, i) /\ Accepting(s, i) THEN Proc(rest, i, Append(ms, <<s, i>>), keep)
  ELSE IF Viable(re, Sub(w, s, i + 1)) THEN Proc(rest, i, ms, Append(keep, s))
  ELSE IF Accepting(s, i) THEN Proc(rest, i, Append(ms, <<s, i>>), keep)
  ELSE Proc(rest, i, ms, keep)
RECURSIVE TailLoop(_, _)
TailLoop(acts, ms) ==
  IF acts = <<>> THEN ms ELSE
  LET s == Head(acts) IN
  IF TailGuard /\ ms # <<>> /\ s < ms[Len(ms)][2] THEN TailLoop(Tail(acts), ms)
  ELSE IF Accepting(s, Len(w)) THEN TailLoop(Tail(acts), Append(ms, <<s, Len(w)>>))
  ELSE TailLoop(Tail(acts), ms)

Words == UNION { [1..n -> Sigma] : n \in 0..MaxLen }
Init == /\ re \in { r \in AllAST(Sigma, MaxSize) : ~Nullable(r) } /\ w \in Words
        /\ idx = 0 /\ active = <<>> /\ matches = <<>> /\ phase = "loop"
Step == /\ phase = "loop" /\ idx < Len(w)
        /\ LET r == Proc(Append(active, idx), idx, matches, <<>>) IN
             active' = r[1] /\ matches' = r[2]
        /\ idx' = idx + 1 /\ UNCHANGED <<re, w, phase>>
Finish == /\ phase = "loop" /\ idx = Len(w)
          /\ matches' = TailLoop(active, matches) /\ phase' = "done"
          /\ UNCHANGED <<re, w, idx, active>>
Next == Step \/ Finish
Spec == Init /\ [][Next]_vars
Finished == phase = "done"
Sound   == Finished => InBounds(w, matches) /\ AreWords(re, w, matches)
Longest == Finished => AreLongest(re, w, matches)
Ordered == Finished => OrderedDisjoint(matches)
Covers  == Finished => Complete(re, w, matches)                          \* violated: F10-C14
CoversUpToEviction == Finished => CompleteUpToEviction(re, w, matches)   \* holds
(* while running: committed matches are ordered and disjoint at every step *)
OrderedAlways == OrderedDisjoint(matches)
=============================================================================
