------------------------------ MODULE Program ------------------------------
(***************************************************************************)
(* C01 - exact function discovery, span and length on canonical programs.  *)
(*                                                                         *)
(* The canonical-fragment grammar as a state machine: a program is derived *)
(* item by item (one action per construct); the stack holds the open       *)
(* constructs.  Item kinds:                                                *)
(*   F function header (variants: plain, prefix = modifier/async in front, *)
(*     multi = header over two lines, nextbrace = brace on the next line,  *)
(*     bracegroup = parameter list containing brace groups, arrow = the    *)
(*     `const f = (..) => {` form closed by `};`, throws = a throws clause *)
(*     between header and body, lineabove = a decorator / annotation /     *)
(*     attribute / template / return-type line above the header, tailwrap  *)
(*     = the tokens between `)` and the body - throws list, return type -  *)
(*     on two lines of their own: three header lines)                      *)
(*   K class (variant wrapped, enabled by "W" in Allowed: an anonymous     *)
(*     class passed as an argument of a call - `wrap(new Object() {` ..    *)
(*     `});` - whose methods are functions like any other; the call is a   *)
(*     header candidate without a body that ENCLOSES real headers)         *)
(*   C control statement (variants if, loop, try)                          *)
(*   E else / catch / except   A anonymous function                        *)
(*   G bare block statement `{ .. }` (enabled by "G" in Allowed)            *)
(*   X close of the innermost open construct                               *)
(*   S n simple statements (calls; variants strdelim: string/char literals *)
(*     containing braces, parentheses and comment leaders; trailing: a     *)
(*     trailing comment on the line; inline: a block comment between the   *)
(*     tokens of the line; mlstr: each statement is ONE string literal     *)
(*     over three physical lines - one token, so one counted line, and the *)
(*     function's last token when it is the last statement of a suite)     *)
(*   M multi-line statement (initialiser with a brace group, 3 lines)      *)
(*   B blank line   R comment-only line                                    *)
(* Finish computes the ghost exp: for every layout family and every        *)
(* function, the expected first line, last line and own length under the   *)
(* token-level definition of C01 (lines on which a code token of the       *)
(* function begins, nested reported functions excluded; tokens in front of *)
(* a nested header on its line - return type, modifiers, async - belong to *)
(* the enclosing function).  Layout families: "brace" (JavaScript,         *)
(* TypeScript: only the prefix variant puts tokens in front of a nested    *)
(* header), "bracep" (C, C++, C#, Java: every header has a return type in  *)
(* front), "indent" (Python: no close line).                               *)
(* vf/render.py turns every finished program into concrete text of each of *)
(* the seven languages; vf/props/c01.py compares the real analysis with    *)
(* exp.                                                                    *)
(***************************************************************************)
EXTENDS Naturals, Sequences, FiniteSets, TLC
CONSTANTS MaxItems, MaxDepth, Reps, FVariants, SVariants, CVariants,
          Allowed      \* item kinds this configuration may use (subset of {"F","K","C","E","A","G","X","S","M","B","R"}, plus the switch "W")

VARIABLES prog, stack, done, exp
vars == <<prog, stack, done, exp>>

Opens == {"F", "K", "C", "A", "G"}
Top == IF stack = <<>> THEN "top" ELSE stack[Len(stack)]
InFunc == \E i \in 1..Len(stack) : stack[i] = "F"
Depth == Len(stack)
(* the innermost open construct already holds a code item (comments and blanks do not count) *)
RECURSIVE HasCodeSinceOpen(_)
HasCodeSinceOpen(i) == IF i = 0 THEN FALSE
                       ELSE IF prog[i].k \in Opens \cup {"E"} THEN FALSE
                       ELSE IF prog[i].k \in {"S", "M", "X"} THEN TRUE ELSE HasCodeSinceOpen(i - 1)

(* index of the innermost construct that is still open (0 if none) *)
RECURSIVE OpenFrom(_, _)
OpenFrom(i, d) == IF i = 0 THEN 0
                  ELSE IF prog[i].k = "X" THEN OpenFrom(i - 1, d + 1)
                  ELSE IF prog[i].k \in Opens THEN (IF d = 0 THEN i ELSE OpenFrom(i - 1, d - 1))
                  ELSE OpenFrom(i - 1, d)
OpenItem == OpenFrom(Len(prog), 0)
Emit(it) == prog' = Append(prog, it)
Item(k, v, n) == [k |-> k, v |-> v, n |-> n]
CanOpen == Len(prog) < MaxItems - 1 /\ Depth < MaxDepth
Room == Len(prog) + Depth < MaxItems                 \* leave room for the closes

FuncHeader == /\ "F" \in Allowed /\ Room /\ CanOpen
              /\ \E v \in FVariants : (v = "arrow" => Top # "K") /\ Emit(Item("F", v, 1))
              /\ stack' = Append(stack, "F") /\ UNCHANGED <<done, exp>>
Class      == /\ "K" \in Allowed /\ Room /\ CanOpen /\ Top \in {"top", "F"}
              /\ \E v \in {"plain"} \cup (IF "W" \in Allowed THEN {"wrapped"} ELSE {}) : Emit(Item("K", v, 1))
              /\ stack' = Append(stack, "K") /\ UNCHANGED <<done, exp>>
Control    == /\ "C" \in Allowed /\ Room /\ CanOpen /\ InFunc /\ Top # "K" /\ \E v \in CVariants : Emit(Item("C", v, 1))
              /\ stack' = Append(stack, "C") /\ UNCHANGED <<done, exp>>
Anonymous  == /\ "A" \in Allowed /\ Room /\ CanOpen /\ InFunc /\ Top # "K" /\ Emit(Item("A", "plain", 1))
              /\ stack' = Append(stack, "A") /\ UNCHANGED <<done, exp>>
(* a bare block statement `{ .. }` (an instance initialiser at class level in Java): no function, its lines belong *)
(* to the enclosing function if there is one; it may stand directly behind a function's closing brace          *)
Bare       == /\ "G" \in Allowed /\ Room /\ CanOpen /\ Emit(Item("G", "plain", 1))
              /\ stack' = Append(stack, "G") /\ UNCHANGED <<done, exp>>
Else       == /\ "E" \in Allowed /\ Room /\ Top = "C" /\ HasCodeSinceOpen(Len(prog)) /\ prog[OpenItem].v # "loop"
              /\ Emit(Item("E", prog[OpenItem].v, 1))
              /\ stack' = [stack EXCEPT ![Len(stack)] = "E"] /\ UNCHANGED <<done, exp>>
Close      == /\ "X" \in Allowed /\ stack # <<>> /\ HasCodeSinceOpen(Len(prog))
              /\ Emit(Item("X", Top, 1)) /\ stack' = SubSeq(stack, 1, Len(stack) - 1) /\ UNCHANGED <<done, exp>>
Stmt       == /\ "S" \in Allowed /\ Room /\ Top # "K" /\ (IF prog = <<>> THEN TRUE ELSE prog[Len(prog)].k # "S")
              /\ \E n \in Reps, v \in SVariants : Emit(Item("S", v, n)) /\ UNCHANGED <<stack, done, exp>>
MultiLineStmt == /\ "M" \in Allowed /\ Room /\ InFunc /\ Top # "K" /\ Emit(Item("M", "plain", 1)) /\ UNCHANGED <<stack, done, exp>>
Blank      == /\ "B" \in Allowed /\ Room /\ prog # <<>> /\ prog[Len(prog)].k \notin {"B", "R"}
              /\ Emit(Item("B", "plain", 1)) /\ UNCHANGED <<stack, done, exp>>
Comment    == /\ "R" \in Allowed /\ Room /\ prog # <<>> /\ prog[Len(prog)].k \notin {"B", "R"}
              /\ Emit(Item("R", "plain", 1)) /\ UNCHANGED <<stack, done, exp>>

(* ---------------- reference semantics (ghost) ---------------- *)
Families == {"brace", "bracep", "indent"}
IsOpen(it) == it.k \in Opens
RECURSIVE MatchFrom(_, _)
MatchFrom(j, d) == IF prog[j].k = "X" THEN (IF d = 0 THEN j ELSE MatchFrom(j + 1, d - 1))
                   ELSE IF IsOpen(prog[j]) THEN MatchFrom(j + 1, d + 1) ELSE MatchFrom(j + 1, d)
CloseOf(i) == MatchFrom(i + 1, 0)
Funcs == { i \in 1..Len(prog) : prog[i].k = "F" }
(* innermost enclosing function of position p (0 = none); a function header owns itself *)
Encl(p) == LET c == { i \in Funcs : i < p /\ p <= CloseOf(i) } IN
           IF c = {} THEN 0 ELSE CHOOSE i \in c : \A j \in c : j <= i
Owner(p) == IF prog[p].k = "F" THEN p ELSE Encl(p)
Lines(fam, it) == CASE it.k = "S" -> (IF it.v = "mlstr" THEN 3 * it.n ELSE it.n)   \* physical lines
                    [] it.k = "M" -> 3
                    [] it.k = "F" -> (IF it.v = "tailwrap" THEN 3 ELSE IF it.v \in {"multi", "lineabove"} \/ (it.v = "nextbrace" /\ fam # "indent") THEN 2 ELSE 1)
                    [] it.k = "X" -> (IF fam = "indent" THEN 0 ELSE 1)
                    [] OTHER -> 1
(* lines of a header item that lie ABOVE the header proper and belong to the enclosing scope *)
Offset(it) == IF it.k = "F" /\ it.v = "lineabove" THEN 1 ELSE 0
Code(it) == it.k \notin {"B", "R"}
RECURSIVE SumLines(_, _, _)
SumLines(fam, a, b) == IF a > b THEN 0 ELSE Lines(fam, prog[a]) + SumLines(fam, a + 1, b)
FirstLine(fam, p) == 1 + SumLines(fam, 1, p - 1) + Offset(prog[p])
LastLine(fam, p) == SumLines(fam, 1, p)
RECURSIVE SumSet(_, _)
(* lines on which a token BEGINS: a statement that is one string literal over three physical lines counts once *)
Counted(fam, it) == IF it.k = "S" /\ it.v = "mlstr" THEN it.n ELSE Lines(fam, it)
SumSet(fam, S) == IF S = {} THEN 0 ELSE LET x == CHOOSE x \in S : TRUE IN Counted(fam, prog[x]) + SumSet(fam, S \ {x})
(* does the header of function p carry tokens of the enclosing scope in front of it? *)
HasPrefix(fam, p) == (fam = "bracep" /\ prog[p].v # "arrow") \/ prog[p].v = "prefix"
(* lines of a directly nested function on which a token of the ENCLOSING function begins: the header line when *)
(* tokens stand in front of the header, the line above, and the `;` that closes an arrow function             *)
ParentGain(fam, p) == (IF HasPrefix(fam, p) THEN 1 ELSE 0) + Offset(prog[p]) + (IF prog[p].v = "arrow" THEN 1 ELSE 0)
RECURSIVE SumGain(_, _)
SumGain(fam, S) == IF S = {} THEN 0 ELSE LET x == CHOOSE x \in S : TRUE IN ParentGain(fam, x) + SumGain(fam, S \ {x})
OwnLen(fam, f) == LET own == { p \in f..CloseOf(f) : Code(prog[p]) /\ Owner(p) = f }
                      kids == { p \in Funcs : p > f /\ Encl(p) = f }
                  IN  SumSet(fam, own) - Offset(prog[f]) + SumGain(fam, kids)
LastCode(fam, f) == LET c == { p \in f..CloseOf(f) : Code(prog[p]) /\ Lines(fam, prog[p]) > 0 }
                    IN  CHOOSE p \in c : \A q \in c : q <= p
Expected(fam) == [ f \in Funcs |-> [ start |-> FirstLine(fam, f),
                                    end   |-> LastLine(fam, LastCode(fam, f)),
                                    len   |-> OwnLen(fam, f),
                                    parent |-> Encl(f) ] ]
Finish == /\ stack = <<>> /\ prog # <<>> /\ ~done /\ done' = TRUE
          /\ exp' = [fam \in Families |-> Expected(fam)] /\ UNCHANGED <<prog, stack>>
Next == ~done /\ (FuncHeader \/ Class \/ Control \/ Anonymous \/ Bare \/ Else \/ Close \/ Stmt \/ MultiLineStmt \/ Blank \/ Comment \/ Finish)
Init == prog = <<>> /\ stack = <<>> /\ done = FALSE /\ exp = <<>>
Spec == Init /\ [][Next]_vars

(* sanity invariants: the oracle is not vacuous *)
TotalLines(fam) == SumLines(fam, 1, Len(prog))
Sane == done => \A fam \in Families : \A f \in Funcs :
          LET e == exp[fam][f] IN
          /\ e.len >= 1 /\ e.start <= e.end /\ e.len <= e.end - e.start + 1 /\ e.end <= TotalLines(fam)
          /\ (e.parent # 0 => exp[fam][e.parent].start < e.start /\ e.end <= exp[fam][e.parent].end)
(* every code line inside a function is owned exactly once: the own lengths of a top-level function and *)
(* everything nested in it add up to the code lines of its span (prefix lines are shared, hence >=)       *)
Balanced == \A i \in 1..Len(stack) : stack[i] \in Opens \cup {"E"}
=============================================================================
