---------------------------- MODULE AutomatonSem ----------------------------
(***************************************************************************)
(* Semantics of the extracted header automata (no variables): enabled      *)
(* transitions, counter updates, one greedy attempt, leftmost-greedy       *)
(* search.  Shared by TokenAutomaton.tla (C15) and HeaderCases.tla (C14).  *)
(* See TokenAutomaton.tla for the abstraction notes.                       *)
(***************************************************************************)
EXTENDS Naturals, Integers, Sequences, FiniteSets, TLC, AutomatonData

DIdx(x) == x + 2                                       \* depth -1..MaxD -> index 1..MaxD+2
SIdx(b) == IF b THEN 2 ELSE 1                          \* satisfied flag -> index
\* the state of a stateful predicate is <<nesting depth, satisfied flag>>
AllOut(k, s) == { t \in ATrans[k] : t[1] = s }
(* Pattern.consume: while a predicate on an outgoing transition is open (inside its group), only the open *)
(* predicates are consulted - every item belongs to the group, whatever else could match it              *)
OpenOut(k, s, dd) == { t \in AllOut(k, s) : AOpen[k][t[2]][DIdx(dd[t[2]][1])][SIdx(dd[t[2]][2])] }
Out(k, s, dd) == IF OpenOut(k, s, dd) # {} THEN OpenOut(k, s, dd) ELSE AllOut(k, s)
PredsAt(k, s, dd) == { t[2] : t \in Out(k, s, dd) }
Res(k, p, dd, c) == AAcc[k][p][DIdx(dd[p][1])][SIdx(dd[p][2])][c]      \* <<accepts, depth', satisfied'>>
EnabledSet(k, s, dd, c) == { t \in Out(k, s, dd) : Res(k, t[2], dd, c)[1] }
Cap(x) == IF x > MaxD THEN MaxD ELSE IF x < -1 THEN -1 ELSE x
Depth0(k) == [p \in 1..ANPreds[k] |-> <<0, FALSE>>]

(* successor depth vectors (a set: non-deterministic only when leaving the saturated value) *)
NextDs(k, s, dd, c) ==
  LET base == [p \in 1..ANPreds[k] |->
                 IF p \in PredsAt(k, s, dd) /\ p \in AStateful[k]
                 THEN <<Cap(Res(k, p, dd, c)[2]), Res(k, p, dd, c)[3]>> ELSE dd[p]]
      sat  == { p \in PredsAt(k, s, dd) \cap AStateful[k] : dd[p][1] = MaxD /\ base[p][1] = MaxD - 1 }
  IN  { [p \in 1..ANPreds[k] |-> IF p \in T THEN <<MaxD, base[p][2]>> ELSE base[p]] : T \in SUBSET sat }
(* exact successor when no counter is saturated (used by the search reference below) *)
NextD(k, s, dd, c) ==
  [p \in 1..ANPreds[k] |->
     IF p \in PredsAt(k, s, dd) /\ p \in AStateful[k] THEN <<Cap(Res(k, p, dd, c)[2]), Res(k, p, dd, c)[3]>> ELSE dd[p]]

(***************************************************************************)
(* TLC passes the arguments of a recursive operator as unevaluated         *)
(* expressions and re-evaluates them at every use: the depth vector would  *)
(* be recomputed from the start of the run at each step (exponential in    *)
(* the length).  TLCEval forces the value once.                            *)
(* Search over token-class sequences with the extracted automata (C14,     *)
(* header shapes).  Greedy run of one attempt from position s (0-based):   *)
(* consume while exactly one transition is enabled.                        *)
(***************************************************************************)
RECURSIVE Run(_, _, _, _, _)
Run(a, w, e, s, dd) ==       \* returns <<end, state, depths>>
  IF e >= Len(w) THEN <<e, s, dd>>
  ELSE LET en == EnabledSet(a, s, dd, w[e + 1]) IN
       IF Cardinality(en) # 1 THEN <<e, s, dd>>
       ELSE Run(a, w, e + 1, (CHOOSE t \in en : TRUE)[3], TLCEval(NextD(a, s, dd, w[e + 1])))
Attempt(a, w, s) == Run(a, w, s, AStart[a], Depth0(a))
Succeeds(a, w, s) == LET r == Attempt(a, w, s) IN r[1] > s /\ r[2] \in AAccepting[a]
(* does the attempt from s run into a configuration with two enabled transitions (C15's subject)? *)
RECURSIVE RunAmb(_, _, _, _, _)
RunAmb(a, w, e, s, dd) ==
  IF e >= Len(w) THEN FALSE
  ELSE LET en == EnabledSet(a, s, dd, w[e + 1]) IN
       IF Cardinality(en) > 1 THEN TRUE
       ELSE IF Cardinality(en) = 0 THEN FALSE
       ELSE RunAmb(a, w, e + 1, (CHOOSE t \in en : TRUE)[3], TLCEval(NextD(a, s, dd, w[e + 1])))
AnyAmbiguous(a, w) == \E s \in 0..(Len(w) - 1) : RunAmb(a, w, s, AStart[a], Depth0(a))
RECURSIVE HSearchFrom(_, _, _)
HSearchFrom(a, w, s) ==
  IF s >= Len(w) THEN <<>>
  ELSE IF Succeeds(a, w, s)
       THEN LET r == Attempt(a, w, s) IN <<<<s, r[1]>>>> \o HSearchFrom(a, w, r[1])
       ELSE HSearchFrom(a, w, s + 1)
HSearch(a, w) == HSearchFrom(a, w, 0)
(* parenthesis-balancing patterns end before the end of input only at nesting depth zero *)
BalancedEndAt(a, w, s) == LET r == Attempt(a, w, s) IN
                            (Succeeds(a, w, s) /\ r[1] < Len(w)) => \A p \in AStateful[a] : r[3][p][1] = 0
=============================================================================
