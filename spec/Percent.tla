------------------------------ MODULE Percent ------------------------------
(***************************************************************************)
(* C19 - summary percentages and verdict.                                  *)
(*                                                                         *)
(* Reference (what must hold of whatever is shown):  PercentOK, VerdictOK. *)
(* Model (what Report.quality_profile_percentage does, in exact integer    *)
(* arithmetic):  Algo.   A quality profile is <<easy, verbose, hard,       *)
(* unmaintainable>> in lines of code; the summary shows three figures      *)
(* <<easy-or-verbose, hard-to-maintain, unmaintainable>>.                  *)
(*                                                                         *)
(* State machine: the profile of a codebase grows as measured functions    *)
(* are added (AddLines(c, n): a function of n lines falls into category c);*)
(* every reachable profile with at most MaxTotal lines is a state, the     *)
(* invariants are evaluated in each of them, and the dump is replayed into *)
(* the real Report / print_summary by vf/props/c19.py.                     *)
(***************************************************************************)
EXTENDS PercentAlgo, Sequences, TLC

CONSTANTS MaxTotal, Steps      \* Steps: the line counts a single AddLines may add

Shown(o) == <<o[1] + o[2], o[3], o[4]>>                 \* what the summary displays

(* ---- reference: the property ---- *)
Abs(x) == IF x < 0 THEN -x ELSE x
Share(p) == <<p[1] + p[2], p[3], p[4]>>
InRange(s)   == \A i \in 1..3 : s[i] \in 0..100
Sum100(s)    == s[1] + s[2] + s[3] = 100
WithinTwo(p, s) == LET t == Total(p) IN
                     t > 0 => \A i \in 1..3 : Abs(s[i] * t - 100 * Share(p)[i]) <= 2 * t
(* a hard / unmaintainable category holding more than 0.001 % of the code never shows as 0 % *)
NonZeroShown(p, s) == LET t == Total(p) IN
                        \A i \in 2..3 : Share(p)[i] > t \div 100000 => s[i] > 0
PercentOK(p, s) == InRange(s) /\ Sum100(s) /\ WithinTwo(p, s) /\ NonZeroShown(p, s)
FirstFailing(p, s) == CASE ~InRange(s) -> "Range0to100"
                        [] ~Sum100(s) -> "SumIs100"
                        [] ~WithinTwo(p, s) -> "WithinTwoPoints"
                        [] ~NonZeroShown(p, s) -> "NonZeroShown"
                        [] OTHER -> "none"
RefactoringNecessary(s) == s[3] > 0 \/ s[2] > 20
VerdictOK(s, saysNecessary) == saysNecessary = RefactoringNecessary(s)

(* ---- the state machine ---- *)
VARIABLES prof, out
vars == <<prof, out>>
Init == prof = <<0, 0, 0, 0>> /\ out = Algo(prof)
AddLines(c, n) == /\ Total(prof) + n <= MaxTotal
                  /\ prof' = [prof EXCEPT ![c] = @ + n]
                  /\ out' = Algo(prof')
Next == \E c \in 1..4, n \in Steps : AddLines(c, n)
Spec == Init /\ [][Next]_vars

AlgoPercentOK == PercentOK(prof, Shown(out))
AlgoFourNonNegative == \A i \in 1..4 : out[i] \in 0..100
AlgoSum == out[1] + out[2] + out[3] + out[4] = 100
(* adding lines to the unmaintainable category never lowers its shown figure *)
MonotoneUnmaintainable == [][ (prof'[4] > prof[4] /\ prof'[1] = prof[1] /\ prof'[2] = prof[2] /\ prof'[3] = prof[3])
                               => out'[4] >= out[4] - 1 ]_vars
=============================================================================
