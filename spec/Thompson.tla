----------------------------- MODULE Thompson -----------------------------
(***************************************************************************)
(* Implementation-shaped model of codelimit/common/gsm:                    *)
(*   operator/*.py      one Thompson fragment per operator (Build)         *)
(*   Concat + State.assign   the accepting state of the left fragment      *)
(*                      becomes (an alias of) the start of the right one   *)
(*   Expression.epsilon_closure, move, nfa_to_dfa   subset construction    *)
(*   matcher.nfa_match  set simulation (cur / nfaDead)                     *)
(*   Pattern.consume    one DFA transition per item (dfa / dfaAlive),      *)
(*                      matcher.match and matcher.starts_with on top (sw)  *)
(* One Feed(a) step = one iteration of the `for item in sequence` loops.   *)
(* TLC checks, for every pattern up to MaxSize and every word up to MaxLen *)
(* over Sigma, that what the algorithms compute agrees with Regex.tla.     *)
(*                                                                         *)
(* Deliberate abstractions (each justified where it is made):              *)
(*  - states are numbers handed out by position in the tree, not the       *)
(*    global counter State._id;                                            *)
(*  - State.assign is modelled as identification of the two states (the    *)
(*    right fragment's start has no incoming edge, so aliasing its         *)
(*    transition lists from the left fragment's accepting state is the     *)
(*    same graph);                                                         *)
(*  - epsilon_closure is the least fixpoint (the code after the `fix:`     *)
(*    that added a visited set); EpsCyclic characterises the inputs on     *)
(*    which the naive recursion would not terminate;                       *)
(*  - a DFA state is the set of NFA states it stands for.                  *)
(***************************************************************************)
EXTENDS Regex, TLC

CONSTANTS Sigma, MaxSize, MaxLen

(* ---- Thompson fragments:  [n, start, acc, eps, tr], states b+1 .. b+n ---- *)
RECURSIVE B(_, _)
B(r, b) ==
  CASE r[1] = "atom" ->
         [n |-> 2, start |-> b + 1, acc |-> b + 2, eps |-> {}, tr |-> {<<b + 1, r[2], b + 2>>}]
    [] r[1] = "seq" ->                                \* Concat: left.accepting.assign(right.start)
         LET L == B(r[2], b)
             R == B(r[3], b + L.n)
             Ren(x) == IF x = R.start THEN L.acc ELSE x
         IN  [n |-> L.n + R.n, start |-> L.start, acc |-> R.acc,
              eps |-> L.eps \cup { <<Ren(e[1]), Ren(e[2])>> : e \in R.eps },
              tr  |-> L.tr \cup { <<Ren(t[1]), t[2], Ren(t[3])>> : t \in R.tr }]
    [] r[1] = "alt" ->                                \* Union
         LET L == B(r[2], b + 1)
             R == B(r[3], b + 1 + L.n)
             s == b + 1
             t == b + 2 + L.n + R.n
         IN  [n |-> L.n + R.n + 2, start |-> s, acc |-> t,
              eps |-> L.eps \cup R.eps \cup {<<s, L.start>>, <<s, R.start>>, <<L.acc, t>>, <<R.acc, t>>},
              tr  |-> L.tr \cup R.tr]
    [] OTHER ->                                       \* Optional / ZeroOrMore / OneOrMore
         LET N == B(r[2], b + 1)
             s == b + 1
             t == b + 2 + N.n
             skip == IF r[1] \in {"opt", "star"} THEN {<<s, t>>} ELSE {}
             loop == IF r[1] \in {"star", "plus"} THEN {<<N.acc, N.start>>} ELSE {}
         IN  [n |-> N.n + 2, start |-> s, acc |-> t,
              eps |-> N.eps \cup {<<s, N.start>>, <<N.acc, t>>} \cup skip \cup loop,
              tr  |-> N.tr]

Build(r) == B(r, 0)

(* ---- epsilon_closure (least fixpoint), move, one DFA step ---- *)
RECURSIVE Cl(_, _)
Cl(nfa, S) == LET T == S \cup { e[2] : e \in { x \in nfa.eps : x[1] \in S } }
              IN  IF T = S THEN S ELSE Cl(nfa, T)
Move(nfa, S, a) == Cl(nfa, { t[3] : t \in { x \in nfa.tr : x[1] \in S /\ x[2] = a } })
Labels(nfa, S) == { t[2] : t \in { x \in nfa.tr : x[1] \in S } }      \* state_set_transitions

(* on which NFAs the naive recursive closure diverges: an epsilon cycle *)
RECURSIVE ReachEps(_, _)
ReachEps(nfa, S) == LET T == S \cup { e[2] : e \in { x \in nfa.eps : x[1] \in S } }
                    IN  IF T = S THEN S ELSE ReachEps(nfa, T)
EpsCyclic(nfa) == \E e \in nfa.eps : e[1] \in ReachEps(nfa, {e[2]})

VARIABLES re, nfa, w, cur, nfaDead, dfa, dfaAlive, sw
vars == <<re, nfa, w, cur, nfaDead, dfa, dfaAlive, sw>>

Init == /\ re \in AllAST(Sigma, MaxSize)
        /\ nfa = Build(re)
        /\ w = <<>>
        /\ cur = Cl(nfa, {nfa.start}) /\ nfaDead = FALSE       \* nfa_match: active_states
        /\ dfa = Cl(nfa, {nfa.start}) /\ dfaAlive = TRUE       \* Pattern(0, dfa).state
        /\ sw = 0                                              \* starts_with: no result yet

Feed(a) ==
  /\ Len(w) < MaxLen
  /\ w' = Append(w, a)
  \* nfa_match: next_states empty -> return False (for good)
  /\ LET nxt == Move(nfa, cur, a) IN
       IF nfaDead \/ nxt = {} THEN nfaDead' = TRUE /\ cur' = cur
       ELSE nfaDead' = FALSE /\ cur' = nxt
  \* Pattern.consume: the transitions of a DFA state carry pairwise distinct predicates;
  \* exactly the one equal to the item fires, otherwise None is returned and the caller stops
  /\ IF dfaAlive /\ a \in Labels(nfa, dfa)
       THEN dfa' = Move(nfa, dfa, a) /\ dfaAlive' = TRUE
       ELSE dfa' = dfa /\ dfaAlive' = FALSE
  \* starts_with: first accepting state reached after a successful consume
  /\ sw' = IF sw = 0 /\ dfaAlive' /\ nfa.acc \in dfa' THEN Len(w) + 1 ELSE sw
  /\ UNCHANGED <<re, nfa>>

Next == \E a \in Sigma : Feed(a)
Spec == Init /\ [][Next]_vars

(* ---- what C13 demands, stated against Regex.tla ---- *)
NfaMatchOK   == (~nfaDead /\ nfa.acc \in cur) = InL(re, w)             \* nfa_match result
DfaAliveOK   == dfaAlive = Viable(re, w)                               \* no dead state, all co-accessible
MatchOK      == (dfaAlive /\ nfa.acc \in dfa) = InL(re, w)             \* match result
DfaIsNfa     == dfaAlive => dfa = cur                                  \* the two matchers agree state by state
StartsWithOK == sw = ShortestPrefix(re, w)
CycleIffNullableRepetition == EpsCyclic(nfa) = HasNullableRepetition(re)
WellFormedNfa == /\ nfa.start \in 1..nfa.n /\ nfa.acc \in 1..nfa.n /\ nfa.start # nfa.acc
                 /\ \A e \in nfa.eps : e[2] # nfa.start /\ e[1] # nfa.acc
                 /\ \A t \in nfa.tr  : t[3] # nfa.start /\ t[1] # nfa.acc

(* ghost export for the spec -> code replay (vf/props/c13.py reads the dump) *)
=============================================================================
