---------------------------- MODULE HeaderCases ----------------------------
(***************************************************************************)
(* Generator + oracle (role G) for the "built-in header shapes" part of    *)
(* C14: every token-class sequence up to MaxLen over the quotient alphabet *)
(* of every extracted find_all automaton, with the reference search result *)
(* (leftmost, greedy, non-overlapping) as ghost v.  Replayed into the real *)
(* find_all with concrete tokens by vf/props/c15.py:header_shapes.         *)
(***************************************************************************)
EXTENDS AutomatonSem
CONSTANT MaxLen
VARIABLES a, w, v, amb
hvars == <<a, w, v, amb>>
HInit == /\ a \in { x \in 1..NAuto : AKind[x] = "find_all" } /\ w = <<>> /\ v = <<>> /\ amb = FALSE
HNext == /\ Len(w) < MaxLen
         /\ \E c \in ARealistic[a] : w' = Append(w, c)      \* classes a lexer can produce (C15 covers all classes)
         /\ v' = HSearch(a, w')
         /\ amb' = AnyAmbiguous(a, w')      \* sequences on which some attempt is ambiguous are C15's subject
         /\ a' = a
HSpec == HInit /\ [][HNext]_hvars
BalancedEnd == \A s \in 0..(Len(w) - 1) : BalancedEndAt(a, w, s)
ResultOrdered == \A i \in 1..(Len(v) - 1) : v[i][2] <= v[i + 1][1]
ResultInBounds == \A i \in 1..Len(v) : 0 <= v[i][1] /\ v[i][1] < v[i][2] /\ v[i][2] <= Len(w)
ResultCovers == \A s \in 0..(Len(w) - 1) : Succeeds(a, w, s) => \E i \in 1..Len(v) : v[i][1] <= s /\ s < v[i][2]
=============================================================================
