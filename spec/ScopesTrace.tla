---------------------------- MODULE ScopesTrace ----------------------------
(***************************************************************************)
(* Acceptor for recorded intermediates of the real build_scopes on real    *)
(* token streams (any of the 7 languages - pairing, folding and counting   *)
(* are language independent):                                              *)
(*  {id, headers: <<<<s, e>>..>> in source order, blocks: <<<<s, e>>..>>     *)
(*   as the language's block finder returned them (sorted by start),        *)
(*   lines: <<line of token k>>, scopes: <<[hs, he, bs, be, parent, len]>>  *)
(*   in source order (parent = index of the enclosing reported scope, 0)}   *)
(* TLC recomputes BuildScopes / ParentOf / CountLinesFn of Scopes.tla and   *)
(* names the first difference.  This binds the implementation-shaped model *)
(* to the code; a difference is MODEL DRIFT (the property-level verdict of *)
(* C01 comes from Program.tla), reported in the evidence, never an alarm.  *)
(***************************************************************************)
EXTENDS Scopes, Json, IOUtils

Calls == ndJsonDeserialize(IOEnv.TRACE_FILE)
VARIABLE i

Ranges(xs) == [k \in 1..Len(xs) |-> R(xs[k][1], xs[k][2])]
Clause(c) ==
  LET model == BuildScopes(Ranges(c.headers), Ranges(c.blocks))  obs == c.scopes IN
  CASE Len(model) # Len(obs) -> "NumberOfScopes"
    [] \E k \in 1..Len(obs) : model[k].h # R(obs[k].hs, obs[k].he) -> "HeaderOfScope"
    [] \E k \in 1..Len(obs) : model[k].b # R(obs[k].bs, obs[k].be) -> "BlockOfScope"
    [] c.nests /\ \E k \in 1..Len(obs) : ParentOf(model, k) # obs[k].parent -> "Nesting"
    [] c.nests /\ \E k \in 1..Len(obs) : CountLinesFn(c.lines, model, k) # obs[k].len -> "OwnLength"
    [] OTHER -> "none"

TInit == i = 1 /\ w = <<>> /\ scopes = <<>>
TNext == /\ i <= Len(Calls)
         /\ LET cl == Clause(Calls[i]) IN
              IF cl = "none" THEN TRUE ELSE PrintT(<<"DRIFT", Calls[i].id, cl>>)
         /\ i' = i + 1 /\ UNCHANGED vars
TSpec == TInit /\ [][TNext]_<<i, w, scopes>>
AllConsumed == TLCGet("stats").diameter - 1 = Len(Calls)
=============================================================================
