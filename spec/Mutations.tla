----------------------------- MODULE Mutations -----------------------------
(***************************************************************************)
(* C03 / C05 - the input space "any file content".  Malformed inputs are   *)
(* derived from canonical base programs by a chain of mutation operations; *)
(* TLC enumerates the mutation graph, vf/mutate.py binds every abstract    *)
(* position to the concrete text of each base (positions beyond the length *)
(* of a base are folded back by modulo, so every concrete position of      *)
(* every base within the bound is hit).                                    *)
(*   Prefix(k) / Suffix(k)        cut at token k (of the raw token stream) *)
(*   CutChars(k)                  cut in the middle of a token (character) *)
(*   DelLine / DupLine / SwapLines                                          *)
(*   DelToken / DupToken / SwapTokens                                       *)
(*   BreakLine(k)   a backslash-newline continuation in front of token k    *)
(*   JoinLines(k)   the newline ending line k replaced by a blank           *)
(*   Flatten(k)     every line break from line k on replaced by a blank:    *)
(*                  several definitions on one physical line                *)
(*   OddSpace(k)    a form feed / vertical tab / lone CR / U+2028 ... in    *)
(*                  front of token k (blank, but not a line break)          *)
(*   Soup(w)        a sequence over the language's lexical alphabet        *)
(*                  (indices into a per-language table of lexemes incl.    *)
(*                  newline and indentation)                               *)
(*   DeepNest(n)    n nested opening constructs                            *)
(*   Bytes(kind)    non-UTF-8 content: Latin-1, lone continuation bytes,   *)
(*                  NUL, BOM                                               *)
(* The ways of naming a file to `check` are in CheckNaming.tla.            *)
(***************************************************************************)
EXTENDS Naturals, Sequences, FiniteSets, TLC

CONSTANTS NBases,        \* base programs 1..NBases (per language, bound by the harness)
          MaxPos,        \* abstract positions 0..MaxPos
          MaxOps,        \* length of a mutation chain
          OpKinds,       \* which operations this configuration uses
          SoupAlphabet,  \* size of the lexical alphabet
          MaxSoup,       \* maximal soup length
          NestDepths,    \* set of depths for DeepNest
          ByteKinds      \* set of byte-level fault kinds

VARIABLES base, ops
vars == <<base, ops>>

PosOps == {"Prefix", "Suffix", "CutChars", "DelLine", "DupLine", "SwapLines", "DelToken", "DupToken", "SwapTokens",
           "BreakLine", "JoinLines", "OddSpace", "Flatten"}
Op(k, a) == [k |-> k, a |-> a]

Init == base \in 0..NBases /\ ops = <<>>          \* base 0 = the empty text (only soups / nests / bytes apply)
Mutate(k, p) == /\ k \in OpKinds \cap PosOps /\ base > 0 /\ Len(ops) < MaxOps
                /\ ops' = Append(ops, Op(k, p)) /\ UNCHANGED base
Soup(w)      == /\ "Soup" \in OpKinds /\ base = 0 /\ ops = <<>>
                /\ ops' = <<Op("Soup", w)>> /\ UNCHANGED base
DeepNest(n)  == /\ "DeepNest" \in OpKinds /\ base = 0 /\ ops = <<>>
                /\ ops' = <<Op("DeepNest", n)>> /\ UNCHANGED base
Bytes(b)     == /\ "Bytes" \in OpKinds /\ Len(ops) < MaxOps /\ (\A i \in 1..Len(ops) : ops[i].k # "Bytes")
                /\ ops' = Append(ops, Op("Bytes", b)) /\ UNCHANGED base
Soups == UNION { [1..n -> 1..SoupAlphabet] : n \in 1..MaxSoup }
Next == \/ \E k \in OpKinds \cap PosOps, p \in 0..MaxPos : Mutate(k, p)
        \/ \E w \in Soups : Soup(w)
        \/ \E n \in NestDepths : DeepNest(n)
        \/ \E b \in ByteKinds : Bytes(b)
Spec == Init /\ [][Next]_vars
ChainBounded == Len(ops) <= MaxOps

=============================================================================
